"""Per-property claim texts for MANIFEST.json (technique, level text, trusted base).  Kept next to the rule
modules' own rule titles (evidence/<id>.json, coverage.rules): when a rule is added, the sentence here is extended."""

CLAIMS = {
    "C01": dict(
        technique="static analysis: guard-dominance / path-fact rule over MIR (quote-tag discipline), value-flow of execve argv, "
                  "per-character exploration of the tokenizer's loop, index-space (char count vs byte offset) dataflow",
        text="Decides, for all CFG paths of the planning pipeline in both crates: every effect depending on a positive "
             "inspection of token text for shell syntax is controlled by a test of the same token's quote tag; execve's argv is a "
             "lossless map of the token texts; the tokenizer keeps a trace (tag or backslash) of every escaped character a later "
             "pass acts on (explored per character class over its loop); the tokenizer / list splitter never use a character "
             "counter as a byte offset and split only at ASCII blanks; the tokenizer's `is_complete` flag is read by the prompt only. Necessary conditions of the property; equality of argv bytes for arbitrary input is not "
             "decided.",
        note="trusted: rustc MIR + callee resolution; inspector class table in sa/etag.py; later-pass trigger set listed in sa/rules/c01.py",
        ref="4/C01"),
    "C02": dict(
        technique="static analysis: must-call with guard-kill over Child/Parent regions of fork, loop-shape, value-flow and "
                  "call-graph (child never returns) rules",
        text="Decides on all paths of run_pipeline / run_single_program / wait_fg_job: n-1 pipes and n stages, the child-side dup2 "
             "wiring, the parent's staggered closes that EOF propagation needs, the wait obligation and its exact guards, wait "
             "target by pid (not group), status of the last pid (128+signal), one fork site whose child arm never returns into "
             "shell code, SIGCHLD given an explicit disposition before any command, ignored signals reset in the child before exec. Byte delivery and scheduling are not decided.",
        note="trusted: MIR, libc/nix semantics; counting lemma for vector-held pipes (DESIGN 3, E-FD)",
        ref="4/C02"),
    "C03": dict(
        technique="static analysis: loop-exit shape, truth table of path conditions, backward value-flow slices, splitter "
                  "state-machine guard rule, index-space dataflow",
        text="Decides that the list loop exits only on iterator exhaustion, that run/skip equals the short-circuit truth table "
             "over (sep, status), the status plumbing into $?, -c and script exit codes, that the status tested is the last "
             "stage's (wait-loop rules), that line_to_cmds leaves a quoted region only at the opening character and looks ahead in "
             "its cursor's index space. The splitter's output for arbitrary text is not decided beyond these clauses.",
        note="trusted: MIR; nix waitpid semantics",
        ref="4/C03"),
    "C04": dict(
        technique="static analysis: call-set and who-may-call rules, region (post-fork Child) membership, error-path must-reach, "
                  "search-direction and stale-descriptor rules",
        text="Decides truncate/append call sets and the `>>` selector, descriptor targets of the child-side redirect loop, "
             "forward iteration (last redirection wins, for output and input), every dup2 in the Child region, open failures reach "
             "a non-zero exit before exec / are not dropped, here-string feeding, that the child touches no released pipe "
             "number while the here-string pipe is live, that no word with `>` is dropped silently by the spelling recogniser and "
             "no recorded redirection is removed or skipped afterwards, the opener sets no raw open(2) flags, `>` right after a closing "
             "quote ends the quoted word (explored over the tokenizer's loop), and which spellings of `<` are recognised (open "
             "finding). Redirection spelling regexes and file contents are not decided.",
        note="trusted: MIR, std::fs::OpenOptions semantics",
        ref="4/C04"),
    "C05": dict(
        technique="static analysis: panic-site inventory with discharge rules (difference constraints over branch facts, "
                  "regex-literal facts, audited table) over MIR asserts/panicking calls; loop variant (stutter) rule; index-space "
                  "dataflow; grammar evaluated as data",
        text="Every panic-capable site reachable from the parsing/expansion/planning entry points is discharged by a dominating "
             "guard, a regex-literal fact, or an audited table entry; every non-iterator loop has a machine-checked progress "
             "argument (including 'leave when a rewrite changed nothing'); no character count is used as a byte offset in a "
             "panicking position; every `num` the calculator grammar accepts parses as f64. Undischarged site = crash or hang on "
             "the input that reaches it.",
        note="trusted: regex/pest/glob/lineread/std internals; audited table in sa/rules/c05.py",
        ref="4/C05"),
    "C06": dict(
        technique="static analysis: API-precondition (sortedness / order-preservation) rules, event-routing table agreement, "
                  "signal-mask typestate over the call graph, loop-bound rule",
        text="Decides structural necessary conditions of job tracking: no order-dependent search or order-breaking mutation of "
             "Job.pids, the four child-event kinds parked in matching maps by both reapers and all drained, event maps touched "
             "only with SIGCHLD blocked, smallest-free-id allocation, the all-stopped predicate (every verdict site), gid lookups not bounded by "
             "jobs.len(), event maps changed one pid at a time, a member's stop / continue mark changed only by insert(pid) / "
             "remove(pid). Interleaving semantics are not decided.",
        note="trusted: MIR, nix WaitStatus; model-level interleavings out of reach of path rules",
        ref="4/C06"),
    "C07": dict(
        technique="static analysis: must-call pairing on flagged edges, guard dominance, region rules, reuse of the job-table analyses",
        text="Decides that every site that may hand the terminal to a job gives it back on all paths, the hand-over guard "
             "(has_terminal, isatty, not background, stage 0), setpgid on both sides of fork before exec, the signal-mask bracket "
             "in give_terminal_to, SIGCONT to the whole group unconditionally in fg/bg, background polling after every input "
             "line, ignored job-control signals reset in the child, the job-state clauses shared with C06, and that wait_fg_job returns (the terminal is taken back) only once the "
             "job's own members are done (wait-loop analysis shared with C02).",
        note="trusted: MIR, libc; real process groups / signal delivery not decided",
        ref="4/C07"),
    "C08": dict(
        technique="static analysis: descriptor ownership typestate at every return / exec, must-call obligations with guards "
                  "evaluated over abstract worlds, close-on-exec provenance, stale-number rule",
        text="Decides on all return paths (including pipe()/fork failure paths no test drives) that every raw descriptor created "
             "is released or handed over, in the shell and before exec in the child; redirection descriptors are CLOEXEC by "
             "provenance; no operation names a released pipe number while a newer descriptor is live.",
        note="trusted: MIR, close-on-exec facts for std::fs opens vs pipe/dup; counting lemma for staggered closes",
        ref="4/C08"),
    "C09": dict(
        technique="static analysis: guard dominance, who-may-call and value-flow rules, lookup-order and memoisation rules",
        text="Decides that cd's state writes are dominated by a successful chdir (failure reported), per-command assignments "
             "touch the shell only when no command follows, execve's envp merges both sources, the set/unset/export API call sets "
             "on every path, environment-before-shell-map lookup order, and that environment / cwd reads are not memoised.",
        note="trusted: MIR, std::env semantics; histories over models not decided",
        ref="4/C09"),
    "C10": dict(
        technique="static analysis: rescan taint (value fed back into its own scanner), tag-guard rule, gate/rewriter agreement "
                  "and fixpoint-exit rules, template taint",
        text="Decides that an expanded value cannot flow back into the pass's scanner, quoted tokens are skipped, the rewriter "
             "runs only on text its gate accepted and the loop leaves when nothing changed, unset removes from both stores, values "
             "never reach a regex replacement template unescaped, lookup order, the $?/$$ sources, and that the tokenizer delimits a "
             "trailing $NAME before gluing text across a quote boundary (explored over its character loop).",
        note="trusted: MIR; regex exactness on adjacent text not decided",
        ref="4/C10"),
    "C11": dict(
        technique="static analysis: taint (command output into regex replacement template / rescan), stutter rule, "
                  "constant-argument rule, pass-order rule, edit-list rule, regex shape comparison",
        text="Decides that captured output cannot reach a replacement template unescaped or be rescanned for $(, the "
             "substitution loops (both passes) cannot stutter and its splice pattern is as wide as its gate, capture=true at the three sites, "
             "trailing-newline-only trimming of an output that is read whatever the command's status, read to EOF, one expansion per line, no interpreting pass after substitution, "
             "positions stay valid until used and are exact (enumerate() over the vector itself), bracketed counters are restored on every path, the extracting pattern (evaluated as "
             "data) takes one substitution at a time, the captured stderr is passed on, a function's output is concatenated as "
             "written, assignment patterns accept multi-line values, and which commands run inside the shell process when "
             "capturing (open finding).",
        note="trusted: MIR, regex replacement-template semantics",
        ref="4/C11"),
    "C12": dict(
        technique="static analysis: tag-guard rule, tag-expression control dependence, edit-order (Rev) and edit-list rules, "
                  "loop-shape rule, template taint, provenance rules",
        text="Decides: no expansion of tagged tokens, produced words with spaces get a quote tag, pending edits applied in "
             "descending order on the vector as scanned at positions that are the tokens' own indexes (hand counter advanced once per "
             "token, or enumerate() over the vector itself), a glob never yields an empty list, the two counting loops of brace "
             "ranges, HOME read at expansion time and not as a template, the `.`/`..` filter, ranges keep the text around the "
             "braces, a group's closing brace is consumed once, only `~` / `~/` are rewritten (pattern evaluated as data), a "
             "`./` prefix is kept, every pass sees the previous passes' words, hidden entries judged by the last path component. Produced word lists (cartesian order, glob "
             "matches) are not decided.",
        note="trusted: MIR; value-level results out of reach",
        ref="4/C12"),
    "C13": dict(
        technique="static analysis: pass summaries (source class x tag expression) against recogniser guards (E-RETAG), "
                  "pass-order, no-retokenise and edit-list rules, regex shape",
        text="Decides whether any expansion pass can leave externally-derived text in a token whose tag lets an operator "
             "recogniser accept it; recognisers honour the tag; list splitting precedes expansion; expanded text is never "
             "tokenized again or interpreted by a later pass; results land in the slot they were computed for.",
        note="trusted: MIR; source classification table in sa/rules/c13.py",
        ref="4/C13"),
    "C14": dict(
        technique="static analysis: PEG grammar facts (pest_meta AST) vs interpreter tables, flag-propagation rules, grammar "
                  "evaluated as data against a reference recogniser (bounded exhaustive)",
        text="Decides that the top rule is anchored at both ends, each walker's rule set covers the grammar's child sets, "
             "break/continue/first-true-branch propagation, keywords cannot match empty, leading indentation, agreement of the "
             "grammar with a reference block-structure recogniser on all keyword sequences up to a bound, for-variable binding and "
             "word splitting, the condition verdict by the last status, no text runs unparsed, and break / continue flags are raised only by the words "
             "themselves.",
        note="trusted: pest semantics, MIR; equivalence of the interpreter's effects with a reference interpreter not decided",
        ref="4/C14"),
    "C15": dict(
        technique="static analysis: backward value-flow table, constant and region rules, regex gate-vs-rewriter evaluation, "
                  "edit-list, accumulator and inc/dec pairing rules",
        text="Decides status plumbing for functions/source/scripts/exit, positional base index, exit_on_error test after every "
             "command (no path to the next line once the flag is set and the status is non-zero), a function's status copied - not computed - from its last command, source/functions run in the shell process, the positional gate covers its rewriter, results written to the "
             "slot read, result lists only grow, depth counters restored on every path, redefinition overwrites, and source / function calls always run what was named.",
        note="trusted: MIR",
        ref="4/C15"),
    "C16": dict(
        technique="static analysis: call-graph funnel rule, tokenizer-specials vs renderer escape-set table agreement (tokenizer "
                  "side computed by exploring its character loop), index-space dataflow",
        text="Decides that all entry points reach execution only through run_command_line and that the script path's token "
             "renderer re-escapes every character the tokenizer treats specially, outside and inside double quotes (necessary for "
             "idempotent re-tokenizing); list operators, `||` without blanks and `>` right after a closing quote are tokenized as "
             "operators (explored over the character loop); tokenizer and renderer agree on backslashes of untagged words.",
        note="trusted: MIR; special-character table S justified in DESIGN 4/C16",
        ref="4/C16"),
    "C17": dict(
        technique="static analysis: guard discipline on the head-of-stage flag, rescan rule, API call-set, tokenizer exploration "
                  "for name shapes, edit-list and overwrite rules",
        text="Decides that alias lookup happens only at head-of-stage positions, the flag is cleared on every path that consumes "
             "a word, replaced tokens are not looked up again, unalias removes by exact key, redefinition overwrites, the value "
             "replaces the word it was looked up for and enters the token list only through the tokenizer, the listing chooses its quote character by the value, a replacement is recorded under exactly {head position, is an alias}, and which accepted name shapes the tokenizer treats as assignment heads.",
        note="trusted: MIR",
        ref="4/C17"),
    "C18": dict(
        technique="static analysis: SQL taint (format! into Connection::execute/prepare) with explicit sanitizers, guard rule, "
                  "error-path must-reach",
        text="Decides that no user-controlled text reaches SQL text unless quote-doubled inside quotes or bound as a parameter, "
             "LIKE/ESCAPE consistency, the recording guard (leading space / immediate repeat, on the typed line) in main, "
             "that a failed INSERT is reported, and that no statement renumbers the row ids shown to the user.",
        note="trusted: MIR, rusqlite API; durability across processes not decided",
        ref="4/C18"),
    "C19": dict(
        technique="static analysis: Pratt-table extraction, grammar/evaluator table agreement, panic-site rule, grammar and "
                  "classifier regexes evaluated as data (bounded exhaustive)",
        text="Decides the operator precedence/associativity table, symbol-rule-operator agreement of both evaluators, mode "
             "selection, that no evaluator site can panic, that the grammar accepts exactly well-formed infix expressions up to a "
             "bound, and that is_arithmetic agrees with the statement's character-class rule on all short strings.",
        note="trusted: pest PrattParser semantics; numeric results not decided",
        ref="4/C19"),
    "C20": dict(
        technique="static analysis: escape-class (regex literal) vs tokenizer/expansion specials table agreement (tokenizer side "
                  "derived from MIR), structural filter rules, quote-state machine guards, index-space and edit-list rules",
        text="Decides that the completion escaper's class covers the characters the tokenizer and expansion passes act on, the "
             "quoting helper's set inside an open quote, the candidate filter shape (prefix match, directories only after cd, "
             "sorted), the word-start scanner's quote tracking and byte accounting, and that expansion writes results back in "
             "place.",
        note="trusted: regex-syntax class parsing; pty round trip not decided",
        ref="4/C20"),
}
