// pestfacts: dump a .pest grammar as JSON (rule kind + expression tree) using pest_meta, the same
// parser pest_derive uses.  usage: pestfacts <grammar.pest>
use pest_meta::ast::{Expr, RuleType};
use pest_meta::parser::{self, Rule};

fn esc(s: &str) -> String {
    let mut o = String::from("\"");
    for c in s.chars() {
        match c {
            '"' => o.push_str("\\\""),
            '\\' => o.push_str("\\\\"),
            '\n' => o.push_str("\\n"),
            '\t' => o.push_str("\\t"),
            '\r' => o.push_str("\\r"),
            c if (c as u32) < 0x20 => o.push_str(&format!("\\u{:04x}", c as u32)),
            c => o.push(c),
        }
    }
    o.push('"');
    o
}

fn ex(e: &Expr) -> String {
    match e {
        Expr::Str(s) => format!("{{\"k\":\"str\",\"v\":{}}}", esc(s)),
        Expr::Insens(s) => format!("{{\"k\":\"insens\",\"v\":{}}}", esc(s)),
        Expr::Range(a, b) => format!("{{\"k\":\"range\",\"a\":{},\"b\":{}}}", esc(a), esc(b)),
        Expr::Ident(s) => format!("{{\"k\":\"ident\",\"v\":{}}}", esc(s)),
        Expr::PosPred(x) => format!("{{\"k\":\"pospred\",\"e\":{}}}", ex(x)),
        Expr::NegPred(x) => format!("{{\"k\":\"negpred\",\"e\":{}}}", ex(x)),
        Expr::Seq(a, b) => format!("{{\"k\":\"seq\",\"a\":{},\"b\":{}}}", ex(a), ex(b)),
        Expr::Choice(a, b) => format!("{{\"k\":\"choice\",\"a\":{},\"b\":{}}}", ex(a), ex(b)),
        Expr::Opt(x) => format!("{{\"k\":\"opt\",\"e\":{}}}", ex(x)),
        Expr::Rep(x) => format!("{{\"k\":\"rep\",\"e\":{}}}", ex(x)),
        Expr::RepOnce(x) => format!("{{\"k\":\"rep1\",\"e\":{}}}", ex(x)),
        Expr::RepExact(x, n) => format!("{{\"k\":\"repn\",\"n\":{},\"e\":{}}}", n, ex(x)),
        Expr::RepMin(x, n) => format!("{{\"k\":\"repmin\",\"n\":{},\"e\":{}}}", n, ex(x)),
        Expr::RepMax(x, n) => format!("{{\"k\":\"repmax\",\"n\":{},\"e\":{}}}", n, ex(x)),
        Expr::RepMinMax(x, a, b) => format!("{{\"k\":\"repmm\",\"a\":{},\"b\":{},\"e\":{}}}", a, b, ex(x)),
        Expr::Skip(v) => format!("{{\"k\":\"skip\",\"n\":{}}}", v.len()),
        Expr::Push(x) => format!("{{\"k\":\"push\",\"e\":{}}}", ex(x)),
        #[allow(unreachable_patterns)]
        _ => "{\"k\":\"other\"}".to_string(),
    }
}

fn main() {
    let path = std::env::args().nth(1).expect("usage: pestfacts <grammar.pest>");
    let src = std::fs::read_to_string(&path).expect("cannot read grammar");
    let pairs = match parser::parse(Rule::grammar_rules, &src) {
        Ok(p) => p,
        Err(e) => {
            println!("{{\"error\":{}}}", esc(&e.to_string()));
            std::process::exit(1);
        }
    };
    let ast = match parser::consume_rules(pairs) {
        Ok(a) => a,
        Err(es) => {
            println!("{{\"error\":{}}}", esc(&format!("{:?}", es)));
            std::process::exit(1);
        }
    };
    let mut out = String::from("{\"rules\":[");
    for (i, r) in ast.iter().enumerate() {
        if i > 0 {
            out.push(',');
        }
        let ty = match r.ty {
            RuleType::Normal => "normal",
            RuleType::Silent => "silent",
            RuleType::Atomic => "atomic",
            RuleType::CompoundAtomic => "compound_atomic",
            RuleType::NonAtomic => "non_atomic",
        };
        out.push_str(&format!("{{\"name\":{},\"ty\":\"{}\",\"expr\":{}}}", esc(&r.name), ty, ex(&r.expr)));
    }
    out.push_str("]}");
    println!("{}", out);
}
