#!/usr/bin/env python3
"""A behaviour-breaking edit made in the REFACTORED form of the code: refactored/<rid>/patch.diff plus one textual
replacement, stored as seeded/<name>/ (patch.diff against /repo, meta.json) and checked at once.
usage: mk_refmut.py <rid> <name> <PROP> <expect substring of key> <file under src/> <old text> <new text> <what breaks>"""
import json, os, shutil, subprocess, sys, tempfile
V = os.path.dirname(os.path.dirname(os.path.abspath(__file__)))
sys.path.insert(0, V)
from sa import selftest
rid, name, prop, expect, rel, old, new, what = sys.argv[1:9]
d, err = selftest.make_scratch(os.path.join(V, "refactored", rid, "patch.diff"))
assert d, err
try:
    p = os.path.join(d, "src", rel)
    s = open(p).read()
    assert s.count(old) == 1, "pattern occurs %d times" % s.count(old)
    open(p, "w").write(s.replace(old, new, 1))
    base = tempfile.mkdtemp(prefix="verif-base-")
    os.makedirs(os.path.join(base, "a")); os.makedirs(os.path.join(base, "b"))
    shutil.copytree(os.path.join(selftest.REPO, "src"), os.path.join(base, "a", "src"))
    shutil.copytree(os.path.join(d, "src"), os.path.join(base, "b", "src"))
    r = subprocess.run(["diff", "-ruN", "a/src", "b/src"], cwd=base, capture_output=True, text=True)
    shutil.rmtree(base)
    out = os.path.join(V, "seeded", name)
    os.makedirs(out, exist_ok=True)
    open(os.path.join(out, "patch.diff"), "w").write(r.stdout)
    v = selftest.violations_on(d, prop)
    hit = [k for k in sorted(v) if expect in k]
    meta = {"id": name, "property": prop,
            "origin": "hand-made: the behaviour-preserving change refactored/%s with one behaviour-breaking edit on top (%s: %r -> %r)"
                      % (rid, rel, old, new),
            "needs_to_manifest": what,
            "confirmed": "by reading: the edit changes the behaviour the property states; compiles (facts extracted from the patched copy)",
            "detected_by": sorted({"%s:%s" % (prop, k.split("|")[0]) for k in hit}),
            "expect_detected": bool(hit), "expect_key": expect}
    json.dump(meta, open(os.path.join(out, "meta.json"), "w"), indent=1)
    print("DETECTED" if hit else "MISSED", name, hit[:2] if hit else sorted(v)[:4])
finally:
    shutil.rmtree(d, ignore_errors=True)
