#!/bin/bash
# verify a behaviour-preserving change in its scratch worktree: compiles, existing tests pass, and the agent's
# observation script prints the same with and without it.   usage: verify_refactor.sh /tmp/wt-CXXr
WT=$1
cd "$WT" || exit 2
export CARGO_NET_OFFLINE=true
P=seed/patch.diff
[ -s $P ] || { echo "no patch"; exit 2; }
git checkout -q -- src tests 2>/dev/null
git apply --check $P || { echo "patch does not apply to clean tree"; exit 2; }
cargo build --offline 2>&1 | grep -E "^error" -A5 | head
timeout 300 bash seed/same.sh > /tmp/same-before.$$ 2>&1 </dev/null
git apply $P
echo "build: $(cargo build --offline 2>&1 | grep -cE '^error') errors"
echo "lib : $(cargo test --offline --lib 2>&1 | grep -E '^test result' | head -1)"
echo "bin : $(cargo test --offline --bin cicada 2>&1 | grep -E '^test result' | head -1)"
./tests/test_scripts.sh > /tmp/ts.$$ 2>&1; echo "scripts rc=$? ok=$(grep -c '^OK' /tmp/ts.$$)"; rm -f /tmp/ts.$$
timeout 300 bash seed/same.sh > /tmp/same-after.$$ 2>&1 </dev/null
if cmp -s /tmp/same-before.$$ /tmp/same-after.$$; then echo "same.sh: identical ($(wc -l < /tmp/same-after.$$) lines)"; else echo "same.sh: DIFFERENT"; diff /tmp/same-before.$$ /tmp/same-after.$$ | head -10; fi
rm -f /tmp/same-before.$$ /tmp/same-after.$$
git apply -R $P
git status --short | grep -v seed | head -3
