#!/usr/bin/env python3
"""sa/baseline_fns.json: the functions of the tree the rule instances were confirmed on (per crate).  Functions that are
not in this list are treated as newly extracted helpers and spliced into their callers before analysis (sa/inline.py).
Regenerate after a fix: commit to /repo that adds a function, once the checks have been confirmed on the new tree."""
import json, os, sys
sys.path.insert(0, os.path.dirname(os.path.dirname(os.path.abspath(__file__))))
os.environ["VERIF_INLINE"] = "0"
from sa import facts, inline
f = facts.extract()
out = {k: sorted(b["path"] for b in f[k]["bodies"] if b["kind"] == "fn") for k in ("lib", "bin")}
# signatures (argument and return types): a function that disappears while one with the same signature appears in the
# same module is a rename; the facts are normalised back to the baseline name (sa/inline.py)
for k in ("lib", "bin"):
    out[k + "_sig"] = {b["path"]: inline.signature(b) for b in f[k]["bodies"] if b["kind"] == "fn"}
# Option / Result combinator calls of the confirmed tree, per body: calls beyond these counts are rewritten into matches
for k in ("lib", "bin"):
    cnt = {}
    for b in f[k]["bodies"]:
        if b["kind"] in ("fn", "closure") and "::tests::" not in b["path"]:
            for i, fam, name in inline.combinator_sites(b):
                key = "%s|%s|%s" % (b["path"], fam, name)
                cnt[key] = cnt.get(key, 0) + 1
    out[k + "_comb"] = cnt
json.dump(out, open(os.path.join(os.path.dirname(os.path.dirname(os.path.abspath(__file__))), "sa", "baseline_fns.json"), "w"), indent=0)
print({k: len(v) for k, v in out.items()})
