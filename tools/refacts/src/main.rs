// refacts: facts about regex literals of the program under analysis (constants of the program,
// evaluated with the same regex crate version the program is built with).
// stdin: one JSON string per line (the pattern).  stdout: one JSON object per line.
use regex_syntax::hir::{Hir, HirKind, Class};
use std::io::{BufRead, Write};

fn unescape_json(s: &str) -> Option<String> {
    let s = s.trim();
    if s.len() < 2 || !s.starts_with('"') || !s.ends_with('"') {
        return None;
    }
    let mut out = String::new();
    let mut it = s[1..s.len() - 1].chars();
    while let Some(c) = it.next() {
        if c != '\\' {
            out.push(c);
            continue;
        }
        match it.next()? {
            'n' => out.push('\n'),
            't' => out.push('\t'),
            'r' => out.push('\r'),
            '"' => out.push('"'),
            '\\' => out.push('\\'),
            '/' => out.push('/'),
            'b' => out.push('\u{8}'),
            'f' => out.push('\u{c}'),
            'u' => {
                let h: String = (&mut it).take(4).collect();
                let v = u32::from_str_radix(&h, 16).ok()?;
                out.push(char::from_u32(v)?);
            }
            _ => return None,
        }
    }
    Some(out)
}

fn esc(s: &str) -> String {
    let mut o = String::from("\"");
    for c in s.chars() {
        match c {
            '"' => o.push_str("\\\""),
            '\\' => o.push_str("\\\\"),
            '\n' => o.push_str("\\n"),
            '\t' => o.push_str("\\t"),
            '\r' => o.push_str("\\r"),
            c if (c as u32) < 0x20 => o.push_str(&format!("\\u{:04x}", c as u32)),
            c => o.push(c),
        }
    }
    o.push('"');
    o
}

fn walk(h: &Hir, must: bool, always: &mut Vec<bool>, classes: &mut Vec<Vec<char>>, lits: &mut Vec<String>) {
    match h.kind() {
        HirKind::Capture(c) => {
            let i = c.index as usize;
            if always.len() <= i {
                always.resize(i + 1, false);
            }
            always[i] = must;
            walk(&c.sub, must, always, classes, lits);
        }
        HirKind::Concat(v) => {
            for x in v {
                walk(x, must, always, classes, lits);
            }
        }
        HirKind::Alternation(v) => {
            for x in v {
                walk(x, false, always, classes, lits);
            }
        }
        HirKind::Repetition(r) => {
            walk(&r.sub, must && r.min > 0, always, classes, lits);
        }
        HirKind::Class(Class::Unicode(cu)) => {
            let mut cs = Vec::new();
            let mut small = true;
            for r in cu.ranges() {
                if (r.end() as u32) - (r.start() as u32) > 200 {
                    small = false;
                    break;
                }
                let mut c = r.start() as u32;
                while c <= r.end() as u32 {
                    if let Some(ch) = char::from_u32(c) {
                        cs.push(ch);
                    }
                    c += 1;
                }
            }
            if small {
                classes.push(cs);
            }
        }
        HirKind::Class(Class::Bytes(cb)) => {
            let mut cs = Vec::new();
            for r in cb.ranges() {
                for b in r.start()..=r.end() {
                    cs.push(b as char);
                }
            }
            classes.push(cs);
        }
        HirKind::Literal(l) => {
            lits.push(String::from_utf8_lossy(&l.0).to_string());
        }
        _ => {}
    }
}

/// structural rendering of the pattern: a JSON tree of concat / alt / rep / class / lit / look / cap nodes.
/// A class is given by the ASCII printable characters (plus \n, \t) it EXCLUDES and whether it admits non-ASCII.
fn shape(h: &Hir) -> String {
    match h.kind() {
        HirKind::Empty => "{\"k\":\"empty\"}".to_string(),
        HirKind::Literal(l) => format!("{{\"k\":\"lit\",\"v\":{}}}", esc(&String::from_utf8_lossy(&l.0))),
        HirKind::Class(c) => {
            let probe: Vec<char> = (0x20u8..0x7f).map(|b| b as char).chain(vec!['\n', '\t']).collect();
            let mut excl = String::new();
            let mut non_ascii = false;
            match c {
                Class::Unicode(cu) => {
                    for ch in probe {
                        if !cu.ranges().iter().any(|r| r.start() <= ch && ch <= r.end()) {
                            excl.push(ch);
                        }
                    }
                    non_ascii = cu.ranges().iter().any(|r| (r.end() as u32) > 0x7f);
                }
                Class::Bytes(cb) => {
                    for ch in probe {
                        let b = ch as u8;
                        if !cb.ranges().iter().any(|r| r.start() <= b && b <= r.end()) {
                            excl.push(ch);
                        }
                    }
                    non_ascii = cb.ranges().iter().any(|r| r.end() > 0x7f);
                }
            }
            format!("{{\"k\":\"class\",\"excl\":{},\"non_ascii\":{}}}", esc(&excl), non_ascii)
        }
        HirKind::Look(l) => format!("{{\"k\":\"look\",\"v\":{}}}", esc(&format!("{:?}", l))),
        HirKind::Repetition(r) => format!(
            "{{\"k\":\"rep\",\"min\":{},\"max\":{},\"greedy\":{},\"of\":{}}}",
            r.min,
            r.max.map(|m| m.to_string()).unwrap_or_else(|| "null".to_string()),
            r.greedy,
            shape(&r.sub)
        ),
        HirKind::Capture(c) => format!("{{\"k\":\"cap\",\"i\":{},\"of\":{}}}", c.index, shape(&c.sub)),
        HirKind::Concat(v) => format!(
            "{{\"k\":\"concat\",\"of\":[{}]}}",
            v.iter().map(shape).collect::<Vec<_>>().join(",")
        ),
        HirKind::Alternation(v) => format!(
            "{{\"k\":\"alt\",\"of\":[{}]}}",
            v.iter().map(shape).collect::<Vec<_>>().join(",")
        ),
    }
}

fn main() {
    let stdin = std::io::stdin();
    let out = std::io::stdout();
    let mut out = out.lock();
    for line in stdin.lock().lines() {
        let line = match line {
            Ok(l) => l,
            Err(_) => break,
        };
        if line.trim().is_empty() {
            continue;
        }
        // match mode: "M<TAB><json pattern><TAB><json text>[<TAB><json text>...]" -> {"m":[bool,...]}
        if let Some(rest) = line.strip_prefix("M\t") {
            let mut parts = rest.split('\t');
            let pat = parts.next().and_then(unescape_json);
            let re = pat.as_ref().and_then(|p| regex::Regex::new(p).ok());
            match re {
                None => {
                    writeln!(out, "{{\"error\":\"bad pattern\"}}").unwrap();
                }
                Some(re) => {
                    let res: Vec<&str> = parts
                        .map(|t| match unescape_json(t) {
                            Some(tx) => {
                                if re.is_match(&tx) {
                                    "true"
                                } else {
                                    "false"
                                }
                            }
                            None => "null",
                        })
                        .collect();
                    writeln!(out, "{{\"m\":[{}]}}", res.join(",")).unwrap();
                }
            }
            continue;
        }
        // capture mode: "C<TAB><json pattern><TAB><json text>..." -> {"c":[group 1 of the first match | null,...]}
        if let Some(rest) = line.strip_prefix("C\t") {
            let mut parts = rest.split('\t');
            let pat = parts.next().and_then(unescape_json);
            let re = pat.as_ref().and_then(|p| regex::Regex::new(p).ok());
            match re {
                None => {
                    writeln!(out, "{{\"error\":\"bad pattern\"}}").unwrap();
                }
                Some(re) => {
                    let res: Vec<String> = parts
                        .map(|t| match unescape_json(t) {
                            Some(tx) => match re.captures(&tx).and_then(|c| c.get(1).map(|m| m.as_str().to_string())) {
                                Some(g) => esc(&g),
                                None => "null".to_string(),
                            },
                            None => "null".to_string(),
                        })
                        .collect();
                    writeln!(out, "{{\"c\":[{}]}}", res.join(",")).unwrap();
                }
            }
            continue;
        }
        let pat = match unescape_json(&line) {
            Some(p) => p,
            None => {
                writeln!(out, "{{\"error\":\"bad input\"}}").unwrap();
                continue;
            }
        };
        let compiled = regex::Regex::new(&pat);
        let mut s = format!("{{\"pattern\":{},\"ok\":{}", esc(&pat), compiled.is_ok());
        if let Ok(re) = &compiled {
            s.push_str(&format!(",\"groups\":{}", re.captures_len()));
            let names: Vec<String> = re
                .capture_names()
                .map(|n| n.map(|x| esc(x)).unwrap_or_else(|| "null".to_string()))
                .collect();
            s.push_str(&format!(",\"names\":[{}]", names.join(",")));
        } else if let Err(e) = &compiled {
            s.push_str(&format!(",\"error\":{}", esc(&e.to_string())));
        }
        if let Ok(hir) = regex_syntax::Parser::new().parse(&pat) {
            let mut always = vec![true];
            let mut classes = Vec::new();
            let mut lits = Vec::new();
            walk(&hir, true, &mut always, &mut classes, &mut lits);
            let a: Vec<&str> = always.iter().map(|b| if *b { "true" } else { "false" }).collect();
            s.push_str(&format!(",\"always\":[{}]", a.join(",")));
            let cl: Vec<String> = classes
                .iter()
                .map(|c| esc(&c.iter().collect::<String>()))
                .collect();
            s.push_str(&format!(",\"classes\":[{}]", cl.join(",")));
            let ls: Vec<String> = lits.iter().map(|l| esc(l)).collect();
            s.push_str(&format!(",\"literals\":[{}]", ls.join(",")));
            s.push_str(&format!(",\"shape\":{}", shape(&hir)));
            // can the whole pattern match the empty string?
            s.push_str(&format!(
                ",\"min_len\":{}",
                hir.properties().minimum_len().map(|n| n as i64).unwrap_or(-1)
            ));
        }
        s.push('}');
        writeln!(out, "{}", s).unwrap();
    }
}
