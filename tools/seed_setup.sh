#!/bin/bash
# seed_setup.sh <suffix>...: scratch worktrees /tmp/wt-<suffix> of /repo's HEAD with a copy of the built target/
set -e
for s in "$@"; do
  git -C /repo worktree add --detach -q /tmp/wt-$s HEAD
  cp -a /repo/target /tmp/wt-$s/target
  mkdir -p /tmp/wt-$s/seed
  echo "ready /tmp/wt-$s"
done
