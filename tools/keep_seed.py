#!/usr/bin/env python3
"""store a verified seeded change: keep_seed.py <id> <worktree> <property> <detected_by,comma> <expect_key_substring> <needs...>"""
import json, os, shutil, sys
sid, wt, prop, det, expect = sys.argv[1:6]
needs = " ".join(sys.argv[6:])
d = os.path.join("/verif/seeded", sid)
os.makedirs(d, exist_ok=True)
shutil.copy(os.path.join(wt, "seed/patch.diff"), os.path.join(d, "patch.diff"))
for f in os.listdir(os.path.join(wt, "seed")):
    if f in ("patch.diff",):
        continue
    src = os.path.join(wt, "seed", f)
    if os.path.isfile(src) and os.path.getsize(src) < 200000:
        shutil.copy(src, os.path.join(d, f))
meta = {
    "id": sid, "property": prop,
    "origin": "independent sub-agent given only the property text and a scratch worktree",
    "needs_to_manifest": needs,
    "confirmed": "tools/verify_seed.sh: builds; cargo test --lib and --bin pass; tests/test_scripts.sh 9/9; "
                 "demo.sh fails with the change and passes without it",
    "checked_with": "tools/seed_check.sh (git -C /repo apply, ./check, git -C /repo checkout -- .)",
    "detected_by": [x for x in det.split(",") if x],
    "expect_detected": bool(det),
    "expect_key": expect or None,
}
json.dump(meta, open(os.path.join(d, "meta.json"), "w"), indent=1)
print("kept", d)
