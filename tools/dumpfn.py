#!/usr/bin/env python3
"""debug helper: dump switch edges / calls / assignments of a function"""
import sys; sys.path.insert(0,'/verif')
from sa import facts, mir
f=facts.extract()
c=mir.Crate(f[sys.argv[2] if len(sys.argv)>2 else 'bin'])
for b in c.find(sys.argv[1]) or [c.fn(sys.argv[1])]:
    print('==',b.path,b.n,'blocks; loops',{h:sorted(v)[:6] for h,v in b.loops().items()}, 'back', b.back_edges())
    for bb in sorted(b.reachable):
        blk=b.blocks[bb]
        for si,s in enumerate(blk['stmts']):
            if s['k']=='assign' and (s['place']['l'] in b.names or s['place']['l']==0 or s['place']['p']):
                print('  bb%d.%d  %s%s = %s   @%d'%(bb,si,b.names.get(s['place']['l'],'_%d'%s['place']['l']), ''.join('.'+str(p.get('name') or p.get('f')) if isinstance(p,dict) and 'f' in p else ('[]' if isinstance(p,dict) else '*') for p in s['place']['p']), mir.render(b.rvalue_expr(s['rv']))[:150], s['span']['line']))
        t=blk['term']
        if t['k']=='call':
            print('  bb%d call %s(%s) -> %s  => bb%s  @%d'%(bb, mir.short(b.callee(t)), ', '.join(mir.render(a)[:80] for a in b.call_args(bb)), b.names.get(t['dest']['l'],'_%d'%t['dest']['l']), t['target'], t['span']['line']))
        elif t['k']=='switch':
            for tgt,atom,val in b.switch_edges(bb):
                print('  bb%d -> bb%d if %s = %s'%(bb,tgt,mir.render(atom)[:150],val))
        elif t['k'] in ('return','unreachable'):
            print('  bb%d %s'%(bb,t['k']))
        elif t['k']=='assert':
            print('  bb%d assert %s => bb%d'%(bb,t['kind'],t['target']))
        else:
            print('  bb%d %s => %s'%(bb,t['k'],b.succs[bb]))
