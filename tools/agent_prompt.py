#!/usr/bin/env python3
"""prompt for a seeded-change sub-agent: agent_prompt.py <PROP> [<worktree suffix>] [<extra hint>]
The agent gets the property text and its worktree, nothing from /verif."""
import json, sys
pid = sys.argv[1]
wt = sys.argv[2] if len(sys.argv) > 2 else pid
hint = sys.argv[3] if len(sys.argv) > 3 else ""
prop = None
for l in open('/verif/properties.jsonl'):
    d = json.loads(l)
    if d['id'] == pid:
        q = d['quantifier']
        prop = "%s — %s\n\nStatement: %s\n\nQuantifier (%s): %s\n\nWhy the existing tests cannot settle it: %s\n" % (
            d['id'], d['title'], d['statement'], ", ".join(q['over']), q['text'], d['why_tests_cant'])
print(f"""You are testing how robust a behavioural property of a Rust program is to realistic code changes.

Work ONLY inside the git worktree /tmp/wt-{wt} (a checkout of mitnk/cicada, a bash-like interactive Unix shell written in Rust). Do not read or touch /repo or /verif. There is no network: always use `cargo build --offline` / `cargo test --offline`. A pre-built target/ directory is already in the worktree, so builds are incremental.

The property:

{prop}

{hint}Your job: make a SMALL, realistic change to the source (the kind of edit a maintainer could plausibly make during a refactor, an optimisation or a feature tweak - not sabotage that looks absurd) that BREAKS this property, such that:
 1. the crate still compiles (`cargo build --offline`),
 2. the existing unit tests still pass: run `cargo test --offline --lib` and `cargo test --offline --bin cicada` separately (the test `execute::tests::test_run_itself` is flaky only when both run concurrently; run them one after the other) and also `./tests/test_scripts.sh` after building (on the ORIGINAL code that script sometimes dies with status 141 at redirections-001.sh because of a timing race that is already there; if that happens rerun it a few times, or run the remaining scripts by hand the way the script does),
 3. the breakage needs something SPECIFIC to manifest - a particular interleaving or order of events, a fault at a particular point (e.g. a failing pipe()/fork()/open()), a multi-step sequence of operations, an unusual input, or two cooperating sites that each look fine alone - NOT something that ordinary everyday use of the shell would expose at once.

Deliver, inside /tmp/wt-{wt}/seed/ :
 - patch.diff : the output of `git diff` for your change (source files only, not target/ or seed/),
 - demo.sh : an executable demonstration (bash) that uses ./target/debug/cicada (run from the worktree root) and exits 0 when the property holds and non-zero when it is broken; it must FAIL with your change applied and PASS on the original code. If the trigger cannot be driven from a script (e.g. needs fork() to fail), write a small Rust test or explain precisely in README.md how it manifests and give the closest executable demonstration you can,
 - README.md : which clause of the property breaks, what exactly is needed for it to manifest, and what you ran (with results).

Verify everything yourself: build and run demo.sh with the change (must fail), then remove the change with `git diff > seed/patch.diff; git apply -R seed/patch.diff`, rebuild, run demo.sh (must pass), then `git apply seed/patch.diff` and rebuild so the worktree is left WITH the change applied. NEVER use `git stash` (it is shared with other worktrees of the same repository) and never use `pkill`/`killall` by pattern (other people's cicada processes run on this machine): kill only the process ids you started. Keep the change minimal (ideally < 15 changed lines). Report at the end a 5-line summary: files changed, what breaks, what is needed to trigger, test results, demo results.""")
