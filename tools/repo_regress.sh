#!/bin/bash
# Regression gate for fix: commits in /repo (or another tree given as $1):
# baseline suite (nextest), the flaky self-test run alone, and the script tests.
ROOT=${1:-/repo}
cd "$ROOT" || exit 2
export CARGO_NET_OFFLINE=true
cargo nextest run --workspace --no-fail-fast --tool-config-file pb:/w/lib/nextest.toml --profile pb --test-threads 8 --offline 2>&1 | grep -E "Summary|FAIL|PASS.*test_run_itself" | sort -u
echo "--- test_run_itself alone (bin)"
cargo test --offline --bin cicada test_run_itself 2>&1 | grep -E "^test |test result|Check Failed|input:|stdout:|expected:"
echo "--- scripts"
cargo build --offline 2>&1 | grep -E "^error" -A5
./tests/test_scripts.sh 2>/dev/null | grep -c "^OK\." 
./tests/test_scripts.sh 2>/dev/null | grep -E "Failed|^[-+]" | head -20
ls tests/scripts/*.sh | wc -l
