#!/bin/bash
# run the checks against a seeded change: apply to /repo, run, undo straight afterwards.
# usage: seed_check.sh <patch> <PROP> [more props...]
P=$1; shift
cd /repo || exit 2
git diff --quiet || { echo "/repo has local changes"; exit 2; }
git apply "$P" || exit 2
for prop in "$@"; do
  (cd /verif && ./check $prop --json 2>/dev/null | python3 -c "
import json,sys
v=json.load(sys.stdin)
known={k['key'] for k in json.load(open('/verif/known_findings.json')) if k.get('status')=='open'}
new=[x for x in v if x['key'] not in known]
print('$prop', 'DETECTED' if new else 'silent', len(new))
for x in new[:6]: print('   ', x['key'][:160], '|', (x.get('detail') or '')[:120])
")
done
git checkout -- .
git status --short | head -3
