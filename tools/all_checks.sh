#!/bin/bash
# run the quick check of every property; prints one line each and a final verdict (exit 1 when any check alarms)
cd /verif || exit 2
rc=0
for p in C01 C02 C03 C04 C05 C06 C07 C08 C09 C10 C11 C12 C13 C14 C15 C16 C17 C18 C19 C20; do
  out=$(./check $p --tier quick 2>&1); r=$?
  echo "$out" | tail -1
  if [ $r -ne 0 ] || echo "$out" | grep -q "^VIOLATION"; then rc=1; echo "$out" | grep -B1 "^VIOLATION" | grep -v "^--" | cut -c1-240; fi
done
[ $rc -eq 0 ] && echo "ALL 20 OK" || echo "SOME CHECK ALARMS"
exit $rc
