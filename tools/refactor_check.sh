#!/bin/bash
# run ALL checks against a behaviour-preserving change: apply to /repo, run, undo. Any report is a false alarm.
# usage: refactor_check.sh <patch>
P=$1
cd /repo || exit 2
git diff --quiet || { echo "/repo has local changes"; exit 2; }
git apply "$P" || exit 2
for prop in C01 C02 C03 C04 C05 C06 C07 C08 C09 C10 C11 C12 C13 C14 C15 C16 C17 C18 C19 C20; do
  (cd /verif && ./check $prop --json 2>/dev/null | python3 -c "
import json,sys
try:
    v=json.load(sys.stdin)
except Exception as e:
    print('$prop', 'CRASH', e); sys.exit(0)
known={k['key'] for k in json.load(open('/verif/known_findings.json')) if k.get('status')=='open'}
new=[x for x in v if x['key'] not in known]
if new:
    print('$prop', 'FALSE-ALARM', len(new))
    for x in new[:8]: print('   ', x['key'][:170], '|', (x.get('detail') or x.get('what') or '')[:110])
")
done
git checkout -- .
git status --short | head -3
echo "checked $P"
