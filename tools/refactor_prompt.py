#!/usr/bin/env python3
"""prompt for a refactoring sub-agent: refactor_prompt.py <PROP> <worktree suffix>
The agent gets the property text (with its anchors) and its worktree, nothing from /verif."""
import json, sys
pid = sys.argv[1]
wt = sys.argv[2]
for l in open('/verif/properties.jsonl'):
    d = json.loads(l)
    if d['id'] == pid:
        q = d['quantifier']
        anchors = "\n".join("  - %s (%s)" % (m['name'], m['where']) for m in d['anchors']['mechanism'])
        prop = "%s — %s\n\nStatement: %s\n\nWhere the behaviour lives:\n%s\n" % (d['id'], d['title'], d['statement'], anchors)
print(f"""You are a maintainer cleaning up a Rust code base without changing what it does.

Work ONLY inside the git worktree /tmp/wt-{wt} (a checkout of mitnk/cicada, a bash-like interactive Unix shell written in Rust). Do not read or touch /repo or /verif. There is no network: always use `cargo build --offline` / `cargo test --offline`. A pre-built target/ directory is already in the worktree, so builds are incremental.

The behaviour you must PRESERVE exactly:

{prop}

Your job: make a realistic, BEHAVIOUR-PRESERVING refactoring of the code listed above (the functions that implement this behaviour) - the kind of clean-up commit a maintainer makes: e.g. extract one or two helper functions, rename locals / functions, turn a `match` into `if let` (or back), invert a condition and swap its branches, replace a hand-written loop by an iterator chain (or back), hoist a repeated expression into a `let`, split a long function, merge duplicated branches, move a small function to another module, replace a helper call by the equivalent std call, add early returns, change `for i in 0..n` into `iter().enumerate()`, add logging lines, reorder independent statements. Touch 20-80 lines; combine three to six such steps. Do NOT change any behaviour: same outputs, same exit statuses, same system calls in the same order on every path (also on error paths), same treatment of every input. Do not fix bugs you notice, do not add features, do not change regular expressions or grammar files.

Requirements:
 1. the crate compiles (`cargo build --offline`) without new warnings if you can avoid them,
 2. `cargo test --offline --lib` and `cargo test --offline --bin cicada` pass (run them one after the other; `execute::tests::test_run_itself` is flaky only when both run concurrently), and `./tests/test_scripts.sh` passes (rerun once or twice if it dies with status 141 - a race that is already there),
 3. write a script seed/same.sh that runs ./target/debug/cicada (from the worktree root) on 15-30 inputs exercising the behaviour above (normal and unusual ones) and prints their outputs and statuses; run it on the ORIGINAL code first (`git stash` is FORBIDDEN - it is shared between worktrees; instead save your diff with `git diff > seed/patch.diff`, `git apply -R seed/patch.diff`, rebuild, run, then `git apply seed/patch.diff` and rebuild) and check that the output is byte-identical with and without your change.

Deliver inside /tmp/wt-{wt}/seed/ : patch.diff (output of `git diff`, source files only), same.sh, before.txt and after.txt (its two outputs, identical), README.md (the list of refactoring steps you applied, one line each). Leave the worktree WITH the change applied. Never use `pkill`/`killall` by pattern: kill only process ids you started. Report at the end: files changed, the refactoring steps, test results, and whether before.txt and after.txt are identical.""")
