#!/usr/bin/env python3
"""Generate /verif/MANIFEST.json from the per-property table below.  A property is claimed only
when its rule module exists under sa/rules/; the others are listed under not_applicable with the
reason recorded here."""
import json
import os

VERIF = os.path.dirname(os.path.dirname(os.path.abspath(__file__)))

import sys
sys.path.insert(0, os.path.dirname(os.path.abspath(__file__)))
from claims import CLAIMS  # noqa: E402

PENDING_REASON = "check not built yet in this revision (planned, see DESIGN.md section 9)"


def main():
    checks = []
    na = []
    props = [json.loads(l) for l in open(os.path.join(VERIF, "properties.jsonl"))]
    for p in props:
        pid = p["id"]
        c = CLAIMS.get(pid)
        have = os.path.exists(os.path.join(VERIF, "sa", "rules", pid.lower() + ".py"))
        if c is None or not have:
            na.append({"property_id": pid, "reason": PENDING_REASON})
            continue
        checks.append({
            "property_id": pid,
            "quick_cmd": "./check %s --tier quick" % pid,
            "thorough_cmd": "./check %s --tier thorough" % pid,
            "evidence_file": "/verif/evidence/%s.json" % pid,
            "replay_cmd_template": "./check %s --replay {path}" % pid,
            "engine": "mirfacts+sa",
            "level_claimed": {"category": "other", "text": c["text"], "design_ref": "DESIGN.md section " + c["ref"]},
            "level_note": c["note"],
            "technique": c["technique"],
        })
    man = {
        "version": 1,
        "setup_cmd": "./setup.sh",
        "hooks": {
            "guard": "cicada_verif",
            "enable": "none needed: the analysis reads the unmodified crate through a compiler wrapper "
                      "(RUSTC_WORKSPACE_WRAPPER=driver/target/release/mirfacts cargo +nightly check)",
            "baseline_off_cmd": "cd /repo && cargo nextest run --workspace --no-fail-fast --tool-config-file "
                                "pb:/w/lib/nextest.toml --profile pb --test-threads 8 --offline || "
                                "cargo test --workspace --no-fail-fast --offline",
            "source_commits": [],
            "add_only": True,
        },
        "engines": [
            {"name": "mirfacts", "path": "driver/", "serves_properties": [c["property_id"] for c in checks],
             "kind_free_text": "rustc_private compiler wrapper dumping type-checked MIR facts (resolved callees, constants, spans) as JSON"},
            {"name": "sa", "path": "sa/", "serves_properties": [c["property_id"] for c in checks],
             "kind_free_text": "Python static-analysis core (CFG, dominators, expression rebuild, path facts, must-call, typestate, taint, "
                               "splicing of newly extracted helpers and Option/Result combinators before analysis) and per-property rules"},
        ],
        "checks": checks,
        "not_applicable": na,
        "notes": "Static analysis only: no check runs cicada or its tests. Known genuine defects are in "
                 "known_findings.json (open = reported as KNOWN-FINDING, fixed = repaired by a fix: commit in /repo). "
                 "The thorough tier re-runs the property's rules on scratch copies of /repo with each corpus entry applied "
                 "(selftest/mutants, seeded/: must be reported; selftest/refactors, refactored/: must stay silent) and records "
                 "the outcome in the evidence file; corpus outcomes never change a check's exit code.",
    }
    with open(os.path.join(VERIF, "MANIFEST.json"), "w") as fh:
        json.dump(man, fh, indent=1)
    print("MANIFEST.json: %d checks, %d not_applicable" % (len(checks), len(na)))


if __name__ == "__main__":
    main()
