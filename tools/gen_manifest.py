#!/usr/bin/env python3
"""Generate /verif/MANIFEST.json from the per-property table below.  A property is claimed only
when its rule module exists under sa/rules/; the others are listed under not_applicable with the
reason recorded here."""
import json
import os

VERIF = os.path.dirname(os.path.dirname(os.path.abspath(__file__)))

CLAIMS = {
    "C01": dict(
        technique="static analysis: guard-dominance / path-fact rule over MIR (quote-tag discipline) + value-flow of execve argv",
        text="Decides, for all CFG paths of the planning pipeline in both crates, that every effect depending on a "
             "positive inspection of token text for shell syntax is controlled by a test of the same token's quote "
             "tag, and that execve's argv is a lossless map of the token texts. A necessary condition of the "
             "property (an unguarded site makes a quoted operator act); the tokenizer's tag assignment for "
             "arbitrary input is not decided.",
        note="trusted: rustc MIR + callee resolution; inspector class table in sa/etag.py; tokenizer state machine not covered",
        ref="4/C01"),
    "C02": dict(
        technique="static analysis: must-call with guard-kill over Child/Parent regions of fork, loop-shape and value-flow rules",
        text="Decides on all paths of run_pipeline / run_single_program / wait_fg_job the descriptor wiring and "
             "staggered parent closes that EOF propagation needs, the wait obligation, and that the reported status "
             "is the last pid's. Byte delivery and scheduling are not decided.",
        note="trusted: MIR, libc/nix semantics; counting lemma for vector-held pipes (DESIGN 3, E-FD)",
        ref="4/C02"),
    "C03": dict(
        technique="static analysis: loop-exit shape, truth table of path conditions, backward value-flow slices",
        text="Decides that the list loop exits only on iterator exhaustion, that run/skip equals the short-circuit "
             "truth table over (sep, status), and the status plumbing into $?, -c and script exit codes, on all paths.",
        note="trusted: MIR; line_to_cmds' splitting of arbitrary text is not decided",
        ref="4/C03"),
    "C04": dict(
        technique="static analysis: call-set and who-may-call rules, region (post-fork Child) membership, error-path must-reach",
        text="Decides truncate/append call sets, descriptor targets of the child-side redirect loop, forward iteration, "
             "that every dup2 is in the Child region, and that open failures reach a non-zero exit / are not dropped.",
        note="trusted: MIR, std::fs::OpenOptions semantics; redirection spelling regexes not decided",
        ref="4/C04"),
    "C05": dict(
        technique="static analysis: panic-site inventory with discharge rules over MIR asserts/panicking calls; loop variant (stutter) rule",
        text="Every panic-capable site reachable from the parsing/expansion/planning entry points is discharged by a "
             "dominating guard, a regex-literal fact, or an audited table entry; every non-iterator loop has a "
             "machine-checked progress argument. Undischarged site = crash on the input that reaches it.",
        note="trusted: regex/pest/glob/lineread/std internals; audited table in sa/rules/c05.py",
        ref="4/C05"),
    "C06": dict(
        technique="static analysis: API-precondition (sortedness) rule, event-routing table agreement, signal-mask typestate over the call graph",
        text="Decides structural necessary conditions of job tracking: no binary_search on launch-ordered pids, the "
             "four child-event kinds are parked in matching maps by both reapers and all drained, id allocation shape. "
             "Interleaving semantics are not decided.",
        note="trusted: MIR, nix WaitStatus; model-level interleavings out of reach of path rules",
        ref="4/C06"),
    "C07": dict(
        technique="static analysis: must-call pairing on flagged edges, guard dominance, region rules",
        text="Decides that every site that may hand the terminal to a job gives it back on all paths, that the hand-over "
             "is guarded by (has_terminal, isatty, not background), setpgid precedes exec in the child, and the "
             "signal-mask bracket inside give_terminal_to.",
        note="trusted: MIR, libc; real process groups / signal delivery not decided",
        ref="4/C07"),
    "C08": dict(
        technique="static analysis: descriptor ownership typestate at every return / exec, must-call obligations with guard-kill",
        text="Decides on all return paths (including pipe()/fork failure paths no test drives) that every raw descriptor "
             "created is released or handed over, in the shell and before exec in the child.",
        note="trusted: MIR, close-on-exec facts for std::fs opens vs pipe/dup; counting lemma for staggered closes",
        ref="4/C08"),
    "C09": dict(
        technique="static analysis: guard dominance, who-may-call and value-flow rules",
        text="Decides that cd's state writes are dominated by a successful chdir, per-command assignments touch the "
             "shell only when no command follows, execve's envp merges both sources, and the set/unset/export API "
             "call sets.",
        note="trusted: MIR, std::env semantics; histories over models not decided",
        ref="4/C09"),
    "C10": dict(
        technique="static analysis: rescan taint (value fed back into its own scanner), tag-guard rule, value-flow",
        text="Decides that an expanded value cannot flow back into the pass's scanner (necessary for single "
             "substitution and termination), that quoted tokens are skipped, and the $?/$$ sources.",
        note="trusted: MIR; regex exactness on adjacent text not decided",
        ref="4/C10"),
    "C11": dict(
        technique="static analysis: taint (command output into regex replacement template / rescan), stutter rule, constant-argument rule",
        text="Decides that captured output cannot reach a replacement template unescaped or be rescanned for $(, that "
             "the substitution loop cannot stutter, capture=true at the three sites, and trailing-newline-only trimming.",
        note="trusted: MIR, regex replacement-template semantics",
        ref="4/C11"),
    "C12": dict(
        technique="static analysis: tag-guard rule, tag-expression control dependence, edit-order (Rev) rule, template taint",
        text="Decides three structural clauses: no expansion of tagged tokens, produced words with spaces get a quote "
             "tag, pending edits are applied in descending index order. Produced word lists are not decided.",
        note="trusted: MIR; value-level results (cartesian order, sequences, glob matches) out of reach",
        ref="4/C12"),
    "C13": dict(
        technique="static analysis: pass summaries (source class x tag expression) against recogniser guards (E-RETAG)",
        text="Decides whether any expansion pass can leave externally-derived text in a token whose tag lets an "
             "operator recogniser accept it; recognisers honour the tag; list splitting precedes expansion.",
        note="trusted: MIR; source classification table in sa/rules/c13.py",
        ref="4/C13"),
    "C14": dict(
        technique="static analysis: PEG grammar facts (pest_meta AST) vs interpreter tables, flag-propagation rules",
        text="Decides that the top rule is anchored at end of input, that each walker's rule set covers the grammar's "
             "child sets, and the break/continue/first-true-branch propagation shape.",
        note="trusted: pest semantics, MIR; equivalence with a reference interpreter not decided",
        ref="4/C14"),
    "C15": dict(
        technique="static analysis: backward value-flow table, constant and region rules",
        text="Decides status plumbing for functions/source/scripts/exit, positional base index, exit_on_error test "
             "after every command, and that source/functions run in the shell process (not in a Child region).",
        note="trusted: MIR",
        ref="4/C15"),
    "C16": dict(
        technique="static analysis: call-graph funnel rule, tokenizer-specials vs renderer escape-set table agreement",
        text="Decides that all entry points reach execution only through run_command_line and that the script path's "
             "token renderer re-escapes every character the tokenizer treats specially (necessary for idempotent "
             "re-tokenizing).",
        note="trusted: MIR; special-character table S justified in DESIGN 4/C16",
        ref="4/C16"),
    "C17": dict(
        technique="static analysis: guard discipline on the head-of-stage flag, rescan rule, API call-set",
        text="Decides that alias lookup happens only at head-of-stage positions, the flag is cleared on every path that "
             "consumes a word, replaced tokens are not looked up again, unalias removes by exact key.",
        note="trusted: MIR",
        ref="4/C17"),
    "C18": dict(
        technique="static analysis: SQL taint (format! into Connection::execute/prepare) with explicit sanitizers, guard rule",
        text="Decides that no user-controlled text reaches SQL text unless quote-doubled inside quotes or bound as a "
             "parameter, and the recording guard (leading space / immediate repeat) in main.",
        note="trusted: MIR, rusqlite API; durability across processes not decided",
        ref="4/C18"),
    "C19": dict(
        technique="static analysis: Pratt-table extraction, grammar/evaluator table agreement, panic-site rule",
        text="Decides the operator precedence/associativity table, symbol-rule-operator agreement of both evaluators, "
             "mode selection, and that no evaluator site can panic.",
        note="trusted: pest PrattParser semantics; numeric results not decided",
        ref="4/C19"),
    "C20": dict(
        technique="static analysis: escape-class (regex literal) vs tokenizer/expansion specials table agreement, structural filter rules",
        text="Decides that the completion escaper's class covers the characters the tokenizer and expansion passes act "
             "on, and the candidate filter shape (prefix match, directories only after cd, sorted).",
        note="trusted: regex-syntax class parsing; pty round trip not decided",
        ref="4/C20"),
}

PENDING_REASON = "check not built yet in this revision (planned, see DESIGN.md section 9)"


def main():
    checks = []
    na = []
    props = [json.loads(l) for l in open(os.path.join(VERIF, "properties.jsonl"))]
    for p in props:
        pid = p["id"]
        c = CLAIMS.get(pid)
        have = os.path.exists(os.path.join(VERIF, "sa", "rules", pid.lower() + ".py"))
        if c is None or not have:
            na.append({"property_id": pid, "reason": PENDING_REASON})
            continue
        checks.append({
            "property_id": pid,
            "quick_cmd": "./check %s --tier quick" % pid,
            "thorough_cmd": "./check %s --tier thorough" % pid,
            "evidence_file": "/verif/evidence/%s.json" % pid,
            "replay_cmd_template": "./check %s --replay {path}" % pid,
            "engine": "mirfacts+sa",
            "level_claimed": {"category": "other", "text": c["text"], "design_ref": "DESIGN.md section " + c["ref"]},
            "level_note": c["note"],
            "technique": c["technique"],
        })
    man = {
        "version": 1,
        "setup_cmd": "./setup.sh",
        "hooks": {
            "guard": "cicada_verif",
            "enable": "none needed: the analysis reads the unmodified crate through a compiler wrapper "
                      "(RUSTC_WORKSPACE_WRAPPER=driver/target/release/mirfacts cargo +nightly check)",
            "baseline_off_cmd": "cd /repo && cargo nextest run --workspace --no-fail-fast --tool-config-file "
                                "pb:/w/lib/nextest.toml --profile pb --test-threads 8 --offline || "
                                "cargo test --workspace --no-fail-fast --offline",
            "source_commits": [],
            "add_only": True,
        },
        "engines": [
            {"name": "mirfacts", "path": "driver/", "serves_properties": [c["property_id"] for c in checks],
             "kind_free_text": "rustc_private compiler wrapper dumping type-checked MIR facts (resolved callees, constants, spans) as JSON"},
            {"name": "sa", "path": "sa/", "serves_properties": [c["property_id"] for c in checks],
             "kind_free_text": "Python static-analysis core (CFG, dominators, expression rebuild, path facts, must-call, typestate, taint) and per-property rules"},
        ],
        "checks": checks,
        "not_applicable": na,
        "notes": "Static analysis only: no check runs cicada or its tests. Known genuine defects are in "
                 "known_findings.json (open = reported as KNOWN-FINDING, fixed = repaired by a fix: commit in /repo).",
    }
    with open(os.path.join(VERIF, "MANIFEST.json"), "w") as fh:
        json.dump(man, fh, indent=1)
    print("MANIFEST.json: %d checks, %d not_applicable" % (len(checks), len(na)))


if __name__ == "__main__":
    main()
