#!/usr/bin/env python3
import json, sys, glob
import jsonschema
m=json.load(open('/verif/MANIFEST.json')); s=json.load(open('/root/.vp/MANIFEST.schema.json'))
jsonschema.validate(m,s); print('manifest ok', len(m['checks']), 'checks')
es=json.load(open('/root/.vp/EVIDENCE.schema.json'))
for c in m['checks']:
    p=c['evidence_file']
    try:
        jsonschema.validate(json.load(open(p)),es); print(p,'ok')
    except Exception as e:
        print(p,'INVALID', str(e)[:300])
