#!/bin/bash
# verify a seeded change in its scratch worktree: compiles, existing tests pass, demo fails with / passes without.
# usage: verify_seed.sh /tmp/wt-CXX
WT=$1
cd "$WT" || exit 2
export CARGO_NET_OFFLINE=true
P=seed/patch.diff
[ -s $P ] || { echo "no patch"; exit 2; }
echo "== files in patch:"; grep '^+++ ' $P
git checkout -q -- src 2>/dev/null
git apply --check $P || { echo "patch does not apply to clean tree"; exit 2; }
git apply $P
echo "== build with change"; cargo build --offline 2>&1 | grep -E "^error|warning: unused" -A5 | head -20
echo "== lib tests"; cargo test --offline --lib 2>&1 | grep -E "^test result|FAILED|failed" | head -5
echo "== bin tests"; cargo test --offline --bin cicada 2>&1 | grep -E "^test result|FAILED|failed" | head -5
echo "== script tests"; ./tests/test_scripts.sh > /tmp/ts.$$ 2>&1; echo "rc=$? ok=$(grep -c '^OK' /tmp/ts.$$)"; rm -f /tmp/ts.$$
echo "== demo WITH change"; timeout 120 bash seed/demo.sh > /tmp/demo.$$ 2>&1; echo "rc=$?"; tail -5 /tmp/demo.$$
git apply -R $P
cargo build --offline 2>&1 | grep -E "^error" -A5 | head
echo "== demo WITHOUT change"; timeout 120 bash seed/demo.sh > /tmp/demo.$$ 2>&1; echo "rc=$?"; tail -3 /tmp/demo.$$; rm -f /tmp/demo.$$
git status --short | grep -v seed | head
