#!/usr/bin/env python3
"""keep a confirmed behaviour-preserving change: refactored/<id>/{patch.diff, README.md, same.sh, meta.json}
usage: keep_refactor.py <id> <worktree> <property the agent was given> <alarms it raised before the checker was corrected>"""
import json, os, shutil, sys
rid, wt, prop = sys.argv[1:4]
raised = sys.argv[4] if len(sys.argv) > 4 else ""
V = os.path.dirname(os.path.dirname(os.path.abspath(__file__)))
d = os.path.join(V, "refactored", rid)
os.makedirs(d, exist_ok=True)
for f in ("patch.diff", "README.md", "same.sh"):
    src = os.path.join(wt, "seed", f)
    if os.path.exists(src):
        shutil.copy(src, os.path.join(d, f))
meta = {
    "id": rid, "property": prop,
    "origin": "independent sub-agent given only the property text and a scratch worktree, asked for refactorings a maintainer "
              "might do in the code behind the property without changing behaviour",
    "confirmed": "tools/verify_refactor.sh: builds; cargo test --lib and --bin pass; tests/test_scripts.sh 9/9; same.sh prints the "
                 "same with and without the change",
    "expect": "silent: all 20 checks report nothing new (tools/refactor_check.sh; corpus entry for every property)",
    "false_alarms_before_correction": [x for x in raised.split(";") if x],
}
json.dump(meta, open(os.path.join(d, "meta.json"), "w"), indent=1)
print("kept", d)
