"""Fact extraction: run the mirfacts compiler wrapper over a source tree and
load the JSON facts.  Facts are cached by a hash of the tree's sources so a
verdict always concerns the tree as it is now."""
import fcntl
import hashlib
import json
import os
import shutil
import subprocess
import sys
import time
import uuid

VERIF = os.path.dirname(os.path.dirname(os.path.abspath(__file__)))
CACHE = os.environ.get("VERIF_CACHE") or os.path.join(VERIF, ".cache")
DRIVER = os.path.join(VERIF, "driver", "target", "release", "mirfacts")
REPO = os.environ.get("VERIF_REPO", "/repo")


def _nightly_sysroot():
    out = subprocess.run(["rustc", "+nightly", "--print", "sysroot"],
                         capture_output=True, text=True, check=True)
    return out.stdout.strip()


def tree_hash(root):
    h = hashlib.sha256()
    files = []
    for base in ("src",):
        for dp, dn, fn in os.walk(os.path.join(root, base)):
            dn.sort()
            for f in sorted(fn):
                files.append(os.path.join(dp, f))
    for f in ("Cargo.toml", "Cargo.lock"):
        files.append(os.path.join(root, f))
    for f in files:
        rel = os.path.relpath(f, root)
        h.update(rel.encode())
        h.update(b"\0")
        try:
            with open(f, "rb") as fh:
                h.update(fh.read())
        except OSError:
            h.update(b"<missing>")
        h.update(b"\0")
    # the driver binary is part of the key: new driver, new facts
    try:
        st = os.stat(DRIVER)
        h.update(("%d:%d" % (st.st_size, int(st.st_mtime))).encode())
    except OSError:
        pass
    return h.hexdigest()[:24]


def ensure_driver():
    if os.path.exists(DRIVER):
        return
    env = dict(os.environ)
    env["CARGO_NET_OFFLINE"] = "true"
    r = subprocess.run(["cargo", "build", "--release", "--offline"],
                       cwd=os.path.join(VERIF, "driver"), env=env,
                       capture_output=True, text=True)
    if r.returncode != 0 or not os.path.exists(DRIVER):
        sys.stderr.write(r.stderr[-4000:])
        raise RuntimeError("cannot build the mirfacts driver")


class ExtractError(Exception):
    pass


def extract(root=None, quiet=True):
    """Return {'lib': facts, 'bin': facts, 'hash': h, 'cached': bool, 'secs': t}."""
    root = root or REPO
    os.makedirs(CACHE, exist_ok=True)
    ensure_driver()
    t0 = time.time()
    lockf = open(os.path.join(CACHE, "lock"), "w")
    fcntl.flock(lockf, fcntl.LOCK_EX)
    try:
        h = tree_hash(root)
        fdir = os.path.join(CACHE, "facts", h)
        ok = all(os.path.exists(os.path.join(fdir, "facts.%s.json" % k)) for k in ("lib", "bin"))
        cached = ok
        if not ok:
            if os.path.isdir(fdir):
                shutil.rmtree(fdir)
            os.makedirs(fdir)
            _run_wrapper(root, fdir)
            # keep the cache small: drop older entries
            _prune(os.path.join(CACHE, "facts"), keep=6, always=h)
        out = {"hash": h, "cached": cached}
        for k in ("lib", "bin"):
            with open(os.path.join(fdir, "facts.%s.json" % k)) as fh:
                out[k] = json.load(fh)
        out["secs"] = time.time() - t0
        out["root"] = root
        return out
    finally:
        fcntl.flock(lockf, fcntl.LOCK_UN)
        lockf.close()


def _prune(d, keep, always):
    ents = []
    for n in os.listdir(d):
        p = os.path.join(d, n)
        if n == always or not os.path.isdir(p):
            continue
        ents.append((os.path.getmtime(p), p))
    ents.sort(reverse=True)
    for _, p in ents[keep:]:
        shutil.rmtree(p, ignore_errors=True)


def _run_wrapper(root, fdir):
    target = os.path.join(CACHE, "target")
    os.makedirs(target, exist_ok=True)
    # cargo's freshness cache would skip the wrapper: forget the cicada units
    fp = os.path.join(target, "debug", ".fingerprint")
    if os.path.isdir(fp):
        for n in os.listdir(fp):
            if n.startswith("cicada-"):
                shutil.rmtree(os.path.join(fp, n), ignore_errors=True)
    nonce = uuid.uuid4().hex
    env = dict(os.environ)
    env.update({
        "CARGO_NET_OFFLINE": "true",
        "LD_LIBRARY_PATH": os.path.join(_nightly_sysroot(), "lib"),
        "RUSTFLAGS": "-Zmir-opt-level=0 -Awarnings",
        "RUSTC_WORKSPACE_WRAPPER": DRIVER,
        "CARGO_TARGET_DIR": target,
        "MIRFACTS_OUT": fdir,
        "MIRFACTS_NONCE": nonce,
        "MIRFACTS_CRATE": "cicada",
    })
    env.pop("RUSTC_WRAPPER", None)
    r = subprocess.run(["cargo", "+nightly", "check", "--offline", "--lib", "--bin", "cicada"],
                       cwd=root, env=env, capture_output=True, text=True)
    if r.returncode != 0:
        shutil.rmtree(fdir, ignore_errors=True)
        raise ExtractError("cargo check failed on %s:\n%s" % (root, r.stderr[-6000:]))
    for k in ("lib", "bin"):
        p = os.path.join(fdir, "facts.%s.json" % k)
        if not os.path.exists(p):
            shutil.rmtree(fdir, ignore_errors=True)
            raise ExtractError("wrapper did not produce %s (stderr: %s)" % (p, r.stderr[-2000:]))
        with open(p) as fh:
            head = fh.read(400)
        if nonce not in head:
            shutil.rmtree(fdir, ignore_errors=True)
            raise ExtractError("stale facts file %s (nonce mismatch)" % p)


if __name__ == "__main__":
    f = extract(sys.argv[1] if len(sys.argv) > 1 else None)
    print(f["hash"], f["cached"], "%.1fs" % f["secs"],
          len(f["lib"]["bodies"]), len(f["bin"]["bodies"]))
