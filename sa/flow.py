"""Value-flow helpers: backward slices over expression trees and variable
definitions, must-pass-through, region helpers."""
from . import mir
from .mir import last_seg, subexprs


def var_def_exprs(body, l):
    """all expressions assigned to local l (full assignments) plus values stored into its fields /
    pushed into it (weak update: a container is one abstract cell)."""
    out = []
    for bi, si in body.defs.get(l, []):
        out.append(("def", body.def_expr(bi, si), bi))
    for bi, si in body.defs.get(("partial", l), []):
        out.append(("partial", body.def_expr(bi, si), bi))
    return out


MUTATORS = {"push", "push_str", "insert", "extend", "append", "push_back", "extend_from_slice", "insert_str",
            "write_all", "write", "read_to_string", "read_line", "set_len"}


def container_inputs(body, l):
    """values fed into local l through mutating method calls: v.push(x), s.push_str(x), map.insert(k, v)..."""
    out = []
    for bb, t, callee in body.calls():
        ls = last_seg(callee)
        if ls in MUTATORS:
            args = body.call_args(bb)
            if not args:
                continue
            recv = root_local(args[0])
            if ls in ("read_to_string", "read_line"):
                # f.read_to_string(&mut s): the receiver feeds the buffer argument
                if len(args) > 1 and root_local(args[1]) == l:
                    out.append((args[0], bb))
                continue
            if recv == l:
                for a in args[1:]:
                    out.append((a, bb))
    return out


def root_local(e):
    """the variable/param at the root of a place-like expression"""
    while True:
        if e[0] in ("var", "param", "tmp"):
            return e[1]
        if e[0] in ("field", "downcast"):
            e = e[2]
        elif e[0] == "index":
            e = e[1]
        elif e[0] == "call" and e[2] and any(mir.short(e[1]).endswith(s) for s in mir.IDENTITY_CALLS):
            e = e[2][0]
        elif e[0] == "cast":
            e = e[2]
        else:
            return None


def backward(body, e, pred, depth=0, seen=None, through_containers=True, stop=None):
    """does any value e derives from satisfy pred(subexpr)?  Follows variables to all their
    definitions (and, for containers, everything pushed into them).  stop(subexpr) -> True cuts
    the search below that node (a sanitizer).  Returns the first matching subexpression or None."""
    seen = seen if seen is not None else set()
    if depth > 60:
        return None
    stack = [e]
    while stack:
        x = stack.pop()
        if not isinstance(x, tuple) or not x:
            continue
        if stop is not None and stop(x):
            continue
        if pred(x):
            return x
        k = x[0]
        if k in ("var", "tmp", "param"):
            l = x[1]
            if l in seen:
                continue
            seen.add(l)
            for kind, de, bi in var_def_exprs(body, l):
                r = backward(body, de, pred, depth + 1, seen, through_containers, stop)
                if r is not None:
                    return r
            if through_containers:
                for a, bb in container_inputs(body, l):
                    r = backward(body, a, pred, depth + 1, seen, through_containers, stop)
                    if r is not None:
                        return r
            continue
        if k == "const":
            continue
        for y in x[1:]:
            if isinstance(y, tuple):
                if y and isinstance(y[0], str):
                    stack.append(y)
                else:
                    for z in y:
                        if isinstance(z, tuple):
                            stack.append(z)
    return None


def is_call_to(e, *names):
    return e[0] == "call" and last_seg(e[1]) in names


def is_field_named(e, name):
    return e[0] == "field" and mir.field_name(e) == name


def blocks_between(body, start, stop_blocks, within=None):
    """blocks reachable from start without entering stop_blocks (start included)"""
    seen = set()
    st = [start]
    while st:
        x = st.pop()
        if x in seen or x in stop_blocks:
            continue
        if within is not None and x not in within:
            continue
        seen.add(x)
        st.extend(body.succs[x])
    return seen


def must_pass(body, src, through, targets, within=None):
    """every path from block src to any block in targets passes through a block in `through`?
    (src itself counts if it is in through)"""
    if src in through:
        return True
    seen = set()
    st = [src]
    while st:
        x = st.pop()
        if x in seen:
            continue
        seen.add(x)
        for s in body.succs[x]:
            if s in through:
                continue
            if within is not None and s not in within and s not in targets:
                continue
            if s in targets:
                return False
            st.append(s)
    return True


def edge_dominated(body, src, tgt):
    from .etag import edge_dominated as ed
    return ed(body, src, tgt)


def find_calls(body, *lasts, contains=None):
    out = []
    for bb, t, callee in body.calls():
        if last_seg(callee) in lasts and (contains is None or contains in callee):
            out.append(bb)
    return out


def assignments_to_field(body, field_name):
    """(bb, si, rhs_expr) for statements assigning to a place whose last projection is the named field"""
    out = []
    for bi, si, s in body.stmts():
        if s["k"] != "assign":
            continue
        p = s["place"]["p"]
        if p and isinstance(p[-1], dict) and p[-1].get("name") == field_name:
            out.append((bi, si, body.rvalue_expr(s["rv"])))
    return out


def region_of_match_arm(body, scrut_pred, variant):
    """blocks dominated by the edge of a discriminant switch on an expression satisfying
    scrut_pred(expr) taking `variant`.  Returns list of sets (one per matching switch)."""
    out = []
    for bb in sorted(body.reachable):
        for tgt, atom, val in body.switch_edges(bb):
            if atom[0] == "discr" and val == variant and scrut_pred(atom[1]):
                out.append(((bb, tgt), edge_dominated(body, bb, tgt)))
    return out


def const_alternatives(body, e):
    """the string literals an expression can denote: [lit] for a constant, the literals of every definition for a
    local assigned in several places (`let p = if .. { "a" } else { "b" }`), None when some definition is not a literal"""
    from .mir import const_str, strip_sites, peel
    v = const_str(body.expand_vars(strip_sites(e)))
    if v is not None:
        return [v]
    r = peel(strip_sites(e))
    seen = set()
    out = []
    todo = [r]
    while todo:
        x = peel(todo.pop())
        if x[0] not in ("var", "tmp") or x[1] in seen:
            cs = const_str(body.expand_vars(x))
            if cs is None:
                return None
            out.append(cs)
            continue
        seen.add(x[1])
        defs = body.defs.get(x[1], [])
        if not defs:
            return None
        for bi, si in defs:
            stmts = body.blocks[bi]["stmts"]
            if not (isinstance(si, int) and 0 <= si < len(stmts) and stmts[si]["k"] == "assign"):
                return None
            rv = stmts[si]["rv"]
            if rv.get("k") == "use":
                o = rv["op"].get("copy") or rv["op"].get("move")
                if o is not None and not o["p"]:
                    todo.append(("var", o["l"], None))
                    continue
            cs = const_str(strip_sites(body.rvalue_expr(rv)))
            if cs is None:
                return None
            out.append(cs)
    return sorted(set(out)) or None
