"""Self-validation of the checker (thorough tier, and `python3 -m sa.selftest` for development).

selftest/mutants/<PROP>-<name>.patch    must be reported by <PROP>'s rules (header `# expect: <substring of key>`)
selftest/refactors/<name>.patch         behaviour-preserving edits: every listed property must stay silent
                                        (header `# props: C01,C05,...`)
seeded/<id>/patch.diff                  changes written by independent sub-agents (meta.json names the property)
refactored/<id>/patch.diff              behaviour-preserving changes written by independent sub-agents: EVERY property
                                        must stay silent

Each patch is applied to a scratch copy of /repo outside /repo and /verif, facts are extracted from
that copy, the rules run on it, and the copy is removed.  Results never affect a check's exit code:
the exit code speaks about /repo's current tree only."""
import json
import os
import shutil
import subprocess
import sys
import tempfile
import time

VERIF = os.path.dirname(os.path.dirname(os.path.abspath(__file__)))
sys.path.insert(0, VERIF)

from sa import facts as factsmod  # noqa: E402

REPO = factsmod.REPO


def make_scratch(patch_path):
    d = tempfile.mkdtemp(prefix="verif-scratch-", dir=os.environ.get("VERIF_SCRATCH", "/tmp"))
    try:
        shutil.copytree(os.path.join(REPO, "src"), os.path.join(d, "src"))
        for f in ("Cargo.toml", "Cargo.lock"):
            shutil.copy(os.path.join(REPO, f), os.path.join(d, f))
        r = subprocess.run(["patch", "-p1", "--no-backup-if-mismatch", "-s", "-i", patch_path], cwd=d,
                           capture_output=True, text=True)
        if r.returncode != 0:
            shutil.rmtree(d, ignore_errors=True)
            return None, "patch does not apply: " + (r.stdout + r.stderr)[-300:]
        return d, ""
    except Exception as e:  # pragma: no cover
        shutil.rmtree(d, ignore_errors=True)
        return None, str(e)


def read_header(patch_path):
    h = {}
    with open(patch_path) as fh:
        for line in fh:
            if not line.startswith("#"):
                break
            if ":" in line:
                k, v = line[1:].split(":", 1)
                h[k.strip()] = v.strip()
    return h


def violations_on(root, prop):
    from sa import run as runmod
    ctx, f = runmod.run_property(prop, "quick", root)
    known = {k["key"] for k in runmod.load_known() if k.get("property") == prop and k.get("status") == "open"}
    return {k: v for k, v in ctx.violations.items() if k not in known}


def check_patch(patch_path, prop, expect=None, silent=False):
    t0 = time.time()
    d, err = make_scratch(patch_path)
    name = os.path.basename(patch_path)
    if d is None:
        return {"patch": name, "property": prop, "status": "skipped", "why": err}
    try:
        try:
            v = violations_on(d, prop)
        except factsmod.ExtractError as e:
            return {"patch": name, "property": prop, "status": "skipped", "why": "does not compile: " + str(e)[-200:]}
        keys = sorted(v)
        if silent:
            st = "ok" if not keys else "FALSE-ALARM"
        else:
            hit = [k for k in keys if (expect is None or expect in k)]
            st = "ok" if hit else "MISSED"
        return {"patch": name, "property": prop, "status": st, "reported": keys[:6],
                "secs": round(time.time() - t0, 1)}
    finally:
        shutil.rmtree(d, ignore_errors=True)


def patches_for(prop):
    out = []
    md = os.path.join(VERIF, "selftest", "mutants")
    if os.path.isdir(md):
        for n in sorted(os.listdir(md)):
            if n.startswith(prop + "-") and n.endswith(".patch"):
                p = os.path.join(md, n)
                out.append((p, read_header(p).get("expect"), False))
    rd = os.path.join(VERIF, "selftest", "refactors")
    if os.path.isdir(rd):
        for n in sorted(os.listdir(rd)):
            if n.endswith(".patch"):
                p = os.path.join(rd, n)
                props = [x.strip() for x in read_header(p).get("props", "").split(",") if x.strip()]
                if prop in props:
                    out.append((p, None, True))
    fd = os.path.join(VERIF, "refactored")
    if os.path.isdir(fd):
        for n in sorted(os.listdir(fd)):
            pp = os.path.join(fd, n, "patch.diff")
            if os.path.exists(pp):
                out.append((pp, None, True))        # behaviour-preserving: every property stays silent
    sd = os.path.join(VERIF, "seeded")
    if os.path.isdir(sd):
        for n in sorted(os.listdir(sd)):
            mp = os.path.join(sd, n, "meta.json")
            pp = os.path.join(sd, n, "patch.diff")
            if os.path.exists(mp) and os.path.exists(pp):
                try:
                    meta = json.load(open(mp))
                except ValueError:
                    continue
                if meta.get("property") == prop and meta.get("expect_detected", True):
                    out.append((pp, meta.get("expect_key"), False))
    return out


def run_for(prop, ctx=None):
    """thorough tier: returns extra coverage keys.  The corpus entries of the property are evaluated by a small pool of
    workers (each with its own fact cache / cargo target directory); VERIF_SELFTEST_JOBS=1 forces the sequential form."""
    jobs = [(p, prop, expect, silent) for p, expect, silent in patches_for(prop)]
    try:
        nw = int(os.environ.get("VERIF_SELFTEST_JOBS", "0")) or max(1, min(6, (os.cpu_count() or 2) // 2))
    except ValueError:
        nw = 1
    res = []
    if nw > 1 and len(jobs) > 2:
        import multiprocessing
        base = factsmod.CACHE

        def init(counter):
            with counter.get_lock():
                counter.value += 1
                me = counter.value
            d = base + "-w%d" % me
            if not os.path.isdir(os.path.join(d, "target")):
                os.makedirs(d, exist_ok=True)
                if os.path.isdir(os.path.join(base, "target")):
                    subprocess.run(["cp", "-r", os.path.join(base, "target"), os.path.join(d, "target")])
            factsmod.CACHE = d
        counter = multiprocessing.Value("i", 0)
        try:
            with multiprocessing.Pool(nw, initializer=init, initargs=(counter,)) as pool:
                for r in pool.imap(_worker, jobs):
                    r["patch"] = r.pop("label", r["patch"])
                    res.append(r)
        finally:
            factsmod.CACHE = base
    else:
        for p, prop_, expect, silent in jobs:
            r = check_patch(p, prop_, expect, silent)
            r["patch"] = _label(p, r["patch"])
            res.append(r)
    summary = {
        "self_validation": res,
        "self_validation_summary": {
            "mutants_detected": sum(1 for r in res if r["status"] == "ok" and "refactor" not in r.get("kind", "")),
            "missed": [r["patch"] for r in res if r["status"] == "MISSED"],
            "false_alarms": [r["patch"] for r in res if r["status"] == "FALSE-ALARM"],
            "skipped": [r["patch"] for r in res if r["status"] == "skipped"],
        },
    }
    return summary


def _label(p, name):
    for top in ("seeded", "refactored"):
        if os.path.basename(os.path.dirname(os.path.dirname(p))) == top:
            return top + "/" + os.path.basename(os.path.dirname(p))
    return name


def _worker(args):
    p, prop, expect, silent = args
    r = check_patch(p, prop, expect, silent)
    r["label"] = _label(p, r["patch"])
    return r


def main_parallel(props, nworkers):
    """run the corpus with several workers, each with its own fact cache / cargo target dir"""
    import multiprocessing
    jobs = []
    for prop in props:
        for p, expect, silent in patches_for(prop):
            jobs.append((p, prop, expect, silent))
    base = factsmod.CACHE

    def init(counter):
        with counter.get_lock():
            counter.value += 1
            me = counter.value
        d = base + "-w%d" % me
        if not os.path.isdir(os.path.join(d, "target")):
            os.makedirs(d, exist_ok=True)
            if os.path.isdir(os.path.join(base, "target")):
                subprocess.run(["cp", "-r", os.path.join(base, "target"), os.path.join(d, "target")])
        factsmod.CACHE = d

    counter = multiprocessing.Value("i", 0)
    bad = 0
    with multiprocessing.Pool(nworkers, initializer=init, initargs=(counter,)) as pool:
        for r in pool.imap_unordered(_worker, jobs):
            print("%-12s %-4s %-48s %s %s" % (r["status"], r["property"], r["label"], r.get("secs", ""),
                                              (r.get("why") or "; ".join(r.get("reported", [])[:2]))[:200]), flush=True)
            if r["status"] in ("MISSED", "FALSE-ALARM"):
                bad += 1
    return 1 if bad else 0


def main():
    if "-j" in sys.argv:
        i = sys.argv.index("-j")
        n = int(sys.argv[i + 1])
        rest = sys.argv[1:i] + sys.argv[i + 2:]
        props = rest or sorted({x.split("-")[0] for x in os.listdir(os.path.join(VERIF, "selftest", "mutants"))
                                if x.endswith(".patch")})
        return main_parallel(props, n)
    props = sys.argv[1:] or sorted({n.split("-")[0] for n in os.listdir(os.path.join(VERIF, "selftest", "mutants"))
                                    if n.endswith(".patch")})
    bad = 0
    for prop in props:
        for p, expect, silent in patches_for(prop):
            r = check_patch(p, prop, expect, silent)
            print("%-12s %-4s %-48s %s %s" % (r["status"], prop, r["patch"] if "seeded" not in p else "seeded/" + os.path.basename(os.path.dirname(p)),
                                              r.get("secs", ""), (r.get("why") or "; ".join(r.get("reported", [])[:2]))[:200]))
            if r["status"] in ("MISSED", "FALSE-ALARM"):
                bad += 1
    return 1 if bad else 0


if __name__ == "__main__":
    sys.exit(main())
