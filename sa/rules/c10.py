"""C10 - parameter expansion substitutes current values, once, and always terminates."""
from .. import etag, mir, taint
from . import c03

EXPLANATION = ("C10: the single-substitution / termination clause is decided as a rescan-taint rule: a value read from "
               "the environment inside the expansion pass must not flow back into the pass's own `$` scanner (a "
               "value containing `$Y` would be expanded again; a self-reference never terminates).  Plus the quote-tag "
               "guard of the pass and the sources of $? and $$.  Exactness of the two regexes on adjacent text is not decided.")


def run(ctx):
    ctx.rule("R10-1", "text derived from env::var / Shell::get_env inside an expansion pass never reaches the argument of "
                      "a `$`-scanner (env_in_token, expand_one_env, ...) of the same pass")
    ctx.rule("R10-2", "expand_env acts only on tokens whose tag is not a single quote (E-TAG, class DQ)")
    ctx.rule("R10-4", "`$NAME` yields the CURRENT value: the exported environment is read before the shell-local map "
                      "(see C09 R09-7)")
    ctx.rule("R10-5", "the gate (env_in_token) and the rewriter (expand_one_env) may disagree on what a reference is: the "
                      "rewriter is applied once per word, or - when expand_env re-applies it in a loop - the loop leaves "
                      "when a rewrite changed nothing (explicit comparison of the new text with the old on every cycle)")
    ctx.rule("R10-6", "the rewriter is applied only to text the gate has just accepted: at every call of expand_one_env(t) "
                      "the fact env_in_token(t) == true holds for the current value of t on every path (the gate keeps "
                      "`$1`, `$(...)`, `NAME='..$X..'` and text without a reference away from the rewriter, whose own "
                      "pattern is wider)")
    ctx.rule("R10-7", "an unset name expands to nothing: remove_env removes the name from the process environment AND the "
                      "shell map on every successful path (both are read by expand_one_env; the analysis of C09 R09-4)")
    ctx.rule("R10-8", "the value is inserted as text, not as a regex replacement template: nothing read from the environment "
                      "or the shell variables reaches the template argument of Regex::replace* / Captures::expand in the "
                      "expansion pass unescaped (`$1`, `${2}`, a trailing `$` in a value would be interpreted)")
    ctx.rule("R10-9", "the adjacent text is preserved, not read as part of the name: the tokenizer glues the text that follows a "
                      "closing double quote onto the same token (`\"$DIR\"_backup` becomes the text `$DIR_backup` under tag "
                      "`\"`), so on that path it must delimit a trailing `$NAME` first - an iteration that starts in the "
                      "`quote just closed` state and reads an ordinary character passes a call that rewrites the token "
                      "with a `$` pattern before the character is appended (explored over the tokenizer's character loop)")
    ctx.rule("R10-3", "$? formats previous_status, $$ formats getpid()")
    for crate in ctx.crates:
        b = crate.fn("shell::expand_env")
        if not ctx.require(b is not None, "R10-1", "R10-1|anchor", "shell::expand_env not found"):
            continue
        ctx.analysed(b)
        scanners = taint.dollar_scanners(crate)
        ctx.require(len(scanners) >= 2, "R10-1", "R10-1|scanners", "fewer than two `$` scanner functions identified "
                    "(%s)" % sorted(scanners))
        rescan_rule(ctx, crate, b, scanners)
        fixpoint_rule(ctx, crate, b, scanners)
        gate_rule(ctx, crate, b)
        template_rule(ctx, crate)
        re_ = crate.fn("shell::Shell::remove_env")
        if ctx.require(re_ is not None, "R10-7", "R10-7|anchor", "Shell::remove_env not found"):
            from .c09 import unset_everywhere
            unset_everywhere(ctx, crate, re_, "R10-7")
        res = etag.run_sites(ctx, "R10-2", crate, fn_filter=lambda p: p == "shell::expand_env")
        ctx.floor("R10-2", crate, "inspections in expand_env", len(res), 1)
        c03.dollar_rule(ctx, crate)
        from .c09 import precedence_rule
        precedence_rule(ctx, crate, "R10-4")
        glue_rule(ctx, crate)
    # c03.dollar_rule registers under R03-4: relabel for this property
    for o in ctx.obligations:
        if o["rule"] == "R03-4":
            o["rule"] = "R10-3"
    for k in list(ctx.violations):
        if k.startswith("R03-4"):
            v = ctx.violations.pop(k)
            v["rule"] = "R10-3"
            v["key"] = "R10-3" + k[5:]
            ctx.violations[v["key"]] = v


def rescan_rule(ctx, crate, b, scanners, rule="R10-1"):
    edges = taint.feedback_edges(crate, b, taint.is_env_read, scanners)
    seen = set()
    for src, scanner, bb in edges:
        k = (src, scanner)
        if k in seen:
            continue
        seen.add(k)
        ctx.ob(rule, b.path, "value from %s is not rescanned by %s" % (src, scanner), False,
               key="%s|%s|rescan|%s->%s" % (rule, b.path, src, scanner), where=b.loc(bb), crate=crate.kind,
               detail="an expanded value that contains `$NAME` is expanded again; a value that mentions its own "
                      "variable never terminates (X='a$X'; echo $X)")
    if not edges:
        ctx.ob(rule, b.path, "no environment-derived text reaches a `$` scanner of the pass", True, crate=crate.kind)


def fixpoint_rule(ctx, crate, b, scanners):
    from .c05 import fixpoint_guarded
    from ..mir import last_seg
    n = 0
    for h, blocks in sorted(b.loops().items()):
        exits = [(x, y) for x in sorted(blocks) for y in b.succs[x] if y not in blocks]
        gate = False
        for x, y in exits:
            for tgt, atom, val in b.switch_edges(x):
                if tgt == y and any(sub[0] == "call" and sub[1] in scanners for sub in mir.subexprs(atom)):
                    gate = True
        if not gate:
            continue
        n += 1
        ok, detail = fixpoint_guarded(b, h, blocks, exits)
        ctx.ob("R10-5", b.path, "the rewrite loop leaves when expand_one_env changed nothing", ok,
               key="R10-5|%s|fixpoint" % b.path, where=b.loc(h), crate=crate.kind,
               detail=detail if not ok else None)
    if n == 0:
        # no re-application at all: the rewriter must then be called outside every loop but the token scan
        calls = [bb for bb, t, c in b.calls() if c in scanners and last_seg(c) != "env_in_token" and
                 any(last_seg(c) == x for x in ("expand_one_env",))]
        inner = [bb for bb in calls if sum(1 for h, bl in b.loops().items() if bb in bl) > 1]
        ctx.ob("R10-5", b.path, "the rewriter is applied once per token (no re-application loop; %d call site(s))" % len(calls),
               bool(calls) and not inner, key="R10-5|%s|fixpoint" % b.path, crate=crate.kind,
               detail=None if calls and not inner else "expand_one_env is called inside a nested loop that no `$` scanner gates")
        return
    ctx.require(n == 1, "R10-5", "R10-5|%s|loop" % b.path, "expected at most one loop gated by a `$` scanner in expand_env, found %d" % n,
                b.path)


def gate_rule(ctx, crate, b):
    from .c05 import must_facts
    from ..mir import last_seg, strip_sites
    sites = [bb for bb, t, c in b.calls() if c.endswith("shell::expand_one_env")]
    if not ctx.require(bool(sites), "R10-6", "R10-6|%s|anchor" % b.path, "no call of expand_one_env in expand_env", b.path):
        return
    for k, bb in enumerate(sites):
        arg = b.call_args(bb)[-1]
        root = mir.root_local_expr(b.expand_vars(strip_sites(arg)))
        rel = lambda a: a[0] == "call" and a[1].endswith("shell::env_in_token")
        facts, n = must_facts(b, bb, (), relevant=rel, cache_key=("gate", k))
        ctx.paths_enumerated += n
        ok = False
        for a, v in facts or ():
            if v is True and a[0] == "call" and a[1].endswith("shell::env_in_token") and a[2] and \
                    mir.root_local_expr(b.expand_vars(strip_sites(a[2][0]))) == root:
                ok = True
        ctx.ob("R10-6", b.path, "expand_one_env is applied only under env_in_token(<same text>) == true", ok,
               key="R10-6|%s|ungated-rewrite#%d" % (b.path, k), where=b.loc(bb), crate=crate.kind,
               detail=None if ok else "the rewriter's pattern also matches `$1`, `${1}` and references the gate excludes on "
               "purpose: applied to ungated text (e.g. a value just substituted) it deletes or expands them")


def template_rule(ctx, crate):
    from .. import flow
    sp = taint.source_pred(crate, taint.is_env_read)
    n = 0
    for p in ("shell::expand_env", "shell::expand_one_env"):
        b = crate.fn(p)
        if b is None:
            continue
        for bb, arg, desc in taint.template_sinks(b):
            hit = flow.backward(b, arg, sp, stop=taint.is_dollar_escape)
            ctx.ob("R10-8", p, "no variable value reaches the %s unescaped" % desc, hit is None,
                   key="R10-8|%s|template#%d" % (p, n), where=b.loc(bb), crate=crate.kind,
                   detail=None if hit is None else "a value such as `cost$1` or `^a.*b$` is interpreted as a template: capture "
                   "references in it are substituted and text is lost")
            n += 1
    if n == 0:
        ctx.ob("R10-8", "shell::expand_one_env", "the expansion pass uses no replacement template", True, crate=crate.kind,
               nontrivial=False)


def glue_rule(ctx, crate):
    r = explore_after_close(ctx, crate, "R10-9", None)
    if r is None:
        return
    b, found, n_delim = r
    ok = found["glued"] == 0 or found["delimited"] > 0
    ctx.ob("R10-9", b.path, "text glued after a closing double quote: a trailing `$NAME` of the token is delimited on that path "
                            "(%d glue path(s), %d through a delimiting call, %d call(s) of that kind)" %
           (found["glued"], found["delimited"], n_delim), ok,
           key="R10-9|%s|glue-after-quote|name-delimited" % b.path, crate=crate.kind,
           detail=None if ok else "`\"$A\"x` is tokenized to the text `$Ax` under the double-quote tag: the expansion reads the "
           "variable Ax (usually unset) - the adjacent text is lost instead of preserved")


def explore_after_close(ctx, crate, rule, X):
    """one iteration of parse_line's character loop, started in the `quote just closed` state under the double-quote
    tag, reading character X (None: a character that equals none of the constants the loop compares with).
    Returns (body, {"glued": paths that append the character without ending the word, "delimited": those of them
    that pass a delimiting call, "ended": paths that end the word}, number of delimiting calls)"""
    from .c01 import TokenizerModel, _is_tag_var
    from .c02 import dom_facts
    from ..mir import FactWalker, const_char, const_str, last_seg, strip_sites, render
    from ..etag import norm_guard
    b = crate.fn("parsers::parser_line::parse_line")
    if not ctx.require(b is not None, rule, "%s|anchor" % rule, "parsers::parser_line::parse_line not found"):
        return None
    M = TokenizerModel(b)
    if not ctx.require(M.ok, rule, "%s|%s|model" % (rule, b.path), M.why or "tokenizer loop not recognised", b.path):
        return None
    blocks, cexpr = M.blocks, M.cexpr
    # the `quote just closed` flag: a bool set under `tag == current character`
    closed = None
    for bi, si, st in b.stmts():
        if bi in blocks and st["k"] == "assign" and not st["place"]["p"] and b.locals[st["place"]["l"]]["ty"] == "bool" \
                and mir.const_bool(b.rvalue_expr(st["rv"])) is True:
            for a, v in dom_facts(b, bi, within=blocks):
                g = norm_guard(a, v)
                a2 = strip_sites(a)
                if a2[0] == "call" and last_seg(a2[1]) in ("eq", "ne") and ((last_seg(a2[1]) == "eq") == bool(v)) and \
                        any(sub == cexpr for sub in mir.subexprs(a2)) and \
                        any(sub[0] == "var" and _is_tag_var(b, sub[1]) for sub in mir.subexprs(a2)):
                    closed = ("var", st["place"]["l"], b.names.get(st["place"]["l"]))
    if not ctx.require(closed is not None, rule, "%s|%s|closed-flag" % (rule, b.path),
                       "the `quote just closed` state of the tokenizer was not identified", b.path):
        return None
    token_vars = set(M.pushes_c.values())
    ends = {bb for bb, t, c in b.calls() if bb in blocks and last_seg(c) == "push" and "Vec" in c}
    # delimiting calls: the token is handed to something that carries a `$` pattern (directly, or a local helper does)
    def has_dollar_pattern(fb):
        for bb, t, c in fb.calls():
            for a in fb.call_args(bb):
                v = const_str(fb.expand_vars(strip_sites(a)))
                if v is not None and "$" in v and ("\\$" in v or "[$]" in v):
                    return True
        return False
    delim = set()
    for bb, t, c in b.calls():
        if bb not in blocks:
            continue
        a = b.call_args(bb)
        if not a or last_seg(c) in ("push", "push_str", "len", "is_empty", "clone", "to_string", "deref", "eq", "ne"):
            continue
        if not any(mir.root_local_expr(b.expand_vars(strip_sites(x))) in token_vars for x in a):
            continue
        ci = b.callee_info(t)
        callee = crate.fn(ci["resolved"]) if ci is not None and ci.get("local") else None
        lit = any(const_str(b.expand_vars(strip_sites(x))) is not None and
                  ("\\$" in const_str(b.expand_vars(strip_sites(x))) or "[$]" in const_str(b.expand_vars(strip_sites(x))))
                  for x in a)
        if lit or (callee is not None and has_dollar_pattern(callee)):
            delim.add(bb)
    w = FactWalker(b, lambda a: True, cut_back_edges=False)
    named_bools = [("var", l, b.names.get(l)) for l in b.names if b.locals[l]["ty"] == "bool"]
    found = {"glued": 0, "delimited": 0, "ended": 0}

    def step(bb, st):
        facts, delimited, pushed, ended = st
        if bb in delim:
            delimited = True
        if bb in M.pushes_c:
            pushed = True
        if bb in ends:
            ended = True
        out = []
        for nb2, atom, val in w.edges(bb):
            if nb2 not in blocks:
                continue
            if (bb, nb2) in M.back:
                if pushed and not ended:
                    found["glued"] += 1
                    if delimited:
                        found["delimited"] += 1
                if ended:
                    found["ended"] += 1
                continue
            if atom is not None:
                if atom[0] == "bin" and atom[1] in ("Eq", "Ne") and atom[2] == cexpr and const_char(atom[3]) is not None:
                    same = (X is not None and const_char(atom[3]) == X)
                    if ((atom[1] == "Eq") == same) != val:      # the character read is X (or none of the constants)
                        continue
                g = norm_guard(atom, val)
                if g is not None and g[0] == "is_empty" and g[1][0] == "var" and _is_tag_var(b, g[1][1]) and g[2] is True:
                    continue                          # the tag is `"`, not empty
                if g is not None and g[0] == "eq" and g[1][0] == "var" and _is_tag_var(b, g[1][1]) and \
                        isinstance(g[2], str) and g[3] is not (g[2] == "\""):
                    continue
            f2 = w.apply_block(bb, facts)
            if atom is not None:
                if any(a2 == atom and not mir._consistent(v2, val) for a2, v2 in f2):
                    continue
                if atom[0] == "var" and b.locals[atom[1]]["ty"] == "bool":
                    f2 = f2 | {(atom, val)}
            out.append((nb2, (f2, delimited, pushed, ended)))
        return out

    init = frozenset({(v, v == closed) for v in named_bools})
    seen = mir.explore(b, M.some_t[0], (init, False, False, False), step, limit=400000)
    ctx.paths_enumerated += len(seen)
    return b, found, len(delim)
