"""C10 - parameter expansion substitutes current values, once, and always terminates."""
from .. import etag, mir, taint
from . import c03

EXPLANATION = ("C10: the single-substitution / termination clause is decided as a rescan-taint rule: a value read from "
               "the environment inside the expansion pass must not flow back into the pass's own `$` scanner (a "
               "value containing `$Y` would be expanded again; a self-reference never terminates).  Plus the quote-tag "
               "guard of the pass and the sources of $? and $$.  Exactness of the two regexes on adjacent text is not decided.")


def run(ctx):
    ctx.rule("R10-1", "text derived from env::var / Shell::get_env inside an expansion pass never reaches the argument of "
                      "a `$`-scanner (env_in_token, expand_one_env, ...) of the same pass")
    ctx.rule("R10-2", "expand_env acts only on tokens whose tag is not a single quote (E-TAG, class DQ)")
    ctx.rule("R10-4", "`$NAME` yields the CURRENT value: the exported environment is read before the shell-local map "
                      "(see C09 R09-7)")
    ctx.rule("R10-5", "the gate (env_in_token) and the rewriter (expand_one_env) may disagree on what a reference is: the "
                      "loop that re-applies the rewriter leaves when a rewrite changed nothing (explicit comparison of "
                      "the new text with the old on every cycle)")
    ctx.rule("R10-6", "the rewriter is applied only to text the gate has just accepted: at every call of expand_one_env(t) "
                      "the fact env_in_token(t) == true holds for the current value of t on every path (the gate keeps "
                      "`$1`, `$(...)`, `NAME='..$X..'` and text without a reference away from the rewriter, whose own "
                      "pattern is wider)")
    ctx.rule("R10-7", "an unset name expands to nothing: remove_env removes the name from the process environment AND the "
                      "shell map on every successful path (both are read by expand_one_env; the analysis of C09 R09-4)")
    ctx.rule("R10-8", "the value is inserted as text, not as a regex replacement template: nothing read from the environment "
                      "or the shell variables reaches the template argument of Regex::replace* / Captures::expand in the "
                      "expansion pass unescaped (`$1`, `${2}`, a trailing `$` in a value would be interpreted)")
    ctx.rule("R10-3", "$? formats previous_status, $$ formats getpid()")
    for crate in ctx.crates:
        b = crate.fn("shell::expand_env")
        if not ctx.require(b is not None, "R10-1", "R10-1|anchor", "shell::expand_env not found"):
            continue
        ctx.analysed(b)
        scanners = taint.dollar_scanners(crate)
        ctx.require(len(scanners) >= 2, "R10-1", "R10-1|scanners", "fewer than two `$` scanner functions identified "
                    "(%s)" % sorted(scanners))
        rescan_rule(ctx, crate, b, scanners)
        fixpoint_rule(ctx, crate, b, scanners)
        gate_rule(ctx, crate, b)
        template_rule(ctx, crate)
        re_ = crate.fn("shell::Shell::remove_env")
        if ctx.require(re_ is not None, "R10-7", "R10-7|anchor", "Shell::remove_env not found"):
            from .c09 import unset_everywhere
            unset_everywhere(ctx, crate, re_, "R10-7")
        res = etag.run_sites(ctx, "R10-2", crate, fn_filter=lambda p: p == "shell::expand_env")
        ctx.floor("R10-2", crate, "inspections in expand_env", len(res), 1)
        c03.dollar_rule(ctx, crate)
        from .c09 import precedence_rule
        precedence_rule(ctx, crate, "R10-4")
    # c03.dollar_rule registers under R03-4: relabel for this property
    for o in ctx.obligations:
        if o["rule"] == "R03-4":
            o["rule"] = "R10-3"
    for k in list(ctx.violations):
        if k.startswith("R03-4"):
            v = ctx.violations.pop(k)
            v["rule"] = "R10-3"
            v["key"] = "R10-3" + k[5:]
            ctx.violations[v["key"]] = v


def rescan_rule(ctx, crate, b, scanners, rule="R10-1"):
    edges = taint.feedback_edges(crate, b, taint.is_env_read, scanners)
    seen = set()
    for src, scanner, bb in edges:
        k = (src, scanner)
        if k in seen:
            continue
        seen.add(k)
        ctx.ob(rule, b.path, "value from %s is not rescanned by %s" % (src, scanner), False,
               key="%s|%s|rescan|%s->%s" % (rule, b.path, src, scanner), where=b.loc(bb), crate=crate.kind,
               detail="an expanded value that contains `$NAME` is expanded again; a value that mentions its own "
                      "variable never terminates (X='a$X'; echo $X)")
    if not edges:
        ctx.ob(rule, b.path, "no environment-derived text reaches a `$` scanner of the pass", True, crate=crate.kind)


def fixpoint_rule(ctx, crate, b, scanners):
    from .c05 import fixpoint_guarded
    from ..mir import last_seg
    n = 0
    for h, blocks in sorted(b.loops().items()):
        exits = [(x, y) for x in sorted(blocks) for y in b.succs[x] if y not in blocks]
        gate = False
        for x, y in exits:
            for tgt, atom, val in b.switch_edges(x):
                if tgt == y and any(sub[0] == "call" and sub[1] in scanners for sub in mir.subexprs(atom)):
                    gate = True
        if not gate:
            continue
        n += 1
        ok, detail = fixpoint_guarded(b, h, blocks, exits)
        ctx.ob("R10-5", b.path, "the rewrite loop leaves when expand_one_env changed nothing", ok,
               key="R10-5|%s|fixpoint" % b.path, where=b.loc(h), crate=crate.kind,
               detail=detail if not ok else None)
    ctx.require(n == 1, "R10-5", "R10-5|%s|loop" % b.path, "expected one loop gated by a `$` scanner in expand_env, found %d" % n,
                b.path)


def gate_rule(ctx, crate, b):
    from .c05 import must_facts
    from ..mir import last_seg, strip_sites
    sites = [bb for bb, t, c in b.calls() if c.endswith("shell::expand_one_env")]
    if not ctx.require(bool(sites), "R10-6", "R10-6|%s|anchor" % b.path, "no call of expand_one_env in expand_env", b.path):
        return
    for k, bb in enumerate(sites):
        arg = b.call_args(bb)[-1]
        root = mir.root_local_expr(b.expand_vars(strip_sites(arg)))
        rel = lambda a: a[0] == "call" and a[1].endswith("shell::env_in_token")
        facts, n = must_facts(b, bb, (), relevant=rel, cache_key=("gate", k))
        ctx.paths_enumerated += n
        ok = False
        for a, v in facts or ():
            if v is True and a[0] == "call" and a[1].endswith("shell::env_in_token") and a[2] and \
                    mir.root_local_expr(b.expand_vars(strip_sites(a[2][0]))) == root:
                ok = True
        ctx.ob("R10-6", b.path, "expand_one_env is applied only under env_in_token(<same text>) == true", ok,
               key="R10-6|%s|ungated-rewrite#%d" % (b.path, k), where=b.loc(bb), crate=crate.kind,
               detail=None if ok else "the rewriter's pattern also matches `$1`, `${1}` and references the gate excludes on "
               "purpose: applied to ungated text (e.g. a value just substituted) it deletes or expands them")


def template_rule(ctx, crate):
    from .. import flow
    sp = taint.source_pred(crate, taint.is_env_read)
    n = 0
    for p in ("shell::expand_env", "shell::expand_one_env"):
        b = crate.fn(p)
        if b is None:
            continue
        for bb, arg, desc in taint.template_sinks(b):
            hit = flow.backward(b, arg, sp, stop=taint.is_dollar_escape)
            ctx.ob("R10-8", p, "no variable value reaches the %s unescaped" % desc, hit is None,
                   key="R10-8|%s|template#%d" % (p, n), where=b.loc(bb), crate=crate.kind,
                   detail=None if hit is None else "a value such as `cost$1` or `^a.*b$` is interpreted as a template: capture "
                   "references in it are substituted and text is lost")
            n += 1
    if n == 0:
        ctx.ob("R10-8", "shell::expand_one_env", "the expansion pass uses no replacement template", True, crate=crate.kind,
               nontrivial=False)
