"""C03 - command lists: left to right, short-circuit, status plumbing."""
from .. import flow, mir
from ..mir import FactWalker, const_int, const_str, last_seg, render, strip_sites

EXPLANATION = ("C03: the list evaluation loop of run_command_line is decided structurally: single loop "
               "exit (iterator exhaustion), the run/skip decision as a truth table over {sep is &&, sep is ||, "
               "status == 0}, status plumbing into previous_status, $? / $$ sources, and process exit codes. "
               "Does not decide how line_to_cmds splits arbitrary text.")


def run(ctx):
    ctx.rule("R03-1", "the loop over line_to_cmds(line) in run_command_line is left only when the iterator "
                      "is exhausted: a skipped && / || segment must not end the line")
    ctx.rule("R03-2", "a segment is run iff not(sep is && and status != 0) and not(sep is || and status == 0); "
                      "operator tokens only update sep")
    ctx.rule("R03-3", "after every run_proc the shell's previous_status is assigned the result's status "
                      "before the next iteration")
    ctx.rule("R03-4", "$? formats previous_status, $$ formats getpid()")
    ctx.rule("R03-6", "the status the list operators test is the pipeline's, and the next pipeline starts after this one: "
                      "wait_fg_job reports the LAST stage's status (written only under pid == *pids.last()), leaves its "
                      "loop only at ECHILD / error / all members counted, counts a reaped child only when it is a member "
                      "of the foreground pipeline, and waits for any child (the C02 R02-5 / R02-7 analyses)")
    ctx.rule("R03-5", "cicada -c exits with previous_status; a script run exits with run_script's value, "
                      "which is the status of the last command result")
    ctx.rule("R03-8", "the status && / || test is a real one: main resets an inherited SIGCHLD disposition before it runs "
                      "anything (the analysis of C02 R02-8; bin crate)")
    ctx.rule("R03-9", "a quoted region of the list splitter ends only at the character that opened it: every place where "
                      "line_to_cmds clears its quote / operator state is dominated by `state == current character`, so "
                      "`;`, `&&`, `||` behind a different quote character inside a quoted word stay text")
    ctx.rule("R03-7", "line_to_cmds recognises `;`, `&&`, `||` with a look-ahead in the same index space as its cursor: the "
                      "counter of chars().enumerate() is never used as a byte offset, so non-ASCII text before an operator "
                      "cannot hide it")
    for crate in ctx.crates:
        from .. import ispace
        if ctx.require(crate.fn("parsers::parser_line::line_to_cmds") is not None, "R03-7", "R03-7|anchor",
                       "parsers::parser_line::line_to_cmds not found"):
            ispace.rule(ctx, crate, "R03-7", ["parsers::parser_line::line_to_cmds"])
            splitter_state_rule(ctx, crate, "R03-9")
        if crate.kind == "bin":
            from .c02 import sigchld_rule
            sigchld_rule(ctx, crate, "R03-8")
        body = crate.fn("execute::run_command_line")
        if ctx.require(body is not None, "R03-1", "R03-1|anchor", "execute::run_command_line not found"):
            ctx.analysed(body)
            loop_rules(ctx, crate, body)
        dollar_rule(ctx, crate)
        exit_rules(ctx, crate)
        pipeline_status_rule(ctx, crate)


def find_list_loop(body):
    """the loop whose header calls next() on an iterator over line_to_cmds(..)"""
    for h, blocks in body.loops().items():
        for bb in blocks:
            t = body.term(bb)
            if t["k"] == "call" and last_seg(body.callee(t)) == "next":
                args = body.call_args(bb)
                if args and flow.backward(body, args[0], lambda e: flow.is_call_to(e, "line_to_cmds")):
                    return h, blocks, bb
    return None, None, None


def status_atom(atom, val):
    """map a branch fact on an integer status variable to ('Z', bool) meaning status == 0 is bool"""
    if atom[0] != "bin" or not isinstance(val, bool):
        return None
    op, a, b = atom[1], atom[2], atom[3]
    ca, cb = const_int(a), const_int(b)
    if cb is None and ca is not None:
        # constant on the left: mirror
        flip = {"Lt": "Gt", "Gt": "Lt", "Le": "Ge", "Ge": "Le"}.get(op, op)
        op, a, b, cb = flip, b, a, ca
    if cb is None:
        return None
    if a[0] != "var":
        return None
    if op == "Eq" and cb == 0:
        return (a, val)
    if op == "Ne" and cb == 0:
        return (a, not val)
    if op == "Gt" and cb == 0:
        return (a, not val)
    if op == "Lt" and cb == 1:
        return (a, val)
    if op == "Ge" and cb == 1:
        return (a, not val)
    if op == "Le" and cb == 0:
        return (a, val)
    return None


def str_eq_atom(atom, val):
    """('eq', X, lit, bool) for string comparisons"""
    from ..etag import norm_guard
    g = norm_guard(atom, val)
    if g is not None and g[0] == "eq":
        return g
    return None


def loop_rules(ctx, crate, body):
    h, blocks, nextbb = find_list_loop(body)
    if not ctx.require(h is not None, "R03-1", "R03-1|anchor|loop",
                       "no loop over line_to_cmds() found in run_command_line", body.path):
        return
    # R03-1 exits
    next_atom = mir.strip_sites(body.call_expr(nextbb))
    exits = []
    for a in sorted(blocks):
        for b in body.succs[a]:
            if b not in blocks:
                exits.append((a, b))
    n_iter_exit = 0
    for a, b in exits:
        conds = [(atom, val) for tgt, atom, val in body.switch_edges(a) if tgt == b]
        is_iter = any(atom[0] == "discr" and atom[1] == next_atom and val == "None" for atom, val in conds)
        if is_iter:
            n_iter_exit += 1
            ctx.ob("R03-1", body.path, "loop exit on iterator exhaustion", True, where=body.loc(a),
                   crate=crate.kind, nontrivial=False)
            continue
        desc = "; ".join("%s=%s" % (mir.render_key(atom), val) for atom, val in conds) or "unconditional"
        # a return that ends the function is also an early exit of the list
        ctx.ob("R03-1", body.path, "no early exit from the list loop (exit under %s)" % desc, False,
               key="R03-1|%s|exit|%s" % (body.path, desc), where=body.loc(a), crate=crate.kind,
               detail="a skipped segment ends the whole line: `false && a ; b` must still run b")
    # returns inside the loop body count as exits too (they are outside the natural loop by construction)
    ctx.require(n_iter_exit == 1, "R03-1", "R03-1|%s|iter-exit" % body.path,
                "expected exactly one iterator-exhaustion exit, found %d" % n_iter_exit, body.path)
    if not exits or all(False for _ in exits):
        pass

    # R03-2 truth table
    runbbs = [bb for bb in flow.find_calls(body, "run_proc") if bb in blocks]
    if not ctx.require(len(runbbs) >= 1, "R03-2", "R03-2|anchor|run_proc", "no run_proc call in the loop", body.path):
        return
    # the element variable
    tok = None
    for tgt, atom, val in body.switch_edges(body.succs[nextbb][0]) if body.succs[nextbb] else []:
        pass
    tok_expr = mir.fld(0, ("downcast", "Some", next_atom))

    def relevant(atom):
        if status_atom(atom, True) is not None:
            return True
        if atom[0] == "var" and body.locals[atom[1]]["ty"] == "bool":
            return True           # a decision first stored in a bool (`let skip = ..`, the result of a helper / match)
        g = str_eq_atom(atom, True)
        return g is not None

    w = FactWalker(body, relevant)
    states = w.run(h)
    ctx.paths_enumerated += len(states)
    reach = [facts for bb, facts in states if bb in runbbs]
    # collect the variables used as sep / status on the decision paths
    rows = []
    sepvar = None
    zvar = None
    for facts in reach:
        for atom, val in facts:
            g = str_eq_atom(atom, val)
            if g is not None and g[1][0] == "var" and g[2] in ("&&", "||"):
                sepvar = g[1]
            z = status_atom(atom, val)
            if z is not None:
                zvar = z[0]
    ok_anchor = ctx.require(sepvar is not None and zvar is not None, "R03-2", "R03-2|%s|atoms" % body.path,
                            "the run/skip decision does not test a separator variable against && / || and a status "
                            "against 0 (sep=%s status=%s)" % (sepvar and sepvar[2], zvar and zvar[2]), body.path)
    if ok_anchor:
        for A, B, Z in [(a, b, z) for a in (0, 1) for b in (0, 1) for z in (0, 1)]:
            if A and B:
                continue
            expected = not (A and not Z) and not (B and Z)
            got = False
            for facts in reach:
                cons = True
                for atom, val in facts:
                    g = str_eq_atom(atom, val)
                    if g is not None and g[1] == sepvar:
                        if g[2] == "&&" and g[3] != bool(A):
                            cons = False
                        if g[2] == "||" and g[3] != bool(B):
                            cons = False
                        if g[2] not in ("&&", "||") and g[3] and (A or B):
                            cons = False
                    z = status_atom(atom, val)
                    if z is not None and z[0] == zvar and z[1] != bool(Z):
                        cons = False
                if cons:
                    got = True
                    break
            row = "sep%s status%s0" % ("=&&" if A else ("=||" if B else "=;/none"), "==" if Z else "!=")
            ctx.ob("R03-2", body.path, "row [%s]: run=%s" % (row, expected), got == expected,
                   key="R03-2|%s|row|%s" % (body.path, row), where=body.loc(runbbs[0]), crate=crate.kind,
                   detail="analysis: segment %s reachable under this row" % ("is" if got else "is not"))
        # operator tokens never run
        for facts in reach:
            for atom, val in facts:
                g = str_eq_atom(atom, val)
                if g is not None and g[1] != sepvar and g[2] in (";", "&&", "||") and g[3]:
                    ctx.ob("R03-2", body.path, "operator token %s is not run as a command" % g[2], False,
                           key="R03-2|%s|optoken|%s" % (body.path, g[2]), where=body.loc(runbbs[0]),
                           crate=crate.kind)
        # the three operator literals are recognised and update sep
        lits = set()
        for bb in blocks:
            for tgt, atom, val in body.switch_edges(bb):
                g = str_eq_atom(atom, val)
                if g is not None and g[1] != sepvar and g[3]:
                    lits.add(g[2])
        for l in (";", "&&", "||"):
            ctx.ob("R03-2", body.path, "operator token %s recognised" % l, l in lits,
                   key="R03-2|%s|oplit|%s" % (body.path, l), crate=crate.kind, nontrivial=False)

    # R03-3 previous_status
    assigns = [(bi, si, rhs) for bi, si, rhs in flow.assignments_to_field(body, "previous_status") if bi in blocks]
    for rb in runbbs:
        res = mir.strip_sites(body.call_expr(rb))
        good = set()
        for bi, si, rhs in assigns:
            hit = flow.backward(body, rhs, lambda e: flow.is_field_named(e, "status")
                                and mir.strip_sites(mir.peel(e[2])) == res)
            if hit is not None:
                good.add(bi)
        ok = bool(good) and flow.must_pass(body, body.succs[rb][0] if body.succs[rb] else rb, good, {h}, within=blocks)
        ctx.ob("R03-3", body.path, "previous_status = run_proc(..).status on every path to the next iteration", ok,
               key="R03-3|%s|previous_status" % body.path, where=body.loc(rb), crate=crate.kind)


def dollar_rule(ctx, crate):
    top = crate.fn("shell::expand_one_env")
    if not ctx.require(top is not None, "R03-4", "R03-4|anchor", "shell::expand_one_env not found"):
        return
    ctx.analysed(top)
    want = {"?": ("previous_status", lambda e: flow.is_field_named(e, "previous_status")),
            "$": ("getpid()", lambda e: flow.is_call_to(e, "getpid"))}
    found = {}
    # the arms may sit in a closure of the function (Regex::replace_all(text, |caps| ..))
    for body in [top] + crate.closures_of(top.path):
        for bb in sorted(body.reachable):
            for tgt, atom, val in body.switch_edges(bb):
                g = str_eq_atom(atom, val)
                if g is None or not g[3] or g[2] not in want:
                    continue
                dom = flow.edge_dominated(body, bb, tgt)
                srcs = []
                for x in sorted(dom):
                    t = body.term(x)
                    if t["k"] == "call" and last_seg(body.callee(t)) in ("new_display", "new_debug", "to_string") and \
                            body.call_args(x):
                        srcs.append(body.call_args(x)[0])
                name, pred = want[g[2]]
                ok = any(flow.backward(body, s, pred) is not None for s in srcs)
                other = [k for k in want if k != g[2]]
                crossed = any(flow.backward(body, s, want[o][1]) is not None for s in srcs for o in other)
                found[g[2]] = True
                ctx.ob("R03-4", top.path, "$%s formats %s" % (g[2], name), ok and not crossed,
                       key="R03-4|%s|$%s" % (top.path, g[2]), where=body.loc(bb), crate=crate.kind,
                       detail="formatted values: %s" % "; ".join(render(s)[:60] for s in srcs))
    for k in want:
        ctx.require(k in found, "R03-4", "R03-4|%s|arm|%s" % (top.path, k),
                    "no branch on key == \"%s\" in expand_one_env" % k, top.path)


def exit_rules(ctx, crate):
    rs = crate.fn("scripting::run_script")
    if ctx.require(rs is not None, "R03-5", "R03-5|anchor|run_script", "scripting::run_script not found"):
        ctx.analysed(rs)
        # the return value after run_lines derives from .status of last() of run_lines' result
        rl = flow.find_calls(rs, "run_lines")
        ok = False
        detail = ""
        if rl:
            dom_ret = [r for r in rs.exits()]
            # the returned expression(s): _0 assignments dominated by the run_lines call
            rets = [(bi, rs.def_expr(bi, si)) for bi, si in rs.defs.get(0, []) if rs.dominates(rl[0], bi)]
            detail = "; ".join(render(e)[:80] for _, e in rets)
            def direct(e):
                return flow.backward(rs, e, lambda x: flow.is_field_named(x, "status") and
                                     flow.backward(rs, x[2], lambda y: flow.is_call_to(y, "last") and
                                                   flow.backward(rs, y, lambda z: flow.is_call_to(z, "run_lines")) is not None)
                                     is not None) is not None

            def through_closure(e):
                # `run_lines(..).last().map_or(0, |last| last.status)`: an Option combinator on last() whose closure
                # returns the status field of its argument
                hit = flow.backward(rs, e, lambda x: x[0] == "call" and last_seg(x[1]) in ("map_or", "map", "map_or_else") and
                                    any(flow.is_call_to(s_, "last") for s_ in mir.subexprs(x)) and
                                    any(flow.is_call_to(s_, "run_lines") for s_ in mir.subexprs(rs.expand_vars(x))))
                if hit is None:
                    return False
                for s_ in mir.subexprs(hit):
                    if s_[0] == "agg" and isinstance(s_[1], str) and s_[1].startswith("closure:"):
                        cb = crate.fn(s_[1][len("closure:"):].rstrip("()"))
                        if cb is not None and all(
                                flow.backward(cb, cb.def_expr(bi, si), lambda x: flow.is_field_named(x, "status") and
                                              mir.root_local_expr(x[2]) is not None and cb.is_param(mir.root_local_expr(x[2])))
                                is not None for bi, si in cb.defs.get(0, [])) and cb.defs.get(0):
                            return True
                return False
            ok = bool(rets) and all(direct(e) or through_closure(e) for _, e in rets)
        ctx.ob("R03-5", rs.path, "run_script returns run_lines(..).last().status", ok,
               key="R03-5|%s|return" % rs.path, crate=crate.kind, detail=detail)
    if crate.kind != "bin":
        return
    m = crate.fn("main")
    if not ctx.require(m is not None, "R03-5", "R03-5|anchor|main", "main not found in the bin crate"):
        return
    ctx.analysed(m)
    arms = {"is_script": ("run_script result", lambda e: flow.is_call_to(e, "run_script")),
            "is_command_string": ("sh.previous_status", lambda e: flow.is_field_named(e, "previous_status"))}
    for sel, (name, pred) in arms.items():
        hit = False
        for bb in sorted(m.reachable):
            for tgt, atom, val in m.switch_edges(bb):
                if atom[0] == "call" and last_seg(atom[1]) == sel and val is True:
                    dom = flow.edge_dominated(m, bb, tgt)
                    exits = [x for x in sorted(dom) if m.term(x)["k"] == "call" and last_seg(m.callee(m.term(x))) == "exit"]
                    hit = True
                    ok = bool(exits) and all(flow.backward(m, m.call_args(x)[0], pred) is not None for x in exits)
                    # and the arm cannot fall through to the interactive loop: every path ends in exit
                    ctx.ob("R03-5", m.path, "%s arm: process::exit(%s)" % (sel, name), ok,
                           key="R03-5|main|%s" % sel, where=m.loc(bb), crate=crate.kind,
                           detail="; ".join(render(m.call_args(x)[0])[:60] for x in exits))
        ctx.require(hit, "R03-5", "R03-5|main|arm|%s" % sel, "no branch on %s() in main" % sel, "main")


def pipeline_status_rule(ctx, crate):
    """the status `&&` / `||` / `$?` see comes from wait_fg_job: reuse the C02 status rules under this property"""
    from . import c02
    wj = crate.fn("jobc::wait_fg_job")
    if not ctx.require(wj is not None, "R03-6", "R03-6|anchor", "jobc::wait_fg_job not found"):
        return
    ctx.analysed(wj)
    sub = type(ctx)("C03", ctx.tier, ctx.crates, ctx.root)
    c02.wait_fg_rules(sub, crate, wj)
    c02.status_const_rule(sub, crate)
    # all of them: the status written, the exits of the wait loop, its counter and its wait target decide both what
    # `&&` / `||` / `$?` see and whether the next pipeline of the list starts only after this one has finished
    for o in sub.obligations:
        o["rule"] = "R03-6"
        if o.get("key"):
            o["key"] = "R03-6" + o["key"][5:]
        ctx.obligations.append(o)
    for k, v in sub.violations.items():
        v["rule"] = "R03-6"
        v["key"] = "R03-6" + k[5:]
        ctx.violations[v["key"]] = v
    ctx.paths_enumerated += sub.paths_enumerated


def splitter_state_rule(ctx, crate, rule):
    from .c02 import dom_facts
    """the String state of line_to_cmds (open quote / pending operator) is cleared only under equality with the cursor"""
    from ..mir import const_str
    b = crate.fn("parsers::parser_line::line_to_cmds")
    nb = None
    for bb, t, c in b.calls():
        if last_seg(c) == "next" and "Enumerate" in c:
            nb = bb
    if not ctx.require(nb is not None, rule, "%s|%s|loop" % (rule, b.path), "character loop not found", b.path):
        return
    loop = None
    for h, blocks in b.loops().items():
        if nb in blocks and (loop is None or len(blocks) > len(loop)):
            loop = blocks
    cexpr = mir.fld(1, mir.fld(0, ("downcast", "Some", strip_sites(b.call_expr(nb))), "0"))
    # state variables: String locals that receive push(c) in the loop and are cleared in the loop
    pushed = set()
    for bb, t, c in b.calls():
        if bb in loop and last_seg(c) == "push" and "String" in c:
            a = b.call_args(bb)
            if len(a) == 2 and strip_sites(a[1]) == cexpr:
                pushed.add(mir.root_local_expr(a[0]))
    n = 0
    pending = []
    for bi, si, st in b.stmts():
        if bi not in loop or st["k"] != "assign" or st["place"]["p"] or st["place"]["l"] not in pushed:
            continue
        l = st["place"]["l"]
        sites = [(bi, b.expand_vars(strip_sites(b.rvalue_expr(st["rv"]))))]
        raw = mir.peel(strip_sites(b.rvalue_expr(st["rv"])))
        if raw[0] in ("var", "tmp") and len(b.defs.get(raw[1], [])) > 1:
            # `state = if .. { a } else { b }`: every arm is a site of its own
            sites = [(bi2, b.expand_vars(strip_sites(b.def_expr(bi2, si2)))) for bi2, si2 in b.defs[raw[1]] if bi2 in loop]
        for bi, e in sites:
            pending.append((l, bi, e))
    # `state.clear()` / `state.truncate(0)` empty the string as well
    for bb, t, c in b.calls():
        if bb in loop and "String" in c and last_seg(c) in ("clear", "truncate") and b.call_args(bb):
            l = mir.root_local_expr(b.expand_vars(strip_sites(b.call_args(bb)[0])))
            if l in pushed and (last_seg(c) == "clear" or mir.const_int(b.call_args(bb)[1]) == 0):
                pending.append((l, bb, ("const", ("str", ""))))
    for l, bi, e in pending:
        empty = (e[0] == "call" and last_seg(e[1]) == "new" and "String" in e[1]) or const_str(e) == ""
        if not empty:
            continue
        # only the quote/operator state: it is tested with is_empty() in branch conditions
        tested = any(a[0] == "call" and last_seg(a[1]) == "is_empty" and mir.root_local_expr(a[2][0]) == l
                     for x in loop for tgt, a, v in b.switch_edges(x))
        if not tested:
            continue
        n += 1
        good = False
        for a, v in dom_facts(b, bi, within=loop):
            a2 = strip_sites(a)
            if a2[0] == "call" and last_seg(a2[1]) in ("eq", "ne") and len(a2[2]) == 2 and ((last_seg(a2[1]) == "eq") == bool(v)):
                x, y = (b.expand_vars(mir.peel(z)) for z in a2[2])
                for p, q in ((x, y), (y, x)):
                    if mir.root_local_expr(p) == l and any(sub == cexpr for sub in mir.subexprs(q)):
                        good = True
        ctx.ob(rule, b.path, "clearing `%s` is guarded by `%s == <current character>`" % (b.names.get(l), b.names.get(l)), good,
               key="%s|%s|state-cleared-unguarded|%s#%d" % (rule, b.path, b.names.get(l), n), where=b.loc(bi), crate=crate.kind,
               detail=None if good else "a region of the splitter ends at a character other than the one that opened it: `echo \"it's; "
               "rm x\"` is split at the `;` - or, for a region closed by a different character, a quoted occurrence of that "
               "character inside ends it early and the quote that follows swallows every later `;` / `&&` / `||`")
    ctx.floor(rule, crate, "state-clearing sites in line_to_cmds", n, 2)
