"""C20 - what TAB inserts for a file name is read back as exactly that file (structural clauses)."""
from .. import flow, mir, refacts
from ..mir import const_char, const_str, last_seg, render, strip_sites
from .c02 import dom_facts
from .c16 import escape_set_for_untagged

EXPLANATION = ("C20: the character class of the completion escaper (read from its regex literal with regex-syntax) must "
               "cover every character the tokenizer or an expansion pass acts on inside / at the start of an unquoted "
               "word; inside an open quote the quoting helper must escape every character that is special inside that "
               "quote; candidates are the entries that start with the typed prefix (directories only when asked), "
               "sorted.  (bin crate only: the completers are not part of the library.)  The line-editor round trip "
               "itself is not decided.")

# T: characters that change meaning in an unquoted word.  One line each; anchors are machine-checked below.
T = {
    " ": "ends the word (parse_line)",
    "|": "pipe (parse_line)", "&": "background / && (from_line, line_to_cmds)", ";": "list separator (line_to_cmds)",
    "#": "comment at word start (parse_line)", "'": "opens a quote", "\"": "opens a quote", "`": "opens a command substitution",
    "\\": "escape introducer", "(": "parenthesis handling in parse_line", ")": "parenthesis handling in parse_line",
    "<": "input redirection (from_tokens)", ">": "output redirection (tokens_to_redirections)",
    "$": "variable / command substitution (expand_env, $( ))", "*": "glob (expand_glob)",
    "{": "brace expansion", "}": "brace expansion", ",": "brace expansion separator",
    "~": "home expansion at word start (expand_home)", "!": "history expansion !! (extend_bangbang)",
}
# special inside double quotes / single quotes
DQ_SPECIAL = {"\"": "closes the quote", "$": "expands inside double quotes (E-TAG class DQ)",
              "`": "embedded backquotes run inside double quotes", "\\": "escape introducer inside double quotes"}
SQ_SPECIAL = {"'": "closes the quote"}


def run(ctx):
    ctx.rule("R20-1", "escape_path's character class contains every character of T (tokenizer specials and expansion triggers)")
    ctx.rule("R20-4", "every test the tokenizer (parse_line, line_to_cmds) applies to the character it is reading is an "
                      "equality with a character of the escaper's class; a character-class predicate (is_whitespace, ...) "
                      "must not accept a character outside that class")
    ctx.rule("R20-5", "the word the completion replaces starts at a byte offset: escaped_word_start converts its character "
                      "counter with a correction that accounts for every character not known to be ASCII")
    ctx.rule("R20-6", "the word-start scanner tracks quotes like the tokenizer: it remembers which quote character opened "
                      "(assigned together with the open flag) and closes only under equality with that character; a "
                      "toggle on any quote character makes the other quote inside a name end the quoted region")
    ctx.rule("R20-7", "after `cd` only directories are offered whatever has been typed of the argument: the test that selects "
                      "the directory-only completer is a pure prefix test on the line (`^ *cd +`, nothing constrained after "
                      "the separator)")
    ctx.rule("R20-8", "what the completer writes inside an open double quote is read back unchanged: the characters the tokenizer "
                      "unescapes inside double quotes (computed by exploring parse_line's character loop, as in C16 R16-3) "
                      "are exactly characters wrap_sep_string escapes there")
    ctx.rule("R20-9", "the word that was inserted is the word that is expanded and handed on: the expansion passes write each "
                      "result back into the slot it was computed for (E-EDITLIST on the passes of do_expansion)")
    ctx.rule("R20-2", "inside an open quote q, wrap_sep_string(q, name) escapes every character special inside q")
    ctx.rule("R20-3", "candidates: entries whose name starts_with the typed prefix; non-directories skipped when "
                      "for_dir; result sorted; unquoted names go through escape_path, quoted ones through wrap_sep_string")
    for crate in ctx.crates:
        if crate.kind != "bin":
            continue
        class_rule(ctx, crate)
        quote_rule(ctx, crate)
        candidate_rule(ctx, crate)
        from .. import ispace
        if ctx.require(crate.fn("completers::escaped_word_start") is not None, "R20-5", "R20-5|anchor",
                       "completers::escaped_word_start not found"):
            n = ispace.rule(ctx, crate, "R20-5", ["completers::escaped_word_start"])
            ctx.floor("R20-5", crate, "index-space obligations", n, 1)
            quote_state_rule(ctx, crate)
        cd_prefix_rule(ctx, crate)
        from .. import editlist
        from .c13 import passes_in_order
        de_, ps_ = passes_in_order(crate)
        n_ = editlist.rule(ctx, crate, "R20-9", ps_)
        ctx.floor("R20-9", crate, "passes with a token vector", n_, 7)
        from .c16 import dq_roundtrip_rule
        n0 = len(ctx.obligations)
        v0 = set(ctx.violations)
        dq_roundtrip_rule(ctx, crate)
        for o in ctx.obligations[n0:]:
            if o["rule"] == "R16-3":
                o["rule"] = "R20-8"
                if o.get("key"):
                    o["key"] = "R20-8" + o["key"][5:]
        for k in [k for k in ctx.violations if k not in v0]:
            v = ctx.violations.pop(k)
            if v["rule"] == "R16-3":
                v["rule"] = "R20-8"
                v["key"] = "R20-8" + v["key"][5:]
            ctx.violations[v["key"]] = v
    ctx.notes.append("completers exist only in the bin crate; the lib crate has no instance of these rules")


def class_rule(ctx, crate):
    b = crate.fn("tools::escape_path")
    if not ctx.require(b is not None, "R20-1", "R20-1|anchor", "tools::escape_path not found"):
        return
    ctx.analysed(b)
    lit = None
    for bb, t, c in b.calls():
        if last_seg(c) == "new" and "egex" in c:
            lit = const_str(b.call_args(bb)[0])
    if not ctx.require(lit is not None, "R20-1", "R20-1|%s|literal" % b.path, "escape_path's regex literal not found", b.path):
        return
    info = refacts.info(lit)
    cls = set()
    for c in info.get("classes", []):
        cls |= set(c)
    for l in info.get("literals", []):
        if len(l) == 1:
            cls.add(l)
    ok_shape = info.get("ok") and info.get("groups", 0) >= 2
    # the replacement prefixes the matched character with a backslash
    rep_ok = False
    for bb, t, c in b.calls():
        if last_seg(c) in ("replace_all", "replace") and "egex" in c:
            a = b.call_args(bb)
            r = const_str(a[2]) if len(a) > 2 else None
            rep_ok = r is not None and r.startswith("\\") and "$" in r
    ctx.ob("R20-1", b.path, "escape_path replaces each class character c by backslash + c", bool(ok_shape) and rep_ok,
           key="R20-1|%s|shape" % b.path, crate=crate.kind)
    for ch, why in sorted(T.items()):
        ok = ch in cls
        ctx.ob("R20-1", b.path, "class contains %r (%s)" % (ch, why), ok, key="R20-1|%s|missing|%s" % (b.path, ch),
               crate=crate.kind, nontrivial=False,
               detail=None if ok else "a file name containing %r is inserted unescaped and is re-read as syntax" % ch)
    tokenizer_rule(ctx, crate, cls)
    # anchors: the tokenizer / passes still act on these characters
    consts = set()
    for p in ("parsers::parser_line::parse_line", "parsers::parser_line::line_to_cmds", "shell::expand_home",
              "shell::brace_getitem", "shell::brace_getgroup", "shell::expand_glob"):
        bb_ = crate.fn(p)
        if bb_ is None:
            continue
        for x in sorted(bb_.reachable):
            for tgt, atom, val in bb_.switch_edges(x):
                for s in mir.subexprs(atom):
                    if s[0] == "const":
                        ch = const_char(s)
                        if ch:
                            consts.add(ch)
                        st = const_str(s)
                        if st and len(st) == 1:
                            consts.add(st)
    for ch in ("|", ";", "#", "'", "\"", "`", "\\", " ", "(", ")", "$", "{", "}", ",", "~", "&"):
        ctx.ob("R20-1", "tokenizer/expansion", "anchor: code still branches on %r" % ch, ch in consts,
               key="R20-1|anchor|%r" % ch, crate=crate.kind, nontrivial=False)


# character-class predicates: the characters they accept (as far as the rule needs them).  Only the
# whitespace family is decided: a blank is a word separator for the tokenizer whatever branch tests it.
_UNI_WS = "\t\n\x0b\x0c\r \x85\xa0\u1680" + "".join(chr(c) for c in range(0x2000, 0x200b)) + "\u2028\u2029\u202f\u205f\u3000"
PRED_SETS = {"is_whitespace": _UNI_WS, "is_ascii_whitespace": "\t\n\x0c\r ", "is_line_end": "\n\r"}
SPLITTERS = {"split_whitespace": "is_whitespace", "split_ascii_whitespace": "is_ascii_whitespace", "lines": "is_line_end"}
TOKENIZERS = ("parsers::parser_line::parse_line", "parsers::parser_line::line_to_cmds")


def _is_char_expr(b, e):
    """a non-constant expression that denotes a character read from the line (item of chars()/enumerate())"""
    e = mir.peel(strip_sites(e))
    if e[0] == "const":
        return False
    for s in mir.subexprs(e):
        if s[0] == "call" and last_seg(s[1]) in ("next", "nth", "peek", "last") and any(
                k in s[1] for k in ("Enumerate", "Chars", "Iterator", "Peekable", "CharIndices")):
            return True
    return False


def char_tests(b):
    """(equality constants, predicate names) applied in branch conditions to characters of the line"""
    eqs, preds = {}, {}
    for x in sorted(b.reachable):
        for tgt, atom, val in b.switch_edges(x):
            for s in mir.subexprs(atom):
                if s[0] == "bin" and s[1] in ("Eq", "Ne"):
                    for u, v in ((s[2], s[3]), (s[3], s[2])):
                        ch = const_char(v)
                        if ch and _is_char_expr(b, u):
                            eqs.setdefault(ch, b.loc(x))
                elif s[0] == "call" and "char" in s[1] and last_seg(s[1]).startswith("is_") and s[2] \
                        and _is_char_expr(b, s[2][0]):
                    preds.setdefault(last_seg(s[1]), b.loc(x))
                elif s[0] == "call" and last_seg(s[1]) in ("matches", "contains") and len(s[2]) == 2 and \
                        _is_char_expr(b, s[2][0]):
                    preds.setdefault("%s(..)" % last_seg(s[1]), b.loc(x))
    return eqs, preds


def splitter_preds(crate, b):
    """word-splitting library calls made by the tokenizer or by the local helpers it builds its result with (one level
    of local callees returning the token list): they split at their whole character family"""
    out = {}
    scope = [b]
    for bb, t, c in b.calls():
        ci = b.callee_info(t)
        if ci is not None and ci.get("local"):
            cb = crate.fn(ci["resolved"])
            if cb is not None and cb not in scope and "LineInfo" in b.locals[t["dest"]["l"]]["ty"]:
                scope.append(cb)
    for fb in scope:
        for bb, t, c in fb.calls():
            ls = last_seg(c)
            if ls in SPLITTERS and "str" in c:
                out.setdefault("%s (via %s in %s)" % (SPLITTERS[ls], ls, fb.path.split("::")[-1]), fb.loc(bb))
    return out


def tokenizer_rule(ctx, crate, cls):
    n = 0
    for p in TOKENIZERS:
        b = crate.fn(p)
        if not ctx.require(b is not None, "R20-4", "R20-4|anchor|%s" % p, "%s not found" % p):
            continue
        ctx.analysed(b)
        eqs, preds = char_tests(b)
        n += len(eqs)
        for ch, where in sorted(eqs.items()):
            ok = ch in cls
            ctx.ob("R20-4", p, "tokenizer tests the character it reads against %r: the escaper covers it" % ch, ok,
                   key="R20-4|%s|eq|%s" % (p, ch), where=where, crate=crate.kind,
                   detail=None if ok else "a completed name containing %r is inserted unescaped and split / re-read there" % ch)
        preds.update({k: v for k, v in splitter_preds(crate, b).items() if k not in preds})
        for name, where in sorted(preds.items()):
            accepted = PRED_SETS.get(name.split(" (via")[0])
            if accepted is None:
                ctx.notes.append("R20-4: %s applies the class test %s to a character; not decided (only the whitespace "
                                 "family is)" % (p, name))
                continue
            missing = [c for c in accepted if c not in cls]
            ctx.ob("R20-4", p, "class test %s accepts only characters the escaper covers" % name, not missing,
                   key="R20-4|%s|pred|%s" % (p, name), where=where, crate=crate.kind,
                   detail=None if not missing else "the tokenizer acts on %s, which escape_path leaves bare: a file name "
                   "containing one (e.g. a TAB or U+3000) is completed to a word that is read back as two" %
                   ", ".join("U+%04X" % ord(c) for c in missing[:6]))
    ctx.floor("R20-4", crate, "tokenizer character tests", n, 20)


def quote_rule(ctx, crate):
    chars, tagchar = escape_set_for_untagged(ctx, crate)
    w = crate.fn("tools::wrap_sep_string")
    if not ctx.require(w is not None, "R20-2", "R20-2|anchor", "tools::wrap_sep_string not found"):
        return
    # which characters are escaped when sep is a quote: the tag character itself, plus constants compared
    # under a non-empty-sep guard
    extra = set()
    for bb, t, c in w.calls():
        if last_seg(c) == "push" and "String" in c and const_char(w.call_args(bb)[1]) == "\\":
            facts = dom_facts(w, bb)
            empties = [v for a, v in facts if a[0] == "call" and last_seg(a[1]) == "is_empty"]
            if True in empties:
                continue
            for a, v in facts:
                if a[0] == "bin" and a[1] == "Eq" and v is True and const_char(a[3]):
                    extra.add(const_char(a[3]))
    from .c16 import _wrapsep
    W = _wrapsep(crate)
    for q, table in (("\"", DQ_SPECIAL), ("'", SQ_SPECIAL)):
        if W.ok:
            extra = W.tagged_extra(q)
        for ch, why in sorted(table.items()):
            ok = (ch == q and bool(tagchar)) or ch in extra
            ctx.ob("R20-2", w.path, "inside %s: %r is escaped (%s)" % (q, ch, why), ok,
                   key="R20-2|%s|inside %s|%s" % (w.path, q, ch), crate=crate.kind,
                   detail=None if ok else "completing a name that contains %r inside an open %s quote inserts it raw" % (ch, q))


def candidate_rule(ctx, crate):
    b = crate.fn("completers::path::complete_path")
    if not ctx.require(b is not None, "R20-3", "R20-3|anchor", "completers::path::complete_path not found"):
        return
    ctx.analysed(b)
    pushes = [bb for bb, t, c in b.calls() if last_seg(c) == "push" and "Vec" in c and
              any(s[0] == "agg" and "Completion" in s[1] for a in b.call_args(bb) for s in mir.subexprs(strip_sites(a)))]
    if not ctx.require(len(pushes) >= 1, "R20-3", "R20-3|%s|push" % b.path, "no push of a Completion found", b.path):
        return
    facts = dom_facts(b, pushes[0])
    pref = any(a[0] == "call" and last_seg(a[1]) == "starts_with" and v is True for a, v in facts)
    contains = any(a[0] == "call" and last_seg(a[1]) in ("contains", "ends_with") and v is True for a, v in facts)
    ctx.ob("R20-3", b.path, "a candidate is offered only if the entry name starts_with the typed prefix", pref and not contains,
           key="R20-3|%s|prefix" % b.path, where=b.loc(pushes[0]), crate=crate.kind)
    # for_dir && !is_dir -> skipped: on every path to the push, not(for_dir and not is_dir)
    from ..mir import FactWalker
    fd = None
    for l in range(1, b.arg_count + 1):
        if b.locals[l]["ty"] == "bool":
            fd = b.local_expr(l)
    isdir = [bb for bb, t, c in b.calls() if last_seg(c) == "is_dir"]
    ok = False
    if fd is not None and isdir:
        idx = strip_sites(b.call_expr(isdir[0]))
        rel = lambda a: a == strip_sites(fd) or a == idx or b.expand_vars(a) == b.expand_vars(idx)
        w = FactWalker(b, rel)
        loop_h = None
        for h, blocks in b.loops().items():
            if pushes[0] in blocks and (loop_h is None or len(blocks) < len(b.loops()[loop_h])):
                loop_h = h
        states = w.run(loop_h if loop_h is not None else 0)
        ok = True
        seen_push = False
        for x, f2 in states:
            if x == pushes[0]:
                seen_push = True
                d = {}
                for a, v in f2:
                    d["fd" if a == strip_sites(fd) else "dir"] = v
                # on every path to the push: either directories were not asked for, or the entry is one
                if not (d.get("fd") is False or d.get("dir") is True):
                    ok = False
        ok = ok and seen_push
    ctx.ob("R20-3", b.path, "non-directories are skipped when only directories are wanted (cd)", ok,
           key="R20-3|%s|for_dir" % b.path, crate=crate.kind)
    sorts = [bb for bb, t, c in b.calls() if last_seg(c).startswith("sort")]
    ok = bool(sorts) and all(flow.must_pass(b, pushes[0], set(sorts), set(b.exits())) for _ in (0,))
    ctx.ob("R20-3", b.path, "the candidate list is sorted before it is returned", ok, key="R20-3|%s|sorted" % b.path,
           crate=crate.kind)
    # escaping route
    esc = [bb for bb, t, c in b.calls() if c == "tools::escape_path"]
    wrp = [bb for bb, t, c in b.calls() if c == "tools::wrap_sep_string"]
    ok1 = bool(esc) and any(a[0] == "call" and last_seg(a[1]) == "is_empty" and v is True for a, v in dom_facts(b, esc[0]))
    ok2 = bool(wrp) and any(a[0] == "call" and last_seg(a[1]) == "is_empty" and v is False for a, v in dom_facts(b, wrp[0]))
    ctx.ob("R20-3", b.path, "unquoted names are escaped with escape_path, names inside an open quote with wrap_sep_string",
           ok1 and ok2, key="R20-3|%s|route" % b.path, crate=crate.kind)


def _option_quote_state(ctx, crate, b, loop, cexpr):
    """the same obligations when the open quote is remembered as an Option<char> (None = no quote open) instead of a bool
    plus a char: opened = assigned Some(cursor character) only under `state is None`; closed = assigned None only under
    `payload == cursor character`; a space separates words only under `state is None`.  Returns False when the function
    keeps no such local (the bool form is analysed by the caller)."""
    states = [l for l, loc in enumerate(b.locals) if loc["ty"] == "std::option::Option<char>" and l in b.names and
              any(bi in loop for bi, si in b.defs.get(l, []))]
    if not states:
        return False

    def same_char(e):
        e = b.expand_vars(strip_sites(e))
        return e == cexpr or b.expand_vars(cexpr) == e

    for l in states:
        name = b.names.get(l)
        opened, closed, other = [], [], []
        for bi, si in b.defs.get(l, []):
            if bi not in loop or si == "T":
                (other if bi in loop else []).append(bi)
                continue
            e = strip_sites(b.def_expr(bi, si))
            if e[0] == "agg" and e[1].endswith("Option::Some") and e[2] and same_char(e[2][0]):
                opened.append(bi)
            elif e[0] == "agg" and e[1].endswith("Option::None"):
                closed.append(bi)
            else:
                other.append(bi)

        def state_is(facts, want):
            for a, v in facts:
                a2 = strip_sites(a)
                if a2[0] == "discr" and mir.root_local_expr(a2[1]) == l and v == want:
                    return True
                if a2[0] == "call" and last_seg(a2[1]) in ("is_none", "is_some") and a2[2] and \
                        mir.root_local_expr(b.expand_vars(a2[2][0])) == l and isinstance(v, bool):
                    if (last_seg(a2[1]) == "is_none") == (v == (want == "None")):
                        return True
            return False
        ok_open = bool(opened) and all(state_is(dom_facts(b, bi, within=loop), "None") for bi in opened)
        ok_close = bool(closed)
        for bi in closed:
            good = False
            for a, v in dom_facts(b, bi, within=loop):
                a2 = strip_sites(a)
                if a2[0] == "bin" and a2[1] == "Eq" and v is True:
                    for x, y in ((a2[2], a2[3]), (a2[3], a2[2])):
                        xe = b.expand_vars(x)
                        if same_char(y) and any(s_[0] == "downcast" and s_[1] == "Some" and mir.root_local_expr(s_[2]) == l
                                                for s_ in mir.subexprs(xe)):
                            good = True
            ok_close = ok_close and good
        # a space counts as a separator only while no quote is open
        gate = False
        for bi, si, st in b.stmts():
            if bi in loop and st["k"] == "assign" and not st["place"]["p"] and b.locals[st["place"]["l"]]["ty"] == "bool" \
                    and mir.const_bool(b.rvalue_expr(st["rv"])) is True:
                facts = dom_facts(b, bi, within=loop)
                if any(strip_sites(a)[0] == "bin" and strip_sites(a)[1] == "Eq" and v is True and same_char(strip_sites(a)[2])
                       and const_char(strip_sites(a)[3]) == " " for a, v in facts):
                    gate = state_is(facts, "None")
        ctx.ob("R20-6", b.path, "quote state `%s`: a space separates words only while no quote is open" % name, gate,
               key="R20-6|%s|quote-gates-space|%s" % (b.path, name), crate=crate.kind)
        ctx.ob("R20-6", b.path, "quote state `%s`: a quote character opens a quoted region only when none is open" % name, ok_open,
               key="R20-6|%s|quote-open-guard|%s" % (b.path, name), crate=crate.kind, where=b.loc((opened or [0])[0]),
               detail=None if ok_open else "inside an open quote the other quote character replaces the remembered one: a "
               "second such character then closes the region and the next space splits the word being completed")
        ok = ok_close and bool(opened) and not other
        ctx.ob("R20-6", b.path, "quote state `%s`: opened together with remembering the character, closed only by that "
                                "character" % name, ok, key="R20-6|%s|quote-state|%s" % (b.path, name), crate=crate.kind,
               where=b.loc((other or closed or opened or [0])[0]),
               detail=None if ok else "inside an open quote the other quote character (an apostrophe in a double-quoted name) "
               "ends the quoted region for the word-start search: the next space splits the word being completed")
    return True


def quote_state_rule(ctx, crate):
    b = crate.fn("completers::escaped_word_start")
    if b is None:
        return
    # the loop and the cursor character
    nb = None
    for bb, t, c in b.calls():
        if last_seg(c) == "next" and ("Enumerate" in c or "CharIndices" in c):
            nb = bb
    if not ctx.require(nb is not None, "R20-6", "R20-6|%s|loop" % b.path, "character loop not found", b.path):
        return
    loop = None
    for h, blocks in b.loops().items():
        if nb in blocks and (loop is None or len(blocks) > len(loop)):
            loop = blocks
    cexpr = mir.fld(1, mir.fld(0, ("downcast", "Some", strip_sites(b.call_expr(nb))), "0"))
    if _option_quote_state(ctx, crate, b, loop, cexpr):
        return
    # the quote-state flag: a bool local that must be false for a space to count as a word separator, and that is
    # not the backslash flag (the one set under `c == '\\'`)
    gate = set()
    for bi, si, st in b.stmts():
        if bi in loop and st["k"] == "assign" and not st["place"]["p"] and b.locals[st["place"]["l"]]["ty"] == "bool" \
                and mir.const_bool(b.rvalue_expr(st["rv"])) is True:
            facts = dom_facts(b, bi, within=loop)
            if any(strip_sites(a)[0] == "bin" and strip_sites(a)[1] == "Eq" and v is True and strip_sites(a)[2] == cexpr
                   and const_char(strip_sites(a)[3]) == " " for a, v in facts):
                for a, v in facts:
                    if a[0] == "var" and v is False and b.locals[a[1]]["ty"] == "bool":
                        gate.add(a[1])
    flags = {}
    for l in gate:
        bs = False
        for bi, si in b.defs.get(l, []):
            if bi in loop:
                for a, v in dom_facts(b, bi, within=loop):
                    a2 = strip_sites(a)
                    if a2[0] == "bin" and a2[1] == "Eq" and v is True and a2[2] == cexpr and const_char(a2[3]) == "\\":
                        bs = True
        if not bs:
            flags[l] = []
    for bi, si, st in b.stmts():
        if bi in loop and st["k"] == "assign" and not st["place"]["p"] and st["place"]["l"] in flags:
            flags[st["place"]["l"]].append((bi, si, st))
    if not ctx.require(bool(flags), "R20-6", "R20-6|%s|flag" % b.path, "no quote-state flag found in the word-start scanner", b.path):
        return
    for l, assigns in sorted(flags.items()):
        name = b.names.get(l) or "_%d" % l
        opened, closed, other = [], [], []
        for bi, si, st in assigns:
            v = mir.const_bool(b.rvalue_expr(st["rv"]))
            (opened if v is True else closed if v is False else other).append(bi)
        # the remembered quote: a char local assigned the cursor character in an opening block
        remembered = set()
        for bi in opened:
            for st in b.blocks[bi]["stmts"]:
                if st["k"] == "assign" and not st["place"]["p"] and b.locals[st["place"]["l"]]["ty"] == "char" and \
                        strip_sites(b.rvalue_expr(st["rv"])) == cexpr:
                    remembered.add(st["place"]["l"])
        ok_close = bool(closed)
        for bi in closed:
            good = False
            for a, v in dom_facts(b, bi, within=loop):
                a2 = strip_sites(a)
                if a2[0] == "bin" and a2[1] == "Eq" and v is True:
                    x, y = a2[2], a2[3]
                    if (x == cexpr and y[0] == "var" and y[1] in remembered) or (y == cexpr and x[0] == "var" and x[1] in remembered):
                        good = True
            ok_close = ok_close and good
        # opened (and the remembered character replaced) only while no quote is open
        ok_open = bool(opened)
        for bi in opened:
            ok_open = ok_open and any(strip_sites(a) == ("var", l, b.names.get(l)) and v is False or
                                      (strip_sites(a)[0] == "var" and strip_sites(a)[1] == l and v is False)
                                      for a, v in dom_facts(b, bi, within=loop))
        ctx.ob("R20-6", b.path, "quote state `%s`: a quote character opens a quoted region only when none is open" % name, ok_open,
               key="R20-6|%s|quote-open-guard|%s" % (b.path, name), crate=crate.kind, where=b.loc((opened or [0])[0]),
               detail=None if ok_open else "inside an open quote the other quote character replaces the remembered one: a "
               "second such character then closes the region and the next space splits the word being completed")
        ok = bool(opened) and bool(remembered) and ok_close and not other
        ctx.ob("R20-6", b.path, "quote state `%s`: opened together with remembering the character, closed only by that "
                                "character" % name, ok, key="R20-6|%s|quote-state|%s" % (b.path, name), crate=crate.kind,
               where=b.loc((other or closed or opened or [0])[0]),
               detail=None if ok else "inside an open quote the other quote character (an apostrophe in a double-quoted name) "
               "ends the quoted region for the word-start search: the next space splits the word being completed")


def cd_prefix_rule(ctx, crate):
    b = crate.fn("completers::for_cd")
    if not ctx.require(b is not None, "R20-7", "R20-7|anchor", "completers::for_cd not found"):
        return
    ctx.analysed(b)
    lit = None
    for bb, t, c in b.calls():
        if last_seg(c) in ("re_contains", "is_match", "new"):
            for a in b.call_args(bb):
                if const_str(a) is not None and "cd" in const_str(a):
                    lit = const_str(a)
    if not ctx.require(lit is not None, "R20-7", "R20-7|%s|pattern" % b.path, "the pattern of for_cd is not a literal", b.path):
        return
    sh = refacts.info(lit).get("shape") or {}
    items = sh.get("of") if sh.get("k") == "concat" else []
    ok = False
    detail = "pattern %r" % lit
    if items and items[0].get("k") == "look" and items[0].get("v") == "Start":
        idx = [i for i, x in enumerate(items) if x.get("k") == "lit" and x.get("v") == "cd"]
        if idx:
            rest = items[idx[0] + 1:]
            def blanks(x):
                o = x.get("of", {})
                return x.get("k") == "rep" and x.get("min", 0) >= 1 and (
                    (o.get("k") == "lit" and o.get("v") == " ") or (o.get("k") == "class" and " " not in o.get("excl", " ")))
            ok = len(rest) == 1 and blanks(rest[0])
            if not ok:
                detail = "pattern %r constrains the text after `cd `: for some arguments (a blank inside an open quote) the " \
                         "generic completer takes over and offers plain files" % lit
    ctx.ob("R20-7", b.path, "for_cd is the prefix test ^ *cd + with nothing after it", ok,
           key="R20-7|%s|prefix-test" % b.path, crate=crate.kind, detail=None if ok else detail)
