"""C06 - the job table tracks exactly the live jobs (structural necessary conditions)."""
from .. import flow, mir
from ..mir import const_int, last_seg, render, strip_sites
from .c02 import dom_facts

EXPLANATION = ("C06: structural necessary conditions of job tracking decided on all paths: the pid lookup used when a "
               "process ends does not assume an ordering the writers do not maintain; the four child-event kinds are "
               "parked in matching maps by both reapers and all four are drained per pid; the maps are touched from "
               "the main loop only while SIGCHLD is blocked; smallest-free-id allocation; the all-stopped predicate. "
               "What the table is after an arbitrary interleaving of events is a model-checking question and is not decided.")

KINDS = {"Exited": "insert_reap_map", "Stopped": "insert_stopped_map", "Continued": "insert_cont_map",
         "Signaled": "killed_map_insert"}
PREDS = {"is_exited": "Exited", "is_stopped": "Stopped", "is_continued": "Continued", "is_signaled": "Signaled"}
PAIRS = {"insert_reap_map": "pop_reap_map", "insert_stopped_map": "pop_stopped_map",
         "insert_cont_map": "pop_cont_map", "killed_map_insert": "killed_map_pop"}


def run(ctx):
    ctx.rule("R06-1", "the search that removes a pid from Job.pids must not rely on an ordering: pids are appended in "
                      "launch order (vec![pid], push), so binary_search may miss a member")
    ctx.rule("R06-2", "wait_fg_job (non-foreground child) and handle_sigchld park Exited/Stopped/Continued/Signaled in the "
                      "same four maps; each insert/pop pair uses the same static; try_wait_bg_jobs pops all four per pid")
    ctx.rule("R06-3", "in main, between unblock_signals() and the next block_signals() only read_line runs: no call that "
                      "can reach the event maps executes with SIGCHLD deliverable")
    ctx.rule("R06-4", "insert_job: id search starts at 1, steps by 1, inserts at the first vacant id, or appends the pid "
                      "to the job with the same group id")
    ctx.rule("R06-5", "Job::all_members_stopped is false exactly when some pid is not in pids_stopped; the job is marked "
                      "stopped only under it")
    ctx.rule("R06-7", "lookups by group id see every job whatever its id: they iterate the table, or scan ids up to a constant "
                      "bound - never up to jobs.len(), which is smaller than the highest id once a lower-numbered job has "
                      "finished")
    ctx.rule("R06-6", "Job.pids stays in launch order (fg hands it to wait_fg_job, which takes pids.last() for the stage whose "
                      "status counts): crate-wide, the vector is only appended to and shortened by order-preserving "
                      "removal - no swap_remove / sort / reverse / rotate / swap / insert")
    ctx.rule("R06-9", "the per-member stop marks are exact: Shell::mark_job_member_stopped changes pids_stopped only by "
                      "insert(<its pid argument>), mark_job_member_continued only by remove(<its pid argument>) - no clear / "
                      "retain / other key (the job is reported Stopped / Running from these marks)")
    ctx.rule("R06-8", "an event parked for a process stays parked until that process's job takes it: crate-wide, the four "
                      "event maps are changed only by insert (the reapers) and by remove of one pid (the pops) - no clear / "
                      "retain / drain / take / replace of a whole map.  (A `continued` parked next to a `stopped` for the "
                      "same pid is taken on the following poll; wiping the maps after a poll leaves a running job shown "
                      "Stopped.)")
    for crate in ctx.crates:
        order_rule(ctx, crate)
        member_marks_rule(ctx, crate)
        map_mutation_rule(ctx, crate)
        id_scan_rule(ctx, crate, "R06-7")
        lookup_rule(ctx, crate)
        routing_rule(ctx, crate)
        if crate.kind == "bin":
            mask_rule(ctx, crate)
        insert_rule(ctx, crate)
        stopped_rule(ctx, crate)


def lookup_rule(ctx, crate):
    b = crate.fn("shell::Shell::remove_pid_from_job")
    if not ctx.require(b is not None, "R06-1", "R06-1|anchor", "Shell::remove_pid_from_job not found"):
        return
    ctx.analysed(b)
    n = 0
    for bb, t, c in b.calls():
        ls = last_seg(c)
        args = b.call_args(bb)
        if ls in ("remove", "swap_remove") and "Vec" in c and args:
            recv = b.expand_vars(strip_sites(args[0]))
            if not any(sub[0] == "field" and mir.field_name(sub) == "pids" for sub in mir.subexprs(recv)):
                continue
            n += 1
            idx = b.expand_vars(strip_sites(args[1]))
            how = None
            for sub in mir.subexprs(idx):
                if sub[0] == "call" and last_seg(sub[1]) in ("binary_search", "binary_search_by", "binary_search_by_key",
                                                             "partition_point"):
                    how = last_seg(sub[1])
                if sub[0] == "call" and last_seg(sub[1]) in ("position", "rposition") and how is None:
                    how = "linear:" + last_seg(sub[1])
            ok = how is not None and how.startswith("linear")
            sorted_writers = writers_keep_sorted(crate)
            if how is not None and not how.startswith("linear") and sorted_writers:
                ok = True
            ctx.ob("R06-1", b.path, "pid lookup for removal is order-independent (uses %s)" % (how or "unknown search"), ok,
                   key="R06-1|%s|pid-lookup" % b.path, where=b.loc(bb), crate=crate.kind,
                   detail=None if ok else "Job.pids is filled by vec![pid] and push() in launch order; pids are not "
                                          "monotone (pid wrap-around), so a finished member can be missed and the job never leaves the table")
        if ls == "retain" and args:
            recv = b.expand_vars(strip_sites(args[0]))
            if any(sub[0] == "field" and mir.field_name(sub) == "pids" for sub in mir.subexprs(recv)):
                n += 1
                ctx.ob("R06-1", b.path, "pid removal by retain() is order-independent", True,
                       key="R06-1|%s|pid-lookup" % b.path, where=b.loc(bb), crate=crate.kind)
    ctx.require(n >= 1, "R06-1", "R06-1|%s|anchor2" % b.path, "no removal from Job.pids found in remove_pid_from_job", b.path)


def writers_keep_sorted(crate):
    """do all writers of Job.pids keep it sorted? (insert at a binary_search position or sort after push)"""
    for b in crate.fns():
        for bb, t, c in b.calls():
            if last_seg(c) == "push" and "Vec" in c:
                a = b.call_args(bb)
                recv = b.expand_vars(strip_sites(a[0]))
                if any(sub[0] == "field" and mir.field_name(sub) == "pids" for sub in mir.subexprs(recv)):
                    # a push must be followed by a sort of the same vector on every path
                    sorts = {x for x, t2, c2 in b.calls() if last_seg(c2).startswith("sort")}
                    if not sorts or not flow.must_pass(b, b.succs[bb][0], sorts, set(b.exits())):
                        return False
    return True


def routing_rule(ctx, crate):
    wj = crate.fn("jobc::wait_fg_job")
    hs = crate.fn("signals::handle_sigchld")
    tw = crate.fn("jobc::try_wait_bg_jobs")
    if not ctx.require(wj is not None and hs is not None and tw is not None, "R06-2", "R06-2|anchor",
                       "wait_fg_job / handle_sigchld / try_wait_bg_jobs not found"):
        return
    for b in (wj, hs, tw):
        ctx.analysed(b)
    # wait_fg_job: insert calls and the predicate facts that dominate them
    got = {}
    for bb, t, c in wj.calls():
        ls = last_seg(c)
        if ls in PAIRS:
            facts = dom_facts(wj, bb)
            kinds = [PREDS[last_seg(a[1])] for a, v in facts if a[0] == "call" and last_seg(a[1]) in PREDS and v is True]
            nonfg = any(a[0] == "call" and last_seg(a[1]) == "contains" and v is False for a, v in facts)
            got.setdefault(ls, []).append((kinds, nonfg, bb))
    for kind, fn in KINDS.items():
        hits = got.get(fn, [])
        ok = bool(hits) and all(kinds and kinds[-1] == kind and nonfg for kinds, nonfg, bb in hits)
        wrong = [(fn2, ks) for fn2, lst in got.items() for ks, nf, bb in lst if ks and ks[-1] == kind and fn2 != fn]
        ctx.ob("R06-2", wj.path, "%s event of a non-foreground child is parked with %s" % (kind, fn), ok and not wrong,
               key="R06-2|%s|%s" % (wj.path, kind), crate=crate.kind,
               detail="parked with %s" % wrong[0][0] if wrong else None)
    # handle_sigchld: match arms
    got = {}
    for bb, t, c in hs.calls():
        ls = last_seg(c)
        if ls in PAIRS:
            facts = dom_facts(hs, bb)
            kinds = [v for a, v in facts if a[0] == "discr" and v in KINDS]
            got.setdefault(ls, []).append(kinds)
    for kind, fn in KINDS.items():
        hits = got.get(fn, [])
        ok = bool(hits) and all(k and k[-1] == kind for k in hits)
        wrong = [fn2 for fn2, lst in got.items() for k in lst if k and k[-1] == kind and fn2 != fn]
        ctx.ob("R06-2", hs.path, "%s event is parked with %s by the SIGCHLD handler" % (kind, fn), ok and not wrong,
               key="R06-2|%s|%s" % (hs.path, kind), crate=crate.kind,
               detail="parked with %s" % wrong[0] if wrong else None)
    # insert/pop pairs use the same static map
    for ins, pop in PAIRS.items():
        bi = crate.fn("signals::" + ins)
        bp = crate.fn("signals::" + pop)
        si = statics_used(bi) if bi else set()
        sp = statics_used(bp) if bp else set()
        ctx.ob("R06-2", "signals::" + ins, "%s and %s lock the same map (%s)" % (ins, pop, ", ".join(sorted(si)) or "?"),
               bool(si) and si == sp and len(si) == 1, key="R06-2|signals|pair|%s" % ins, crate=crate.kind)
    maps = {}
    for ins in PAIRS:
        bi = crate.fn("signals::" + ins)
        for s in (statics_used(bi) if bi else ()):
            maps.setdefault(s, []).append(ins)
    ctx.ob("R06-2", "signals", "the four event kinds use four distinct maps", len(maps) == 4 and all(len(v) == 1 for v in maps.values()),
           key="R06-2|signals|distinct-maps", crate=crate.kind)
    # try_wait_bg_jobs pops all four for the pids of every job
    pops = {last_seg(c) for bb, t, c in tw.calls()}
    for pop in PAIRS.values():
        ctx.ob("R06-2", tw.path, "try_wait_bg_jobs drains with %s" % pop, pop in pops,
               key="R06-2|%s|%s" % (tw.path, pop), crate=crate.kind, nontrivial=False)
    # each pop is inside the loop over job.pids and takes the loop's pid
    inner = None
    for h, blocks in tw.loops().items():
        for bb in blocks:
            t = tw.term(bb)
            if t["k"] == "call" and last_seg(tw.callee(t)) == "next":
                it = tw.call_args(bb)[0]
                if flow.backward(tw, it, lambda e: flow.is_field_named(e, "pids")) is not None:
                    if inner is None or len(blocks) < len(inner[1]):
                        inner = (h, blocks)
    if ctx.require(inner is not None, "R06-2", "R06-2|%s|pid-loop" % tw.path, "no loop over job.pids in try_wait_bg_jobs", tw.path):
        for bb, t, c in tw.calls():
            if last_seg(c) in PAIRS.values():
                ctx.ob("R06-2", tw.path, "%s is applied to every pid of every job" % last_seg(c), bb in inner[1],
                       key="R06-2|%s|in-loop|%s" % (tw.path, last_seg(c)), where=tw.loc(bb), crate=crate.kind)


def statics_used(b):
    out = set()
    for bb, t, c in b.calls():
        sc = mir.short(c)
        if sc.endswith("::deref") and "signals::" in sc:
            out.add(sc.split("::")[-2])
    return out


def mask_rule(ctx, crate):
    m = crate.fn("main")
    if not ctx.require(m is not None, "R06-3", "R06-3|anchor", "main not found"):
        return
    ctx.analysed(m)
    targets = {"signals::" + x for x in list(PAIRS) + list(PAIRS.values())}
    g = crate.callgraph()

    def reaches_maps(path):
        return bool(crate.reachable_from([path]) & targets)

    unblocks = flow.find_calls(m, "unblock_signals")
    blocks_ = set(flow.find_calls(m, "block_signals"))
    ctx.require(len(unblocks) >= 1 and blocks_, "R06-3", "R06-3|main|anchor2", "no unblock_signals/block_signals pair in main", "main")
    bad = []
    for ub in unblocks:
        # walk with the branch facts that guard the unblock call (the same flag guards the re-block)
        flagish = lambda a: a[0] in ("var", "param") or (a[0] == "call" and not a[2])
        init = frozenset((a, v) for a, v in dom_facts(m, ub) if flagish(a))
        w = mir.FactWalker(m, flagish, cut_back_edges=False)

        def step(x, facts):
            if x in blocks_ and x != ub:
                return []
            t = m.term(x)
            if t["k"] == "call" and x != ub:
                ci = m.callee_info(t)
                if ci is not None and ci.get("local") and reaches_maps(ci["resolved"]):
                    bad.append((x, ci["resolved"]))
            return w.step(x, facts)

        mir.explore(m, ub, init, step)
    ctx.ob("R06-3", "main", "no call that reaches the event maps runs while SIGCHLD is unblocked", not bad,
           key="R06-3|main|unblocked-window", crate=crate.kind,
           detail=("%s is called at %s with SIGCHLD deliverable: the handler's try_lock may fail and drop the event"
                   % (bad[0][1], m.loc(bad[0][0]))) if bad else None)
    # the handler is installed only together with an initial block
    setup = flow.find_calls(m, "setup_sigchld_handler")
    if setup:
        ok = flow.must_pass(m, m.succs[setup[0]][0], blocks_, set(flow.find_calls(m, "read_line")))
        ctx.ob("R06-3", "main", "SIGCHLD is blocked right after the handler is installed", ok,
               key="R06-3|main|initial-block", where=m.loc(setup[0]), crate=crate.kind)


def insert_rule(ctx, crate):
    b = crate.fn("shell::Shell::insert_job")
    if not ctx.require(b is not None, "R06-4", "R06-4|anchor", "Shell::insert_job not found"):
        return
    ctx.analysed(b)
    ins = [bb for bb, t, c in b.calls() if last_seg(c) == "insert" and "HashMap" in c]
    if not ctx.require(len(ins) == 1, "R06-4", "R06-4|%s|insert" % b.path, "expected one jobs.insert in insert_job", b.path):
        return
    key = strip_sites(b.call_args(ins[0])[1])
    ok_var = key[0] == "var"
    start = step = None
    if ok_var:
        for bi, si in b.defs.get(key[1], []):
            e = strip_sites(b.def_expr(bi, si))
            c = const_int(e)
            if c is not None:
                start = c
            elif e[0] == "bin" and e[1] == "Add" and e[2] == key:
                step = const_int(e[3])
            else:
                step = "other"
    ctx.ob("R06-4", b.path, "id search starts at 1 and steps by 1 (start=%s step=%s)" % (start, step),
           ok_var and start == 1 and step == 1, key="R06-4|%s|search" % b.path, crate=crate.kind)
    # inserted under "no job with this id", with id field = the searched id
    facts = dom_facts(b, ins[0])
    vacant = any((a[0] == "discr" and v == "None" and any(s[0] == "call" and last_seg(s[1]) in ("get", "get_mut", "contains_key")
                                                            for s in mir.subexprs(a)))
                 or (a[0] == "call" and last_seg(a[1]) == "contains_key" and v is False) for a, v in facts)
    # the vacancy flag may be a bool variable set on the None arm
    if not vacant:
        for a, v in facts:
            if a[0] == "var" and v is True:
                for bi, si in b.defs.get(a[1], []):
                    e = b.def_expr(bi, si)
                    if mir.const_bool(e) is True:
                        f2 = dom_facts(b, bi)
                        if any(x[0] == "discr" and val == "None" for x, val in f2):
                            vacant = True
    val = strip_sites(b.call_args(ins[0])[2])
    id_ok = val[0] == "agg" and "Job" in val[1] and any(o == key for o in val[2])
    ctx.ob("R06-4", b.path, "a new job is inserted at the first vacant id and carries that id", vacant and id_ok,
           key="R06-4|%s|vacant" % b.path, where=b.loc(ins[0]), crate=crate.kind)
    # same-gid append
    pushes = [bb for bb, t, c in b.calls() if last_seg(c) == "push" and "Vec" in c]
    ok = False
    for pb in pushes:
        facts = dom_facts(b, pb)
        if any(a[0] == "bin" and a[1] == "Eq" and v is True and "gid" in render(a) for a, v in facts):
            ok = True
    ctx.ob("R06-4", b.path, "a later stage's pid is appended to the job with the same group id", ok,
           key="R06-4|%s|same-gid" % b.path, crate=crate.kind)


def stopped_rule(ctx, crate):
    b = crate.fn("types::Job::all_members_stopped")
    if not ctx.require(b is not None, "R06-5", "R06-5|anchor", "Job::all_members_stopped not found"):
        return
    ctx.analysed(b)
    rets = {True: [], False: []}
    other = []
    functional = False
    for bi, si in b.defs.get(0, []):
        v = mir.const_bool(b.def_expr(bi, si))
        if v is None:
            # functional form: self.pids.iter().all(|p| self.pids_stopped.contains(p))
            e = b.expand_vars(mir.strip_sites(b.def_expr(bi, si)))
            fn_all = e[0] == "call" and last_seg(e[1]) == "all" and any(
                flow.is_field_named(x, "pids") for x in mir.subexprs(e))
            cl_ok = False
            for cb in crate.closures_of(b.path):
                for ci, cs in cb.defs.get(0, []):
                    ce = cb.expand_vars(mir.strip_sites(cb.def_expr(ci, cs)))
                    if ce[0] == "call" and last_seg(ce[1]) == "contains" and "pids_stopped" in render(ce):
                        cl_ok = True
            if fn_all and cl_ok:
                functional = True
            else:
                other.append(bi)
        else:
            rets[v].append((bi, dom_facts(b, bi)))

    def on_stopped(a):
        return any(flow.is_field_named(s, "pids_stopped") for s in mir.subexprs(a))
    # false: a member is missing from the stopped set (or the set is empty - no member of a live job can be in it)
    ok_false = (functional or bool(rets[False])) and all(
        any(a[0] == "call" and on_stopped(a) and ((last_seg(a[1]) == "contains" and v is False) or
                                                  (last_seg(a[1]) == "is_empty" and v is True)) for a, v in facts)
        for bi, facts in rets[False])
    # true: only after the scan over the members has run to its end (never from a size comparison: pids_stopped keeps
    # the pids of members that have died since)
    ok_true = (functional or bool(rets[True])) and all(any(a[0] == "discr" and v == "None" and "next" in render(a) for a, v in facts)
                                       for bi, facts in rets[True])
    bad = [bi for bi, facts in rets[True] if not any(a[0] == "discr" and v == "None" and "next" in render(a) for a, v in facts)]
    ctx.ob("R06-5", b.path, "returns false exactly on a pid missing from pids_stopped, true after the whole scan "
                            "(%d true / %d false return(s))" % (len(rets[True]), len(rets[False])),
           ok_false and ok_true and not other, key="R06-5|%s|shape" % b.path, crate=crate.kind,
           where=b.loc((bad or other or [0])[0]),
           detail=None if ok_false and ok_true and not other else
           "a verdict that is not derived from the member scan (a count / emptiness shortcut): pids_stopped is not a subset "
           "of pids once a stopped member has died, so the job is shown Stopped while a member still runs")
    j = crate.fn("jobc::mark_job_member_stopped")
    if ctx.require(j is not None, "R06-5", "R06-5|anchor2", "jobc::mark_job_member_stopped not found"):
        ctx.analysed(j)
        calls = [bb for bb, t, c in j.calls() if last_seg(c) == "mark_job_as_stopped"]
        ok = bool(calls) and all(any(a[0] == "call" and last_seg(a[1]) == "all_members_stopped" and v is True
                                     for a, v in dom_facts(j, bb)) for bb in calls)
        ctx.ob("R06-5", j.path, "the job is marked Stopped only when all_members_stopped()", ok,
               key="R06-5|%s|escalation" % j.path, crate=crate.kind)


ORDER_BREAKING = {"swap_remove", "sort", "sort_by", "sort_by_key", "sort_unstable", "sort_unstable_by", "sort_unstable_by_key",
                  "reverse", "rotate_left", "rotate_right", "swap", "insert", "dedup", "dedup_by_key", "select_nth_unstable"}
ORDER_KEEPING = {"push", "remove", "retain", "drain", "pop", "truncate", "clear", "extend", "append"}


SET_MUTATORS = {"insert", "remove", "clear", "retain", "drain", "extend", "take", "replace", "swap", "get_or_insert_with"}


def member_marks_rule(ctx, crate):
    n = 0
    for name, want in (("mark_job_member_stopped", "insert"), ("mark_job_member_continued", "remove")):
        b = crate.fn("shell::Shell::" + name)
        if b is None:
            continue
        ctx.analysed(b)
        pid = None
        for l in range(1, b.arg_count + 1):
            if b.names.get(l) == "pid":
                pid = l
        if pid is None:
            ints = [l for l in range(1, b.arg_count + 1) if b.locals[l]["ty"] == "i32"]
            pid = ints[0] if ints else None
        muts = []
        for bb, t, c in b.calls():
            ls = last_seg(c)
            if ls in SET_MUTATORS and "HashSet" in c and b.call_args(bb) and any(
                    flow.is_field_named(x, "pids_stopped") for x in mir.subexprs(b.expand_vars(strip_sites(b.call_args(bb)[0])))):
                a = b.call_args(bb)
                arg = mir.peel(b.expand_vars(strip_sites(a[1]))) if len(a) > 1 else None
                exact = ls == want and arg is not None and arg[0] == "param" and arg[1] == pid
                muts.append((bb, ls, exact))
        n += 1
        ok = len(muts) == 1 and muts[0][2]
        bad = [m for m in muts if not m[2]]
        ctx.ob("R06-9", b.path, "pids_stopped is changed only by %s(pid)" % want, ok,
               key="R06-9|%s|exact-mark" % b.path, where=b.loc((bad or muts or [(0,)])[0][0]), crate=crate.kind,
               detail=None if ok else ("no %s(pid) on pids_stopped: the member's stop / continue is not recorded, the job's state "
                                       "never follows it" % want if not muts else
                                       "%s on pids_stopped%s: the marks of other members change too (or the pid's own mark does "
                                       "not), the job is reported in the wrong state" % (bad[0][1], "" if bad[0][1] != want else " with another key")))
    ctx.floor("R06-9", crate, "member-mark functions", n, 2)


def order_rule(ctx, crate):
    n = 0
    for p, b in sorted(crate.bodies.items()):
        if b.kind not in ("fn", "closure"):
            continue
        for bb, t, c in b.calls():
            ls = last_seg(c)
            if ls not in ORDER_BREAKING and ls not in ORDER_KEEPING:
                continue
            if "Vec" not in c and "slice" not in c and "[T]" not in c:
                continue
            a = b.call_args(bb)
            if not a:
                continue
            recv = b.expand_vars(strip_sites(a[0]))
            if not any(sub[0] == "field" and mir.field_name(sub) == "pids" for sub in mir.subexprs(recv)):
                continue
            n += 1
            ok = ls in ORDER_KEEPING
            ctx.ob("R06-6", p, "%s on Job.pids keeps the launch order" % ls, ok,
                   key="R06-6|%s|order|%s" % (p, ls), where=b.loc(bb), crate=crate.kind,
                   detail=None if ok else "after a member other than the last has been removed this way, pids.last() is no longer "
                   "the last stage: `fg` reports the status of a middle stage")
    ctx.floor("R06-6", crate, "mutations of Job.pids", n, 2)


def id_scan_rule(ctx, crate, rule):
    n = 0
    for p, b in sorted(crate.bodies.items()):
        if b.kind != "fn" or not p.startswith("shell::Shell::"):
            continue
        # loops that look a job up with jobs.get(&i)
        for h, blocks in sorted(b.loops().items()):
            gets = [bb for bb in blocks if b.term(bb)["k"] == "call" and last_seg(b.callee(b.term(bb))) in ("get", "get_mut", "contains_key")
                    and any(flow.is_field_named(x, "jobs") for a in b.call_args(bb) for x in mir.subexprs(b.expand_vars(strip_sites(a))))]
            if not gets:
                continue
            n += 1
            bad = None
            for x in blocks:
                for tgt, atom, val in b.switch_edges(x):
                    if tgt in blocks:
                        continue
                    a = b.expand_vars(strip_sites(atom))
                    if a[0] == "bin" and a[1] in ("Ge", "Gt", "Eq", "Lt", "Le", "Ne"):
                        for side in (a[2], a[3]):
                            if any(sub[0] == "call" and last_seg(sub[1]) == "len" and any(
                                    flow.is_field_named(y, "jobs") for y in mir.subexprs(sub)) for sub in mir.subexprs(side)):
                                bad = x
            ctx.ob(rule, p, "the id scan is not bounded by the number of jobs", bad is None,
                   key="%s|%s|scan-bounded-by-len" % (rule, p), where=b.loc(bad if bad is not None else h), crate=crate.kind,
                   detail=None if bad is None else "with jobs 1 and 2 alive and job 1 finished, jobs.len() is 1 and job 2 is "
                   "never found: it cannot be marked running / stopped / done, nor removed")
    ctx.floor(rule, crate, "id-scan loops over the job table", n, 6)


MAP_READS = {"insert", "remove", "get", "contains", "contains_key", "len", "is_empty", "iter", "keys", "values"}
MAP_BULK = {"clear", "retain", "drain", "extend", "take", "replace", "swap", "extract_if", "shrink_to_fit", "into_iter"}


def map_mutation_rule(ctx, crate, rule="R06-8"):
    n_fn, n_ops, bad = 0, 0, []
    for b in crate.fns():
        maps = {m for m in statics_used(b) if m.endswith("_MAP")}
        if not maps:
            continue
        n_fn += 1
        for bb, t, c in b.calls():
            ls = last_seg(c)
            if not any(k in c for k in ("HashMap", "HashSet", "BTreeMap", "BTreeSet")) and ls not in ("take", "replace", "swap"):
                continue
            a = b.call_args(bb)
            if not a:
                continue
            e = render(b.expand_vars(mir.strip_sites(a[0])))
            if "_MAP" not in e and "MutexGuard" not in e and "try_lock" not in e and "lock" not in e:
                continue
            n_ops += 1
            if ls in MAP_BULK:
                bad.append((b, bb, ls, sorted(maps)))
    if not ctx.require(n_fn >= 8 and n_ops >= 8, rule, "%s|anchor" % rule,
                       "expected the 8 insert / pop helpers of the event maps, found %d functions / %d operations" % (n_fn, n_ops)):
        return
    seen = set()
    for b, bb, ls, maps in bad:
        k = (b.path, ls)
        if k in seen:
            continue
        seen.add(k)
        ctx.ob(rule, b.path, "%s on an event map (%s)" % (ls, ", ".join(maps)), False,
               key="%s|%s|bulk|%s" % (rule, b.path, ls), where=b.loc(bb), crate=crate.kind,
               detail="events parked for processes whose job has not taken them yet are thrown away: a job continued while "
                      "another command ran in the foreground stays listed as Stopped, an exit is never reported")
    if not bad:
        ctx.ob(rule, "(crate)", "the event maps are changed one pid at a time (%d functions, %d operations)" % (n_fn, n_ops),
               True, key="%s|crate|per-pid" % rule, crate=crate.kind, nontrivial=True)
