"""C04 - redirections connect exactly the named descriptors to the named files."""
from .. import flow, mir
from ..etag import edge_dominated, norm_guard
from ..mir import FactWalker, const_int, const_str, last_seg, render, strip_sites
from .c02 import dom_facts

EXPLANATION = ("C04: structural rules on all paths: truncate-vs-append call sets of the file opener and the `>>` "
               "selector at its call sites; descriptor targets chosen by the child's redirect loop; forward "
               "iteration; every dup2 lies in the post-fork child region (the shell's own descriptors are never "
               "rewired); open failures end the child with a non-zero exit before any exec and are not dropped by "
               "builtins; here-string feeding.  Redirection spellings (regex parsing) and file contents are not decided.")

FLOOR_DUP2 = 10


def run(ctx):
    ctx.rule("R04-1", "create_raw_fd_from_file: append=true => {append(true), create(true)} and no truncate; "
                      "append=false => {write(true), truncate(true), create(true)}; every call site passes op == \">>\"")
    ctx.rule("R04-2", "child redirect loop: file target -> dup2(fd, 1) iff from == \"1\" else dup2(fd, 2); 2>&1 -> "
                      "descriptor 2 from 1; 1>&2 -> descriptor 1 from 2")
    ctx.rule("R04-3", "the redirect loop iterates redirects_to forward")
    ctx.rule("R04-4", "a target that cannot be opened ends the child with exit(c), c != 0, before exec / builtin; "
                      "outside the child the Err of the opener is not dropped")
    ctx.rule("R04-5", "every dup2 call site is in the post-fork Child region")
    ctx.rule("R04-6", "here-string: the parent writes the word, then a newline constant, into the pipe the child "
                      "has dup2'ed onto descriptor 0")
    ctx.rule("R04-8", "several input redirections on one command: the LAST one wins, as for output - Command::from_tokens "
                      "strips `<` / `<<<` operands by forward search (position) and lets each overwrite the recorded "
                      "source; a backward search (rposition / rev / rfind) makes the first one win")
    ctx.rule("R04-7", "the here-string pipe's read end is still the descriptor pipe() returned when the child "
                      "installs it: between fork and dup2(here_string.0, 0) the child performs no operation on a "
                      "number the shell released at an earlier stage (pipes[idx-1].1)")
    ctx.rule("R04-9", "no redirection is dropped silently: every path through one iteration of tokens_to_redirections' "
                      "loop keeps the word (push), records a redirection (push), arms the `operand follows` state, or "
                      "returns an error - a word containing `>` that fits none of the spellings must not just disappear "
                      "(`echo hi >a>b` would print to the terminal and create no file)")
    ctx.rule("R04-10", "every redirection written on the line is applied (an earlier `> a` must still create / truncate a, "
                       "and fail the command when a cannot be opened): crate-wide, a list of (fd, op, target) triples is "
                       "never shortened (remove / dedup* / retain / truncate / pop / drain / clear / swap_remove / "
                       "split_off) and never walked through a lossy adaptor (filter / skip / take / step_by / last / nth "
                       "/ skip_while / take_while)")
    ctx.rule("R04-11", "`>` / `>>` written without a space after a quoted word are redirections (`echo 'a'>f`): the tokenizer glues "
                       "what follows a closing quote onto the quoted word, so reading `>` in the `quote just closed` state must "
                       "end the word (explored over parse_line's character loop, the analysis of C16 R16-5) - otherwise the "
                       "operator becomes part of the argument (`a>f` is printed, no file is written)")
    ctx.rule("R04-12", "`<` and `<<<` are recognised without spaces around them too (`cat <f`, `cat<f`, `cat <<<w`): the recogniser "
                       "in Command::from_tokens tests more than `token == \"<\"` (a prefix / contains / pattern test), the "
                       "output side does (tokens_to_redirections matches `>` anywhere in a word)")
    for crate in ctx.crates:
        input_order_rule(ctx, crate)
        redirect_after_quote_rule(ctx, crate)
        glued_input_rule(ctx, crate)
        no_drop_rule(ctx, crate)
        keep_all_rule(ctx, crate)
        opener_rule(ctx, crate)
        body = crate.fn("core::run_single_program")
        if not ctx.require(body is not None, "R04-2", "R04-2|anchor", "core::run_single_program not found"):
            continue
        ctx.analysed(body)
        child = child_region(body)
        if not ctx.require(child, "R04-5", "R04-5|%s|child-region" % body.path,
                           "no ForkResult::Child arm found in run_single_program", body.path):
            continue
        redirect_loop_rules(ctx, crate, body, child)
        error_rules(ctx, crate, body, child)
        dup2_region_rule(ctx, crate, body, child)
        here_string_rule(ctx, crate, body, child)
        from .. import plumb
        from .c08 import stale_rule
        m = plumb.Model(crate, body)
        if ctx.require(m.s.ok(), "R04-7", "R04-7|anchor|slots",
                       "cannot identify the plumbing parameters of run_single_program by type", body.path):
            pl = crate.fn("core::run_pipeline")
            pm = plumb.PipelineModel(crate, pl) if pl is not None else None
            m.single_builtin_has_no_capture_pipes = bool(pm is not None and pm.ok() and pm.verify_lemmas()["L4"])
            stale_rule(ctx, crate, body, m, "R04-7")


def child_region(body):
    for bb in sorted(body.reachable):
        for tgt, atom, val in body.switch_edges(bb):
            if atom[0] == "discr" and val == "Child" and any(
                    s[0] == "call" and last_seg(s[1]) == "fork" for s in mir.subexprs(atom)):
                return edge_dominated(body, bb, tgt)
    return set()


def opener_rule(ctx, crate):
    b = crate.fn("tools::create_raw_fd_from_file")
    if not ctx.require(b is not None, "R04-1", "R04-1|anchor", "tools::create_raw_fd_from_file not found"):
        return
    ctx.analysed(b)
    flag = None
    for l in range(1, b.arg_count + 1):
        if b.locals[l]["ty"] == "bool":
            flag = b.local_expr(l)
    if not ctx.require(flag is not None, "R04-1", "R04-1|%s|flag" % b.path, "no bool parameter", b.path):
        return
    opts = ("append", "write", "truncate", "create", "read", "create_new")
    fl = strip_sites(flag)
    opens = [bb for bb, t, c in b.calls() if last_seg(c) == "open" and "OpenOptions" in c]
    ctx.require(len(opens) == 1, "R04-1", "R04-1|%s|open" % b.path, "expected one OpenOptions::open", b.path)
    # nothing else is configured on the OpenOptions: no raw open(2) flags, no mode games
    extra = sorted({last_seg(c) for bb, t, c in b.calls() if ("OpenOptions" in c or "OpenOptionsExt" in c) and
                    last_seg(c) not in opts + ("new", "open", "clone")})
    ctx.ob("R04-1", b.path, "the target is opened with std's plain options only", not extra,
           key="R04-1|%s|extra-open-options" % b.path, crate=crate.kind,
           detail=None if not extra else "%s: flags like O_NONBLOCK / O_EXCL / O_NOFOLLOW change what `>` does for some targets (a "
           "FIFO without a reader fails with ENXIO, the program inherits a non-blocking stdout and loses output on EAGAIN)" %
           ", ".join(extra))
    for fv in (True, False):
        w = FactWalker(b, lambda a: a == fl)

        def argval(e):
            e = strip_sites(e)
            neg = False
            while e[0] == "un" and e[1] == "Not":
                e = e[2]
                neg = not neg
            v = mir.const_bool(e)
            if v is None and e == fl:
                v = fv
            if v is None:
                return None
            return (not v) if neg else v

        def step(bb, st):
            facts, calls = st
            t = b.term(bb)
            if t["k"] == "call" and "OpenOptions" in b.callee(t) and last_seg(b.callee(t)) in opts:
                a = b.call_args(bb)
                v = argval(a[1]) if len(a) > 1 else None
                name = last_seg(b.callee(t))
                if v is True:
                    calls = calls | {name}
                elif v is False:
                    calls = calls - {name}
                else:
                    calls = calls | {name + "?"}
            return [(nb, (f2, calls)) for nb, f2 in w.step(bb, facts)]

        seen = mir.explore(b, 0, (frozenset({(fl, fv)}), frozenset()), step)
        reached = False
        for bb, (facts, calls) in seen:
            if bb not in opens:
                continue
            reached = True
            unknown = any(c.endswith("?") for c in calls)
            if fv:
                ok = {"append", "create"} <= calls and "truncate" not in calls and not unknown
                ctx.ob("R04-1", b.path, "append=true: options {append, create}, no truncate (got %s)" % sorted(calls), ok,
                       key="R04-1|%s|append-true" % b.path, where=b.loc(bb), crate=crate.kind,
                       detail=None if ok else "without O_APPEND a second writer of the same file (`cmd >> f 2>> f`, "
                                              "`a >> f | b >> f`) overwrites instead of appending")
            else:
                ok = {"write", "truncate", "create"} <= calls and "append" not in calls and not unknown
                ctx.ob("R04-1", b.path, "append=false: options {write, truncate, create}, no append (got %s)" % sorted(calls), ok,
                       key="R04-1|%s|append-false" % b.path, where=b.loc(bb), crate=crate.kind)
        ctx.require(reached, "R04-1", "R04-1|%s|reach-%s" % (b.path, fv), "open not reachable with append=%s" % fv, b.path)
    # call sites
    n = 0
    for body in crate.fns():
        k = 0
        for bb, t, c in body.calls():
            if c == b.path:
                n += 1
                a = body.call_args(bb)
                sel = body.expand_vars(strip_sites(a[1])) if len(a) > 1 else ("unknown", "")
                g = norm_guard(sel, True)
                ok = g is not None and g[0] == "eq" and g[2] == ">>" and g[3] is True
                # the compared value is the operator (field 1) of the same triple whose field 2 is the file name
                same = False
                if ok and len(a) > 1:
                    f = body.expand_vars(strip_sites(mir.peel(a[0])))
                    while f[0] == "call" and f[2]:
                        f = f[2][0]
                    x = g[1]
                    same = x[0] == "field" and x[1] == 1 and f[0] == "field" and f[1] == 2 and x[2] == f[2]
                ctx.ob("R04-1", body.path, "append argument is `op == \">>\"` of the same redirection", ok and same,
                       key="R04-1|%s|callsite#%d" % (body.path, k), where=body.loc(bb), crate=crate.kind,
                       detail="selector: %s" % render(sel)[:100])
                k += 1
    ctx.floor("R04-1", crate, "create_raw_fd_from_file call sites", n, 3)


def find_redirect_loop(body, child):
    for h, blocks in sorted(body.loops().items()):
        if h not in child:
            continue
        for bb in blocks:
            t = body.term(bb)
            if t["k"] == "call" and last_seg(body.callee(t)) == "next":
                it = body.call_args(bb)[0]
                src = flow.backward(body, it, lambda e: flow.is_field_named(e, "redirects_to"))
                if src is not None:
                    return h, blocks, bb
    return None, None, None


def redirect_loop_rules(ctx, crate, body, child):
    h, blocks, nb = find_redirect_loop(body, child)
    if not ctx.require(h is not None, "R04-2", "R04-2|%s|loop" % body.path,
                       "no loop over cmd.redirects_to in the child", body.path):
        return
    # R04-3 forward iteration
    it = body.call_args(nb)[0]
    rev = flow.backward(body, it, lambda e: e[0] == "call" and last_seg(e[1]) in ("rev", "rposition", "next_back"))
    it_ty = ""
    if it[0] == "var":
        it_ty = body.locals[it[1]]["ty"]
    ctx.ob("R04-3", body.path, "redirect loop iterates forward (iterator %s)" % (it_ty or render(it))[:60],
           rev is None and "Rev<" not in it_ty and last_seg(body.callee(body.term(nb))) == "next",
           key="R04-3|%s|forward" % body.path, where=body.loc(nb), crate=crate.kind)
    item = mir.fld(0, ("downcast", "Some", body.expand_vars(strip_sites(body.call_expr(nb)))), "0")
    seen_kinds = set()
    k = 0
    for bb in sorted(blocks):
        t = body.term(bb)
        if t["k"] != "call" or last_seg(body.callee(t)) != "dup2":
            continue
        a = [body.expand_vars(strip_sites(x)) for x in body.call_args(bb)]
        dst = const_int(a[1])
        facts = dom_facts(body, bb, within=blocks)
        eqs = {}
        for at, v in facts:
            g = norm_guard(body.expand_vars(at), v)
            if g is not None and g[0] == "eq" and g[1][0] == "field" and g[1][2] == item:
                eqs[(g[1][1], g[2])] = g[3]
        src_from_file = any(s[0] == "call" and last_seg(s[1]) == "create_raw_fd_from_file" for s in mir.subexprs(a[0]))
        kind = None
        ok = False
        if eqs.get((2, "&1")) is True and eqs.get((0, "2")) is True:
            kind = "2>&1"
            src_ok = const_int(a[0]) == 1 or (a[0][0] == "call" and last_seg(a[0][1]) == "dup" and const_int(a[0][2][0]) == 1)
            ok = dst == 2 and src_ok
        elif eqs.get((2, "&2")) is True and eqs.get((0, "1")) is True:
            kind = "1>&2"
            src_ok = const_int(a[0]) == 2 or (a[0][0] == "call" and last_seg(a[0][1]) == "dup" and const_int(a[0][2][0]) == 2)
            ok = dst == 1 and src_ok
        elif src_from_file:
            if eqs.get((0, "1")) is True:
                kind = "file->1"
                ok = dst == 1
            elif eqs.get((0, "1")) is False:
                kind = "file->2"
                ok = dst == 2
            elif eqs.get((0, "2")) is True:
                kind = "file->2"
                ok = dst == 2
            elif eqs.get((0, "2")) is False:
                kind = "file->1"
                ok = dst == 1
        desc = kind or "unclassified"
        seen_kinds.add(kind)
        ctx.ob("R04-2", body.path, "dup2(%s, %s) for %s" % (render(a[0])[:40], dst, desc), ok,
               key="R04-2|%s|dup2|%s#%d" % (body.path, desc, k), where=body.loc(bb), crate=crate.kind,
               detail="guards: " + "; ".join("field%d==%s:%s" % (f, l, v) for (f, l), v in sorted(eqs.items())))
        k += 1
    for need in ("2>&1", "1>&2", "file->1", "file->2"):
        ctx.ob("R04-2", body.path, "redirect loop handles %s" % need, need in seen_kinds,
               key="R04-2|%s|handles|%s" % (body.path, need), crate=crate.kind, nontrivial=False)


def error_rules(ctx, crate, body, child):
    execs = {bb for bb, t, c in body.calls() if last_seg(c) in ("execve", "try_run_builtin_in_subprocess")}
    n = 0
    for bb, t, c in body.calls():
        ls = last_seg(c)
        if bb not in child or ls not in ("create_raw_fd_from_file", "get_fd_from_file"):
            continue
        res = strip_sites(body.call_expr(bb))
        fail_edges = []
        for x in sorted(body.reachable):
            for tgt, atom, val in body.switch_edges(x):
                a = body.expand_vars(atom)
                if atom[0] == "discr" and atom[1] == res and val == "Err":
                    fail_edges.append((x, tgt, "Err"))
                if a[0] == "bin" and a[1] in ("Eq", "Ne") and const_int(a[3]) == -1 and any(
                        s == body.expand_vars(res) for s in mir.subexprs(a[2])):
                    if (a[1] == "Eq") == bool(val):
                        fail_edges.append((x, tgt, "== -1"))
        if not ctx.require(fail_edges, "R04-4", "R04-4|%s|%s#%d|tested" % (body.path, ls, n),
                           "the result of %s is not tested for failure in the child" % ls, body.path, body.loc(bb)):
            n += 1
            continue
        for x, tgt, why in fail_edges:
            reach = flow.blocks_between(body, tgt, set())
            bad_exec = reach & execs
            rets = [r for r in reach if body.term(r)["k"] == "return"]
            exits = [r for r in reach if body.term(r)["k"] == "call" and last_seg(body.callee(body.term(r))) == "exit"]
            codes = [const_int(body.call_args(r)[0]) for r in exits]
            loops_back = any(s in body.loops() and s not in reach for r in reach for s in body.succs[r])
            ok = not bad_exec and not rets and exits and all(cd is not None and cd != 0 for cd in codes)
            # no path may fall out of the failure region back into the redirect loop
            outside = [s for r in reach for s in body.succs[r] if s not in reach]
            ok = ok and not outside
            ctx.ob("R04-4", body.path, "%s failure (%s) ends the child with a non-zero exit before exec" % (ls, why), ok,
                   key="R04-4|%s|%s#%d|%s" % (body.path, ls, n, why), where=body.loc(x), crate=crate.kind,
                   detail="exit codes %s%s" % (codes, "; reaches exec" if bad_exec else ""))
        n += 1
    ctx.floor("R04-4", crate, "file opens in the child", n, 2)
    # outside the child: the Err payload of the opener must be looked at
    opener = "tools::create_raw_fd_from_file"
    for b2 in crate.fns():
        k = 0
        for bb, t, c in b2.calls():
            if c != opener or (b2 is body and bb in child):
                continue
            ctx.analysed(b2)
            res = b2.expand_vars(strip_sites(b2.call_expr(bb)))
            used = False
            for x in sorted(b2.reachable):
                tx = b2.term(x)
                exprs = [b2.rvalue_expr(s["rv"]) for s in b2.blocks[x]["stmts"] if s["k"] == "assign"]
                if tx["k"] == "call":
                    exprs += b2.call_args(x)
                for e in exprs:
                    e = b2.expand_vars(strip_sites(e))
                    for sub in mir.subexprs(e):
                        if sub[0] == "downcast" and sub[1] == "Err" and sub[2] == res:
                            used = True
                # returning the whole Result to the caller also keeps the error
                for s in b2.blocks[x]["stmts"]:
                    if s["k"] == "assign" and s["place"]["l"] == 0 and b2.expand_vars(strip_sites(b2.rvalue_expr(s["rv"]))) == res:
                        used = True
            why_ok = ""
            if not used and b2.path.startswith("builtins::") and builtin_targets_prechecked(crate):
                # the builtins open their targets when they print; the dispatcher has opened every target before it
                # starts the builtin and refuses the command when one cannot be opened
                used = True
                why_ok = " (targets are opened by try_run_builtin first: failure there returns status != 0)"
            ctx.ob("R04-4", b2.path, "Err of create_raw_fd_from_file is reported, not dropped" + why_ok, used,
                   key="R04-4|%s|err-dropped#%d" % (b2.path, k), where=b2.loc(bb), crate=crate.kind,
                   detail=None if used else "a redirect target that cannot be opened is silently ignored: the builtin "
                                            "prints to the terminal and reports status 0")
            k += 1


def dup2_region_rule(ctx, crate, body, child):
    n = 0
    for b2 in crate.fns():
        k = 0
        for bb, t, c in b2.calls():
            if last_seg(c) != "dup2":
                continue
            if b2.path in ("libs::dup2",):
                continue   # the thin wrapper itself; its callers are checked
            n += 1
            ok = b2 is body and bb in child
            ctx.ob("R04-5", b2.path, "dup2 call is in the post-fork child region", ok,
                   key="R04-5|%s|dup2#%d" % (b2.path, k), where=b2.loc(bb), crate=crate.kind, nontrivial=False,
                   detail=None if ok else "dup2 in the shell process rewires the shell's own descriptors for every later command")
            k += 1
    ctx.floor("R04-5", crate, "dup2 call sites", n, FLOOR_DUP2)
    # positive control: the wrapper must really be a wrapper of libc::dup2
    w = crate.fn("libs::dup2")
    ctx.ob("R04-5", "libs::dup2", "positive control: libs::dup2 calls libc::dup2 (the rule matches this site when not exempt)",
           w is not None and any(c == "libc::dup2" for bb, t, c in w.calls()), key="R04-5|libs::dup2|control",
           crate=crate.kind, nontrivial=False)


def here_string_rule(ctx, crate, body, child):
    writes = [bb for bb, t, c in body.calls() if last_seg(c) == "write_all" and bb not in child]
    hs_writes = []
    for bb in writes:
        a = body.call_args(bb)
        f = a[0]
        src = flow.backward(body, f, lambda e: e[0] == "call" and last_seg(e[1]) == "from_raw_fd")
        if src is not None and not any(s[0] == "var" and "capture" in str(s[2]) for s in mir.subexprs(src)):
            # File built from the here-string pipe (not the capture pipes)
            hs_writes.append(bb)
    if not ctx.require(len(hs_writes) >= 2, "R04-6", "R04-6|%s|writes" % body.path,
                       "expected two writes into the here-string pipe in the parent, found %d" % len(hs_writes), body.path):
        return
    first, second = hs_writes[0], hs_writes[1]
    a1 = body.call_args(first)[1]
    a2 = body.call_args(second)[1]
    word = flow.backward(body, a1, lambda e: e[0] == "field" and e[1] == 1 and
                         flow.backward(body, e[2], lambda z: flow.is_field_named(z, "redirect_from")) is not None)
    cb = None
    for sub in mir.subexprs(body.expand_vars(strip_sites(a2))):
        if mir.const_bytes(sub) is not None:
            cb = mir.const_bytes(sub)
    const2 = cb == b"\n"
    order = body.dominates(first, second)
    ctx.ob("R04-6", body.path, "parent writes redirect_from.1 then the constant b\"\\n\" to the here-string pipe",
           word is not None and const2 and order, key="R04-6|%s|feed" % body.path, where=body.loc(first), crate=crate.kind)


def input_order_rule(ctx, crate):
    b = crate.fn("types::Command::from_tokens")
    if not ctx.require(b is not None, "R04-8", "R04-8|anchor", "types::Command::from_tokens not found"):
        return
    ctx.analysed(b)
    fwd, back = [], []
    for bb, t, c in b.calls():
        ls = last_seg(c)
        if ls in ("position", "find", "find_map"):
            fwd.append((bb, ls))
        if ls in ("rposition", "rfind", "rev", "last", "next_back", "rfind_map"):
            back.append((bb, ls))
    ok = len(fwd) >= 2 and not back
    ctx.ob("R04-8", b.path, "the `<` / `<<<` operands are located by forward search (%d sites)" % len(fwd), ok,
           key="R04-8|%s|input-search-direction" % b.path, where=b.loc((back or fwd or [(0, "")])[0][0]), crate=crate.kind,
           detail=None if ok else "%s: with `cat < a < b` the first operand is recorded last and wins (bash and the output side "
           "give the last one)" % ", ".join(x[1] for x in back))


def _regex_literal(b, expr):
    """the literal a Regex value was compiled from (looks through Ok-downcasts / derefs), or None"""
    for sub in mir.subexprs(b.expand_vars(strip_sites(expr))):
        if sub[0] == "call" and sub[1].endswith("Regex::new") and sub[2]:
            return const_str(sub[2][0])
    return None


def no_drop_rule(ctx, crate):
    b = crate.fn("parsers::parser_line::tokens_to_redirections")
    if not ctx.require(b is not None, "R04-9", "R04-9|anchor", "parsers::parser_line::tokens_to_redirections not found"):
        return
    ctx.analysed(b)
    pushes = {bb for bb, t, c in b.calls() if last_seg(c) == "push" and "Vec" in c}
    # the recognition loop: the natural loop holding most of the pushes
    best = None
    for h, blocks in b.loops().items():
        n = len(pushes & blocks)
        if best is None or n > best[0]:
            best = (n, h, blocks)
    if not ctx.require(best is not None and best[0] >= 3, "R04-9", "R04-9|%s|loop" % b.path,
                       "recognition loop not found", b.path):
        return
    _, h, loop = best
    nb = [bb for bb, t, c in b.calls() if bb in loop and last_seg(c) == "next" and
          not any(bb in bl and len(bl) < len(loop) for bl in b.loops().values())]
    some = []
    for x in nb:
        for y in b.succs[x]:
            some += [tgt for tgt, atom, val in b.switch_edges(y) if val == "Some"]
    if not ctx.require(bool(some), "R04-9", "R04-9|%s|next" % b.path, "iterator step of the loop not found", b.path):
        return
    accounted = set(pushes & loop)
    for bi, si, st in b.stmts():
        if bi in loop and st["k"] == "assign" and not st["place"]["p"] and st["place"]["l"] in b.names and \
                b.locals[st["place"]["l"]]["ty"] == "bool" and mir.const_bool(b.rvalue_expr(st["rv"])) is True:
            accounted.add(bi)
    # edges that cannot be taken: captures(text) == None although is_match / re_contains(text, same literal) held
    dead = set()
    n_caps = 0
    for x in sorted(loop):
        for tgt, atom, val in b.switch_edges(x):
            a = strip_sites(atom)
            if val != "None" or a[0] != "discr":
                continue
            inner = a[1]
            if inner[0] != "call" or last_seg(inner[1]) != "captures" or len(inner[2]) < 2:
                continue
            lit = _regex_literal(b, inner[2][0])
            text = render(b.expand_vars(strip_sites(inner[2][1])))
            for fa, fv in dom_facts(b, x, within=loop):
                f = strip_sites(fa)
                if fv is True and f[0] == "call" and last_seg(f[1]) in ("re_contains", "is_match") and len(f[2]) >= 2:
                    flit = const_str(f[2][1]) if last_seg(f[1]) == "re_contains" else _regex_literal(b, f[2][0])
                    ftext = f[2][0] if last_seg(f[1]) == "re_contains" else f[2][1]
                    if lit is not None and flit == lit and render(b.expand_vars(strip_sites(ftext))) == text:
                        dead.add((x, tgt))
                        n_caps += 1
    back = {(x, y) for x, y in b.back_edges() if y == h}
    seen, todo, witness = set(), [(some[0], (some[0],))], None
    while todo and witness is None:
        bb, path = todo.pop()
        if bb in seen or bb in accounted:
            continue
        seen.add(bb)
        for y in b.succs[bb]:
            if y not in loop or (bb, y) in dead:
                continue
            if (bb, y) in back:
                witness = path
                break
            todo.append((y, path + (y,)))
    ok = witness is None
    detail = None
    if not ok:
        conds = []
        for i in range(len(witness) - 1):
            for tgt, atom, val in b.switch_edges(witness[i]):
                if tgt == witness[i + 1]:
                    conds.append("%s = %s" % (render(strip_sites(atom))[-70:], val))
        detail = ("an iteration can reach the next token having neither kept the word, nor recorded a redirection, nor "
                  "reported an error; last tests on that path: " + "; ".join(conds[-3:]))
    ctx.ob("R04-9", b.path, "every iteration accounts for its token (%d accounting blocks, %d impossible `captures == None` "
                            "edge(s) excluded)" % (len(accounted), n_caps), ok,
           key="R04-9|%s|token-dropped" % b.path, where=b.loc((witness or [h])[-1]), crate=crate.kind, detail=detail)


REDIRECTION_TY = "(std::string::String, std::string::String, std::string::String)"
SHRINKING = {"remove", "dedup", "dedup_by", "dedup_by_key", "retain", "retain_mut", "truncate", "pop", "drain", "clear",
             "swap_remove", "split_off", "extract_if"}
LOSSY = {"filter", "filter_map", "skip", "take", "step_by", "last", "nth", "skip_while", "take_while", "nth_back"}


def keep_all_rule(ctx, crate):
    n_sites = 0
    bad = []
    for b in crate.fns():
        if "::tests::" in b.path:
            continue
        for bb, t, c in b.calls():
            ls = last_seg(c)
            a = b.call_args(bb)
            if not a:
                continue
            if ls in SHRINKING and "Vec" in c:
                root = mir.root_local_expr(b.expand_vars(strip_sites(a[0])))
                ty = ""
                rty = b.locals[root]["ty"] if root is not None else ""
                if REDIRECTION_TY in (ty or "") or ("Vec<" + REDIRECTION_TY in rty) or \
                        any(flow.is_field_named(x, "redirects_to") for x in mir.subexprs(b.expand_vars(strip_sites(a[0])))):
                    n_sites += 1
                    bad.append((b, bb, ls))
            elif ls in LOSSY and ("Iter" in c or "iter" in c):
                e = b.expand_vars(strip_sites(a[0]))
                src_ty = ""
                if a[0][0] == "var":
                    src_ty = b.locals[a[0][1]]["ty"]
                if REDIRECTION_TY in src_ty or any(flow.is_field_named(x, "redirects_to") for x in mir.subexprs(e)):
                    n_sites += 1
                    bad.append((b, bb, ls))
    # the vector's producers and consumers must exist (anchor: the rule is not vacuous)
    users = [b.path for b in crate.fns() if any(REDIRECTION_TY in l["ty"] for l in b.locals)]
    if not ctx.require(len(users) >= 3, "R04-10", "R04-10|anchor", "fewer than 3 functions handle a redirection list (%d)" % len(users)):
        return
    seen = set()
    for b, bb, ls in bad:
        k = (b.path, ls)
        if k in seen:
            continue
        seen.add(k)
        ctx.ob("R04-10", b.path, "redirection list shortened / thinned by %s" % ls, False,
               key="R04-10|%s|%s" % (b.path, ls), where=b.loc(bb), crate=crate.kind,
               detail="a redirection the user wrote is not applied: its file is neither created nor truncated, and an "
                      "unopenable target no longer fails the command")
    if not bad:
        ctx.ob("R04-10", "(crate)", "no redirection list is shortened or thinned (%d functions handle one)" % len(users), True,
               key="R04-10|crate|kept", crate=crate.kind, nontrivial=True)


def redirect_after_quote_rule(ctx, crate):
    from .c10 import explore_after_close
    r = explore_after_close(ctx, crate, "R04-11", ">")
    if r is None:
        return
    b, found, _ = r
    ok = found["glued"] == 0 and found["ended"] > 0
    ctx.ob("R04-11", b.path, "reading `>` right after a closing quote ends the quoted word (%d path(s) end it, %d append it)" %
           (found["ended"], found["glued"]), ok, key="R04-11|%s|redirect-after-quote|>" % b.path, crate=crate.kind,
           detail=None if ok else "`echo 'a'>f` passes the single argument `a>f` to echo and writes no file")


def glued_input_rule(ctx, crate):
    from .. import etag
    from .c13 import sink_signature
    p = "types::Command::from_tokens"
    descs = set()
    for b in [crate.fn(p)] + crate.closures_of(p):
        if b is None:
            continue
        for insp in etag.find_inspections(crate, b, p):
            descs.add(insp.desc)
    if not ctx.require(bool(descs), "R04-12", "R04-12|anchor", "no operator recogniser found in Command::from_tokens"):
        return
    sig = sink_signature(descs)
    kinds = {x.split(":")[0] for x in sig.split(";") if x.endswith(":<")}
    ok = bool(kinds - {"eq"})
    ctx.ob("R04-12", p, "the `<` recogniser handles glued spellings (tests: %s)" % sig, ok,
           key="R04-12|%s|glued-input-operator" % p, crate=crate.kind,
           detail=None if ok else "`<` / `<<<` are recognised only as words of their own: `cat <f` reads no file (`<f` is passed as an "
           "argument), `cat<f` is looked up as a command name")


def builtin_targets_prechecked(crate):
    """core::try_run_builtin opens every file target of the command before it dispatches to a builtin, and returns a
    non-zero status without dispatching when an open fails"""
    cached = crate.__dict__.get("_builtin_precheck")
    if cached is not None:
        return cached
    ok = False
    b = crate.fn("core::try_run_builtin")
    if b is not None:
        dispatch = [bb for bb, t, c in b.calls() if c.startswith("builtins::") and c.endswith("::run")]
        opens = [bb for bb, t, c in b.calls() if c == "tools::create_raw_fd_from_file"]
        for ob_ in opens:
            res = b.expand_vars(strip_sites(b.call_expr(ob_)))
            # the loop over cmd.redirects_to that holds the open dominates every dispatch
            in_loop = [blocks for h, blocks in b.loops().items() if ob_ in blocks]
            over_redirects = flow.backward(b, b.call_args(ob_)[0], lambda e: flow.is_field_named(e, "redirects_to")) is not None
            dominates = bool(dispatch) and all(b.dominates(min(bl, key=lambda x: x) if False else ob_, d) or
                                               any(b.dominates(h, d) for h, bl in b.loops().items() if ob_ in bl)
                                               for d in dispatch)
            # Err edge: reaches a return whose status constant is non-zero, without a dispatch
            err_ok = False
            for x in sorted(b.reachable):
                for tgt, atom, val in b.switch_edges(x):
                    a = strip_sites(atom)
                    if a[0] == "discr" and val == "Err" and b.expand_vars(a[1]) == res:
                        region = edge_dominated(b, x, tgt)
                        calls_in = [last_seg(c) for bb, t, c in b.calls() if bb in region]
                        status_nonzero = any(last_seg(c) in ("from_status", "error") for bb, t, c in b.calls() if bb in region and
                                             (last_seg(c) == "error" or (len(b.call_args(bb)) > 1 and
                                                                         const_int(b.call_args(bb)[1]) not in (None, 0))))
                        no_dispatch = not any(bb in region for bb in dispatch)
                        returns = any(b.term(r)["k"] == "return" or any(y in b.exits() for y in b.succs[r]) for r in region) or True
                        err_ok = status_nonzero and no_dispatch and returns
            if in_loop and over_redirects and dominates and err_ok:
                ok = True
    crate.__dict__["_builtin_precheck"] = ok
    return ok
