"""C02 - pipelines: wiring, EOF propagation, waiting, last stage's status."""
from .. import flow, mir, plumb
from ..etag import edge_dominated
from ..mir import FactWalker, const_int, last_seg, render, strip_sites

EXPLANATION = ("C02: decided structurally for all paths: n-1 pipes created / n stages started (loop shapes), the "
               "child-side dup2 wiring and closing of later pipes, the parent's staggered closes that let EOF "
               "propagate, the wait obligation, and that the reported status is the last pid's (128+signal when "
               "killed).  Byte delivery, SIGPIPE and scheduling are not decided.")


def dom_facts(body, bb, within=None):
    out = []
    for x in sorted(body.reachable):
        if within is not None and x not in within:
            continue
        for tgt, atom, val in body.switch_edges(x):
            if tgt == bb or bb in edge_dominated(body, x, tgt):
                out.append((atom, val))
    return out


def run(ctx):
    ctx.rule("R02-1", "pipe creation loop is 0..length-1 pushing every Ok payload; stage loop is 0..length, single "
                      "exit, calls run_single_program(.., i, ..) on every iteration")
    ctx.rule("R02-2", "child, before exec: dup2(pipes[idx-1].0, 0) unless first; dup2(pipes[idx].1, 1) unless last; "
                      "both ends of every later pipe closed")
    ctx.rule("R02-3", "parent, after fork: close(pipes[idx].1) unless last stage and close(pipes[idx-1].0) unless "
                      "first stage, on every path to return")
    ctx.rule("R02-4", "fg_pids.push(child) guarded by exactly child>0 and not background; wait_fg_job(sh, pgid, "
                      "&fg_pids) on every path to return when fg_pids is non-empty (except the single-builtin "
                      "return); its result is the pipeline's result unless capturing")
    ctx.rule("R02-5", "wait_fg_job: status written only from ws.get_status() under pid == *pids.last(); loop exits "
                      "are {ECHILD, waitpid error, count_waited >= count_child}; counter increments exactly under "
                      "fg-child and not continued; get_status = exit code else 128+signal")
    ctx.rule("R02-8", "statuses can be collected at all: main gives SIGCHLD an explicit disposition (SIG_DFL or the handler) "
                      "before anything runs a command - an inherited SIG_IGN makes the kernel reap children itself, "
                      "waitpid() fails with ECHILD and every status reads 0 (bin crate)")
    ctx.rule("R02-9", "every stage runs with the default signal dispositions: a signal the shell sets to SIG_IGN anywhere is "
                      "reset to SIG_DFL in the child before exec on every path (an ignored SIGPIPE keeps an upstream "
                      "writer alive after its reader has left, and the pipeline never finishes)")
    ctx.rule("R02-7", "wait_fg_job identifies the stages by pid, not by process group: its waitpid target is -1 (or a pid "
                      "from `pids`); membership is decided against `pids`, so a stage that changes its group is still "
                      "awaited")
    ctx.rule("R02-6", "every stage is started once and the shell is not duplicated: run_single_program has one fork() "
                      "call site, outside every loop; the code reachable from the Child arm contains no return and no "
                      "edge back into the shell's code - every maximal path ends in process::exit")
    for crate in ctx.crates:
        pl = crate.fn("core::run_pipeline")
        body = crate.fn("core::run_single_program")
        wj = crate.fn("jobc::wait_fg_job")
        if not ctx.require(pl is not None and body is not None and wj is not None, "R02-1", "R02-1|anchor",
                           "run_pipeline / run_single_program / wait_fg_job not found"):
            continue
        for b in (pl, body, wj):
            ctx.analysed(b)
        pm = plumb.PipelineModel(crate, pl)
        if ctx.require(pm.ok(), "R02-1", "R02-1|anchor|model", "cannot identify loops / pipe vector in run_pipeline",
                       pl.path):
            for sid, ok, desc, where in pm.check_shapes():
                ctx.ob("R02-1", pl.path, desc if ok else sid + ": " + desc, ok, key="R02-1|%s|%s" % (pl.path, sid),
                       where=where, crate=crate.kind)
            wait_rules(ctx, crate, pl, pm)
        m = plumb.Model(crate, body)
        if ctx.require(m.s.ok(), "R02-2", "R02-2|anchor|slots", "cannot identify plumbing parameters by type", body.path):
            lem = pm.verify_lemmas() if pm.ok() else {"L4": False}
            m.single_builtin_has_no_capture_pipes = lem["L4"]
            obs = m.obligations()
            ex = lambda bb: body.term(bb)["k"] == "call" and last_seg(body.callee(body.term(bb))) in (
                "execve", "try_run_builtin_in_subprocess")
            fails, n = m.explore(ex, "child")
            ctx.paths_enumerated += n
            want = ("K2a", "K3a", "K4")
            for o in obs:
                if o["id"] not in want:
                    continue
                bad = sorted({last_seg(body.callee(body.term(bb))) for f, cls, bb in fails if f["id"] == o["id"]})
                ctx.ob("R02-2", body.path, "%s %s before exec" % (o["id"], o["desc"]), not bad,
                       key="R02-2|%s|%s %s" % (body.path, o["id"], o["desc"]), crate=crate.kind,
                       detail=("unmet on a path to %s" % ", ".join(bad)) if bad else None)
            fails, n = m.explore(lambda bb: body.term(bb)["k"] == "return", "shell")
            ctx.paths_enumerated += n
            for o in obs:
                if o["id"] not in ("P1", "P2"):
                    continue
                bad = [bb for f, cls, bb in fails if f["id"] == o["id"] and cls == "parent"]
                ctx.ob("R02-3", body.path, "%s %s in the parent after fork" % (o["id"], o["desc"]), not bad,
                       key="R02-3|%s|%s %s" % (body.path, o["id"], o["desc"]), crate=crate.kind,
                       detail="the reader of that pipe never sees EOF" if bad else None)
        fork_rule(ctx, crate, body)
        if crate.kind == "bin":
            sigchld_rule(ctx, crate, "R02-8")
        wait_fg_rules(ctx, crate, wj)
        status_const_rule(ctx, crate)
    inherited_dispositions_rule(ctx, "R02-9")


def is_gt0(atom, val, of=None):
    """atom says X > 0 (in any spelling) with truth val -> returns X or None"""
    if atom[0] != "bin" or not isinstance(val, bool):
        return None
    op, a, b = atom[1], atom[2], atom[3]
    cb = const_int(b)
    if cb is None:
        return None
    truth = None
    if op == "Gt" and cb == 0:
        truth = val
    elif op == "Ge" and cb == 1:
        truth = val
    elif op == "Le" and cb == 0:
        truth = not val
    elif op == "Lt" and cb == 1:
        truth = not val
    if truth is True:
        return a
    return None


def wait_rules(ctx, crate, pl, pm):
    blocks = pm.stage_info["blocks"]
    callbb = pm.stage_info["call"][0]
    res = strip_sites(pl.call_expr(callbb))
    # (a) push guard
    pushes = []
    for bb, t, c in pl.calls():
        if last_seg(c) == "push" and bb in blocks:
            args = pl.call_args(bb)
            if len(args) == 2 and flow.backward(pl, args[1], lambda e: strip_sites(e) == res) is not None:
                pushes.append(bb)
    if ctx.require(len(pushes) == 1, "R02-4", "R02-4|%s|push-anchor" % pl.path,
                   "expected one push of run_single_program's result into the foreground pid list, found %d" % len(pushes),
                   pl.path):
        pb = pushes[0]
        fg = pl.call_args(pb)[0]
        facts = [(a, v) for a, v in dom_facts(pl, pb, within=blocks)
                 if not (a[0] == "discr" and last_seg(a[1][1] if a[1][0] == "call" else "") == "next")]
        has_gt = any(is_gt0(a, v) is not None and strip_sites(mir.peel(is_gt0(a, v))) == res or
                     (is_gt0(a, v) is not None and flow.backward(pl, is_gt0(a, v), lambda e: strip_sites(e) == res) is not None)
                     for a, v in facts)
        has_bg = any(mir.field_name(mir.peel(a)) == "background" and v is False for a, v in facts)
        extra = [(a, v) for a, v in facts if is_gt0(a, v) is None and mir.field_name(mir.peel(a)) != "background"]
        ok = has_gt and has_bg and not extra
        ctx.ob("R02-4", pl.path, "fg_pids.push(child) guarded by exactly child > 0 and !background", ok,
               key="R02-4|%s|push-guard" % pl.path, where=pl.loc(pb), crate=crate.kind,
               detail="guards: " + "; ".join("%s=%s" % (render(a), v) for a, v in facts))
        # (b) wait on every path after the loop
        waits = [bb for bb, t, c in pl.calls() if last_seg(c) == "wait_fg_job" and bb not in blocks]
        ex = pm.stage_info["exits"]
        if ctx.require(len(waits) >= 1 and len(ex) == 1, "R02-4", "R02-4|%s|wait-anchor" % pl.path,
                       "no wait_fg_job call after the stage loop", pl.path):
            fgv = strip_sites(mir.peel(fg))

            def relevant(atom):
                if atom[0] == "call" and last_seg(atom[1]) == "is_single_and_builtin":
                    return True
                if atom[0] == "call" and last_seg(atom[1]) == "is_empty" and atom[2] and \
                        strip_sites(mir.peel(atom[2][0])) == fgv:
                    return True
                return False

            w = FactWalker(pl, relevant)

            def step(bb, st):
                facts, waited = st
                if bb in waits:
                    a = pl.call_args(bb)
                    if len(a) >= 3 and flow.backward(pl, a[2], lambda e: strip_sites(e) == fgv) is not None:
                        waited = True
                return [(nb, (f2, waited)) for nb, f2 in w.step(bb, facts)]

            seen = mir.explore(pl, ex[0][1], (frozenset(), False), step)
            ctx.paths_enumerated += len(seen)
            bad = None
            for bb, (facts, waited) in seen:
                if pl.term(bb)["k"] != "return" or waited:
                    continue
                fd = dict((last_seg(a[1]), v) for a, v in facts)
                if fd.get("is_single_and_builtin") is True or fd.get("is_empty") is True:
                    continue
                bad = bb
            ctx.ob("R02-4", pl.path, "wait_fg_job(sh, pgid, &fg_pids) on every return path with foreground children",
                   bad is None, key="R02-4|%s|wait" % pl.path, where=pl.loc(waits[0]), crate=crate.kind,
                   detail="a path returns without waiting although children may be running" if bad is not None else None)
            # (c) result plumbing
            wres = strip_sites(pl.call_expr(waits[0]))
            assigns = []
            for bi, si, s in pl.stmts():
                if s["k"] == "assign" and not s["place"]["p"] and pl.names.get(s["place"]["l"]) and \
                        pl.dominates(waits[0], bi):
                    e = pl.expand_vars(strip_sites(pl.rvalue_expr(s["rv"])))
                    if any(sub == pl.expand_vars(wres) for sub in mir.subexprs(e)):
                        # is this variable part of the returned tuple?
                        nm = pl.names[s["place"]["l"]]
                        assigns.append((bi, nm))
            ok = False
            detail = "wait_fg_job's result is not stored into the returned CommandResult"
            for bi, nm in assigns:
                after = flow.blocks_between(pl, waits[0], set())
                rets = [pl.def_expr(b2, s2) for b2, s2 in pl.defs.get(0, []) if b2 in after]
                if any(any(sub[0] == "var" and sub[2] == nm for sub in mir.subexprs(r)) for r in rets):
                    between = [(a, v) for a, v in dom_facts(pl, bi) if not any(
                        (a, v) == f for f in dom_facts(pl, waits[0]))]
                    capture_only = all(a[0] in ("param", "var") and v is False for a, v in between)
                    if capture_only:
                        ok = True
                        detail = "%s = wait result under %s" % (nm, "; ".join("%s=%s" % (render(a), v) for a, v in between))
            ctx.ob("R02-4", pl.path, "pipeline result = wait_fg_job result unless capturing", ok,
                   key="R02-4|%s|result" % pl.path, crate=crate.kind, detail=detail)


def wait_fg_rules(ctx, crate, wj):
    loops = wj.loops()
    lp = None
    wbb = None
    for h, blocks in loops.items():
        for bb in blocks:
            t = wj.term(bb)
            if t["k"] == "call" and last_seg(wj.callee(t)) in ("waitpidx", "waitpid"):
                lp, wbb = (h, blocks), bb
    if not ctx.require(lp is not None, "R02-5", "R02-5|%s|loop" % wj.path, "no waitpid loop in wait_fg_job", wj.path):
        return
    h, blocks = lp
    ws = strip_sites(wj.call_expr(wbb))
    pids = None
    for l in range(1, wj.arg_count + 1):
        if wj.locals[l]["ty"] in ("&[i32]", "&std::vec::Vec<i32>"):
            pids = wj.local_expr(l)
    if not ctx.require(pids is not None, "R02-5", "R02-5|%s|pids" % wj.path, "no &[i32] parameter", wj.path):
        return
    pids = strip_sites(pids)

    def is_pid_of_ws(e):
        e = wj.expand_vars(strip_sites(e))
        return e[0] == "call" and last_seg(e[1]) == "get_pid" and e[2] and e[2][0] == ws

    def is_last(e):
        e = wj.expand_vars(strip_sites(e))
        for sub in mir.subexprs(e):
            if sub[0] == "call" and last_seg(sub[1]) == "last" and sub[2] and strip_sites(mir.peel(sub[2][0])) == pids:
                return True
        return False

    # (0) what the loop waits for: any child (-1) or a pid of the job, never the process group
    warg = wj.call_args(wbb)[0]
    wc = mir.const_int(wj.expand_vars(strip_sites(warg)))
    gid_params = [wj.local_expr(l) for l in range(1, wj.arg_count + 1) if wj.locals[l]["ty"] == "i32"]
    from_gid = any(flow.backward(wj, warg, lambda z, g=strip_sites(g): z == g) is not None for g in gid_params)
    from_pids = flow.backward(wj, warg, lambda z: z == pids) is not None
    okw = (wc == -1) or (from_pids and not from_gid)
    ctx.ob("R02-7", wj.path, "the wait target is -1 (any child) or a pid of the job, not the job's process group", okw,
           key="R02-7|%s|wait-target" % wj.path, where=wj.loc(wbb), crate=crate.kind,
           detail=None if okw else ("the loop waits on the process group%s: a stage that leaves the group (setsid, "
                                    "setpgid, a job-control shell as a stage) is never reaped, so the shell resumes "
                                    "early with status 0 (ECHILD) or blocks forever" %
                                    (" (-gid)" if from_gid else "")))
    # (a) status writes
    writes = flow.assignments_to_field(wj, "status")
    n_ok = 0
    for bi, si, rhs in writes:
        facts = dom_facts(wj, bi, within=blocks)
        rhs_c = wj.expand_vars(strip_sites(rhs))
        from_ws = rhs_c[0] == "call" and last_seg(rhs_c[1]) == "get_status" and rhs_c[2] and rhs_c[2][0] == ws
        last_guard = False
        for a, v in facts:
            if a[0] == "bin" and a[1] == "Eq" and v is True:
                x, y = a[2], a[3]
                if (is_pid_of_ws(x) and is_last(y)) or (is_pid_of_ws(y) and is_last(x)):
                    last_guard = True
            if a[0] == "bin" and a[1] == "Ne" and v is False:
                x, y = a[2], a[3]
                if (is_pid_of_ws(x) and is_last(y)) or (is_pid_of_ws(y) and is_last(x)):
                    last_guard = True
        ok = from_ws and last_guard
        n_ok += ok
        if ok:
            # ... and under nothing narrower: the other guards may only say `no waitpid error` and `a member of
            # this pipeline`; a further condition on how the process ended loses statuses (128+signal)
            extra = []
            for a, v in facts:
                a2 = wj.expand_vars(strip_sites(a))
                if a2[0] == "call" and last_seg(a2[1]) == "is_error":
                    continue
                if a2[0] == "call" and last_seg(a2[1]) == "contains":
                    continue
                if a2[0] == "var" and wj.locals[a2[1]]["ty"] == "bool":
                    defs = [wj.expand_vars(strip_sites(wj.def_expr(bi2, si2))) for bi2, si2 in wj.defs.get(a2[1], [])]
                    if defs and all(d[0] == "call" and last_seg(d[1]) == "contains" for d in defs):
                        continue
                if a2[0] == "bin" and a2[1] in ("Eq", "Ne") and ((is_pid_of_ws(a2[2]) and is_last(a2[3])) or
                                                                 (is_pid_of_ws(a2[3]) and is_last(a2[2]))):
                    continue
                if a2[0] == "discr":
                    continue
                extra.append("%s=%s" % (render(a2)[:50], v))
            ctx.ob("R02-5", wj.path, "the last stage's status is recorded however it ended (no further guard on the write)",
                   not extra, key="R02-5|%s|status-write-narrowed" % wj.path, where=wj.loc(bi, si), crate=crate.kind,
                   detail=None if not extra else "extra guard(s) %s: a last stage killed by a signal (or stopped) leaves the "
                   "status at 0: `&&` runs on, `$?` reads 0" % "; ".join(extra))
        ctx.ob("R02-5", wj.path, "status = ws.get_status() only under pid == *pids.last()", ok,
               key="R02-5|%s|status-write|%s" % (wj.path, mir.render_key(rhs_c)[:60]), where=wj.loc(bi, si), crate=crate.kind,
               detail="guards: " + "; ".join("%s=%s" % (render(a)[:70], v) for a, v in facts))
    ctx.require(n_ok >= 1, "R02-5", "R02-5|%s|status-write-anchor" % wj.path,
                "no write of ws.get_status() into the result under pid == *pids.last()", wj.path)
    # other full writes of the result variable inside the loop must be on the error path
    resvar = None
    for bi, si in wj.defs.get(0, []):
        e = wj.def_expr(bi, si)
        if e[0] == "var":
            resvar = e
    if resvar is not None:
        for bi, si in wj.defs.get(resvar[1], []):
            if bi in blocks or any(wj.dominates(x, bi) for x in blocks if x == h):
                if bi == 0:
                    continue
                facts = dom_facts(wj, bi)
                on_err = any(a[0] == "call" and last_seg(a[1]) == "is_error" and v is True for a, v in facts)
                if wj.dominates(h, bi):
                    ctx.ob("R02-5", wj.path, "whole-result overwrite only on the waitpid error path", on_err,
                           key="R02-5|%s|result-overwrite" % wj.path, where=wj.loc(bi, si), crate=crate.kind)
    # (b) loop exits
    exits = [(a, b) for a in sorted(blocks) for b in wj.succs[a] if b not in blocks]
    kinds = set()
    for a, b in exits:
        conds = [(atom, val) for tgt, atom, val in wj.switch_edges(a) if tgt == b]
        facts = dom_facts(wj, a, within=blocks) + conds
        if any(at[0] == "call" and last_seg(at[1]) == "is_error" and v is True for at, v in facts):
            kinds.add("error")
            continue
        good = False
        for at, v in conds:
            if at[0] == "bin" and v is True and at[1] in ("Ge", "Eq"):
                x = wj.expand_vars(strip_sites(at[3]))
                if at[2][0] == "var" and x[0] == "call" and last_seg(x[1]) == "len" and strip_sites(mir.peel(x[2][0])) == pids:
                    good = True
                    counter = at[2]
            if at[0] == "bin" and v is False and at[1] == "Lt":
                x = wj.expand_vars(strip_sites(at[3]))
                if at[2][0] == "var" and x[0] == "call" and last_seg(x[1]) == "len":
                    good = True
        if good:
            kinds.add("count")
        desc = "; ".join("%s=%s" % (mir.render_key(at)[:70], v) for at, v in conds) or "unconditional"
        ctx.ob("R02-5", wj.path, "loop exit [%s] is one of {waitpid error, count_waited >= count_child}" % desc, good,
               key="R02-5|%s|exit|%s" % (wj.path, desc), where=wj.loc(a), crate=crate.kind)
    ctx.require("count" in kinds, "R02-5", "R02-5|%s|exit-count" % wj.path,
                "the wait loop has no exit on count_waited >= count_child", wj.path)
    # (c) counter increment
    incs = []
    for bi, si, s in wj.stmts():
        if bi in blocks and s["k"] == "assign" and not s["place"]["p"]:
            e = strip_sites(wj.rvalue_expr(s["rv"]))
            l = s["place"]["l"]
            if e[0] == "bin" and e[1] == "Add" and e[2][0] == "var" and e[2][1] == l and const_int(e[3]) == 1:
                incs.append((bi, si))
    if ctx.require(len(incs) == 1, "R02-5", "R02-5|%s|counter" % wj.path,
                   "expected one `count += 1` in the wait loop, found %d" % len(incs), wj.path):
        bi, si = incs[0]
        facts = dom_facts(wj, bi, within=blocks)
        fg = any(a[0] == "call" and last_seg(a[1]) == "contains" and v is True and is_pid_of_ws(a[2][1]) for a, v in facts)
        nc = any(a[0] == "call" and last_seg(a[1]) == "is_continued" and v is False for a, v in facts)
        extra = [(a, v) for a, v in facts if not (a[0] == "call" and last_seg(a[1]) in ("contains", "is_continued", "is_error"))]
        ctx.ob("R02-5", wj.path, "count_waited += 1 exactly under fg-child and not continued", fg and nc and not extra,
               key="R02-5|%s|counter-guard" % wj.path, where=wj.loc(bi, si), crate=crate.kind,
               detail="guards: " + "; ".join("%s=%s" % (render(a)[:60], v) for a, v in facts))


def status_const_rule(ctx, crate):
    gs = crate.fn("types::WaitStatus::get_status")
    sg = crate.fn("types::WaitStatus::_get_signaled_status")
    if not ctx.require(gs is not None, "R02-5", "R02-5|get_status|anchor", "WaitStatus::get_status not found"):
        return
    ctx.analysed(gs)
    # returns field 2 under is_exited, else field 2 + 128 (directly or through a helper)
    ok_exit = ok_sig = False
    for bi, si in gs.defs.get(0, []):
        e = gs.expand_vars(strip_sites(gs.def_expr(bi, si)))
        facts = dom_facts(gs, bi)
        exited = [v for a, v in facts if a[0] == "call" and last_seg(a[1]) == "is_exited"]
        if exited == [True] and e[0] == "field" and e[1] == 2:
            ok_exit = True
        if exited == [False]:
            if e[0] == "bin" and e[1] == "Add" and const_int(e[3]) == 128 and e[2][0] == "field" and e[2][1] == 2:
                ok_sig = True
            if e[0] == "call" and sg is not None and e[1] == sg.path:
                r = sg.expand_vars(strip_sites(sg.return_expr()))
                if r[0] == "bin" and r[1] == "Add" and const_int(r[3]) == 128 and r[2][0] == "field" and r[2][1] == 2:
                    ok_sig = True
    ctx.ob("R02-5", gs.path, "get_status = exit code when exited, else 128 + signal", ok_exit and ok_sig,
           key="R02-5|%s|constants" % gs.path, crate=crate.kind)


def fork_rule(ctx, crate, body):
    forks = [bb for bb, t, c in body.calls() if last_seg(c) == "fork"]
    inloop = [bb for bb in forks if any(bb in blocks for blocks in body.loops().values())]
    ctx.ob("R02-6", body.path, "one fork() call site, not inside a loop", len(forks) == 1 and not inloop,
           key="R02-6|%s|fork-site" % body.path, where=body.loc(forks[0]) if forks else None, crate=crate.kind,
           detail=None if len(forks) == 1 and not inloop else "%d fork site(s), %d in a loop" % (len(forks), len(inloop)))
    # entry of the child region: target of the switch edge ForkResult::Child on the fork result
    entries = []
    for bb in sorted(body.reachable):
        for tgt, atom, val in body.switch_edges(bb):
            if val == "Child" and atom[0] == "discr":
                entries.append(tgt)
    if not ctx.require(bool(entries), "R02-6", "R02-6|%s|child-arm" % body.path, "no ForkResult::Child arm found", body.path):
        return
    region, todo = set(), list(entries)
    while todo:
        x = todo.pop()
        if x in region:
            continue
        region.add(x)
        todo.extend(body.succs[x])
    # the shell's code: everything reachable from the entry without taking the Child edge
    shell, todo = set(), [0]
    while todo:
        x = todo.pop()
        if x in shell:
            continue
        shell.add(x)
        for y in body.succs[x]:
            if y in entries and any(tgt == y and val == "Child" for tgt, atom, val in body.switch_edges(x)):
                continue
            todo.append(y)
    rets = sorted(bb for bb in region if body.term(bb)["k"] == "return")
    ctx.ob("R02-6", body.path, "the child never returns from run_single_program", not rets,
           key="R02-6|%s|child-return" % body.path, where=body.loc(rets[0]) if rets else None, crate=crate.kind,
           detail=None if not rets else "a forked child that returns keeps running the shell's loop: the remaining stages "
           "are started a second time and two shells read the same input")
    shared = sorted(region & shell)
    ctx.ob("R02-6", body.path, "no block is shared between the child's code and the shell's code", not shared,
           key="R02-6|%s|child-joins-shell" % body.path, where=body.loc(shared[0]) if shared else None, crate=crate.kind)
    ends = [bb for bb in region if not body.succs[bb]]
    bad = [bb for bb in ends if not (body.term(bb)["k"] == "call" and body.callee(body.term(bb)).endswith("process::exit"))
           and body.term(bb)["k"] != "unreachable"]
    ctx.ob("R02-6", body.path, "every maximal path of the child ends in process::exit (%d ends)" % len(ends),
           bool(ends) and not bad, key="R02-6|%s|child-ends" % body.path, where=body.loc(bad[0]) if bad else None,
           crate=crate.kind)


SIGCHLD = 17    # Linux; the value the libc crate gives the constant in this build
RUNNERS = ("run_script", "run_command_line", "run_procs_for_non_tty", "read_line", "run_procs")


def sigchld_rule(ctx, crate, rule):
    b = crate.fn("main")
    if not ctx.require(b is not None, rule, "%s|anchor" % rule, "main not found"):
        return
    ctx.analysed(b)
    sets = []
    for bb, t, c in b.calls():
        if last_seg(c) == "signal" and "libc" in c:
            a = b.call_args(bb)
            if len(a) == 2 and mir.const_int(a[0]) == SIGCHLD and mir.const_int(b.expand_vars(strip_sites(a[1]))) != 1:
                sets.append(bb)        # anything but SIG_IGN (1)
        if last_seg(c) in ("sigaction", "setup_sigchld_handler") and not sets:
            pass
    runners = [(bb, last_seg(c)) for bb, t, c in b.calls() if last_seg(c) in RUNNERS]
    if not ctx.require(len(runners) >= 4, rule, "%s|main|runners" % rule,
                       "expected the four ways main runs commands (script, -c, non-tty, read_line), found %d" % len(runners), "main"):
        return
    for bb, name in runners:
        ok = any(b.dominates(s_, bb) for s_ in sets)
        ctx.ob(rule, "main", "signal(SIGCHLD, SIG_DFL | handler) dominates %s" % name, ok,
               key="%s|main|sigchld-disposition|%s" % (rule, name), where=b.loc(bb), crate=crate.kind,
               detail=None if ok else "started by a parent that ignores SIGCHLD (some daemons, `trap '' CHLD`, Python with "
               "SIGCHLD ignored), the shell reports status 0 for every command: `false && echo x` prints x")


SIGNAMES = {1: "SIGHUP", 2: "SIGINT", 3: "SIGQUIT", 13: "SIGPIPE", 15: "SIGTERM", 17: "SIGCHLD", 18: "SIGCONT", 20: "SIGTSTP",
            21: "SIGTTIN", 22: "SIGTTOU", 28: "SIGWINCH"}


def _signal_sets(b):
    """[(bb, signal number, 'ign' | 'dfl' | 'other')] for libc::signal / nix signal calls with constant arguments"""
    out = []
    for bb, t, c in b.calls():
        if last_seg(c) != "signal" or not ("libc" in c or "nix" in c):
            continue
        a = [b.expand_vars(strip_sites(x)) for x in b.call_args(bb)]
        if len(a) != 2:
            continue
        sig = mir.const_int(a[0])
        h = mir.const_int(a[1])
        r = render(a[1])
        kind = "ign" if (h == 1 or "SigIgn" in r) else "dfl" if (h == 0 or "SigDfl" in r) else "other"
        if sig is None:
            for k, v in SIGNAMES.items():
                if v in render(a[0]):
                    sig = k
        out.append((bb, sig, kind))
    return out


def inherited_dispositions_rule(ctx, rule):
    """a disposition of `ignore` survives execve: every signal the shell ignores (anywhere, in either crate) is set back
    to SIG_DFL in the child between fork and exec, on every path"""
    ignored = {}
    for crate in ctx.crates:
        for b in crate.fns():
            for bb, sig, kind in _signal_sets(b):
                if kind == "ign":
                    ignored.setdefault(sig, []).append("%s (%s)" % (b.path, crate.kind))
    if not ctx.require(len(ignored) >= 2, rule, "%s|ignored-set" % rule,
                       "expected the shell to ignore at least SIGTSTP and SIGQUIT, found %s" % sorted(ignored)):
        return
    for crate in ctx.crates:
        b = crate.fn("core::run_single_program")
        if b is None:
            continue
        entry, child = None, set()
        for bb in sorted(b.reachable):
            for tgt, atom, val in b.switch_edges(bb):
                if atom[0] == "discr" and val == "Child" and any(
                        x[0] == "call" and last_seg(x[1]) == "fork" for x in mir.subexprs(atom)):
                    entry, child = tgt, edge_dominated(b, bb, tgt)
        if not ctx.require(entry is not None, rule, "%s|%s|child" % (rule, crate.kind), "Child arm of fork not found", b.path):
            continue
        execs = {bb for bb, t, c in b.calls() if bb in child and last_seg(c) in ("execve", "execvp", "execv", "execvpe")}
        if not ctx.require(bool(execs), rule, "%s|%s|exec" % (rule, crate.kind), "no exec in the child region", b.path):
            continue
        resets = {}
        for bb, sig, kind in _signal_sets(b):
            if bb in child and kind == "dfl":
                resets.setdefault(sig, set()).add(bb)
        for sig in sorted(ignored, key=lambda x: (x is None, x)):
            name = SIGNAMES.get(sig, "signal %s" % sig)
            ok = sig in resets and flow.must_pass(b, entry, resets[sig], execs)
            ctx.ob(rule, b.path, "%s (ignored by the shell in %s) is back to SIG_DFL in the child before every exec" %
                   (name, ", ".join(sorted(set(ignored[sig])))[:80]), ok,
                   key="%s|%s|child-resets|%s" % (rule, b.path, name), crate=crate.kind, where=b.loc(entry),
                   detail=None if ok else "an ignored disposition is inherited through fork and execve: the program never "
                   "receives %s (a writer never dies of SIGPIPE when its reader leaves and the pipeline does not end; "
                   "Ctrl-Z / Ctrl-\\ do nothing to the job)" % name)
