"""C11 - command substitution splices the command's output in literally, exactly once."""
from .. import flow, mir, taint
from ..mir import const_bool, last_seg, render, strip_sites
from . import c05, c07

EXPLANATION = ("C11: taint rules over the three substitution sites: captured output must not reach a regex replacement "
               "template unescaped (`$1`, `${x}` in output would be interpreted) and must not flow back into the `$(` "
               "scanner (output would be executed); the rewrite loop cannot stutter; every site calls run_pipeline with "
               "capture = true and gives the terminal back; only trailing newlines are stripped from the output.  What "
               "the inner command prints is not decided.")

SITES = ["shell::do_command_substitution_for_dollar", "shell::do_command_substitution_for_dot"]


def run(ctx):
    ctx.rule("R11-1", "text derived from CommandResult.stdout reaches a Regex::replace* template only through "
                      "`$` -> `$$` escaping or NoExpand")
    ctx.rule("R11-2", "the spliced output never flows back into should_do_dollar_command_extension / the `$(` regex")
    ctx.rule("R11-3", "never a hang: the `$(` rewrite loop and the backquote rewrite loop have no cycle path that leaves "
                      "what their exit tests read unchanged (unparsable inner command)")
    ctx.rule("R11-4", "each substitution site calls run_pipeline(.., capture = true, ..) and gives the terminal back")
    ctx.rule("R11-6", "the rewritten word keeps the text around the substitution: the new line is produced by "
                      "Regex::replace* on the old line (which keeps unmatched text), not assembled from capture groups of "
                      "an unanchored pattern")
    ctx.rule("R11-5", "between stdout and the splice only trailing newlines are removed; the captured stdout is read on every "
                      "path from the capturing run to the splice (the output is not made to depend on the command's status)")
    ctx.rule("R11-8", "cmd runs exactly once: no function expands the same line twice - on no path do two call sites that "
                      "(transitively) reach shell::do_expansion receive text derived from the same parameter")
    ctx.rule("R11-9", "never a hang: the pattern that splices the output in is at least as wide as the loop's gate. The gate "
                      "is an unanchored search for `$( ... )`; a splice by Regex::replace* whose pattern carries a start / "
                      "end anchor fails to match words the gate accepts (an earlier `$`, a later newline), replaces "
                      "nothing, and the loop runs the inner command for ever")
    ctx.rule("R11-10", "the whole output is captured: the parent reads each capture pipe to end-of-file (read_to_string / "
                       "read_to_end directly on the File made from the pipe's read end) - no take(), no bounded or single read")
    ctx.rule("R11-11", "the output is inserted as literal text: in do_expansion no pass that interprets characters of an untagged "
                       "word (glob, brace, brace range, tilde, `$NAME`) runs AFTER the substitution passes, whose results "
                       "stay in untagged words")
    ctx.rule("R11-7", "the output is spliced into the word that held the substitution: the position recorded for a word is "
                      "not used after the token vector's length changed (E-EDITLIST)")
    ctx.rule("R11-12", "a substitution leaves no residue that changes the next one: in the functions reachable from "
                       "do_expansion, a field that is raised and lowered around the work (`depth += 1 .. depth -= 1`) is "
                       "lowered on EVERY path to a return - an early return inside the bracket leaks a level per "
                       "occurrence until a limit trips and every later `$(...)` yields nothing")
    ctx.rule("R11-13", "several substitutions in one word are taken one at a time: the pattern that picks the command out of the "
                       "word (a literal, or a choice between literals made by a regex test on the word - both read from the "
                       "code), evaluated with the program's regex engine on words with two, nested and parenthesised "
                       "substitutions, captures one complete command - never `A)$(B` from `$(A)$(B)`")
    ctx.rule("R11-14", "a cmd that cannot be run yields a diagnostic, and what cmd writes to stderr is not swallowed: the command "
                       "of a substitution runs with both streams captured, so at every capture site the `stderr` field of "
                       "the result is handed, on every path from the call to the use of `stdout`, to something that writes "
                       "it to the shell's stderr")
    ctx.rule("R11-15", "the output of a function used as cmd is what its commands wrote: try_run_func assembles the result "
                       "from the fields of the results of the body without trimming them and without inserting separators "
                       "(only push_str of the field itself)")
    ctx.rule("R11-16", "in assignments: every pattern that recognises `NAME=value` after expansion (the prefix-assignment "
                       "recogniser, the export builtin and its helper), evaluated with the program's regex engine, accepts "
                       "a value that contains newlines and captures all of it")
    ctx.rule("R11-17", "the shell's own state is unaffected by cmd: a substitution runs its command through "
                       "run_pipeline(capture = true), so whatever run_pipeline / run_single_program execute inside the shell "
                       "process (a function body, a single builtin) must be reached only when not capturing - otherwise "
                       "`$(cd /tmp)`, `$(export X=1)`, `$(alias a=b)` change the shell and `$(exit 3)` ends it")
    for crate in ctx.crates:
        bracket_rule(ctx, crate)
        one_at_a_time_rule(ctx, crate)
        stderr_shown_rule(ctx, crate)
        function_output_rule(ctx, crate)
        multiline_value_rule(ctx, crate)
        isolation_rule(ctx, crate)
        from .. import editlist
        n_ = editlist.rule(ctx, crate, "R11-7", list(SITES))
        ctx.floor("R11-7", crate, "substitution passes with a token vector", n_, 2)
        once_rule(ctx, crate)
        pass_order_rule(ctx, crate, "R11-11")
        read_to_eof_rule(ctx, crate)
        scanners = taint.dollar_scanners(crate)
        nsites = 0
        for p in SITES:
            b = crate.fn(p)
            if not ctx.require(b is not None, "R11-1", "R11-1|anchor|%s" % p, "%s not found" % p):
                continue
            ctx.analysed(b)
            template_rule(ctx, crate, b)
            rescan_rule(ctx, crate, b, scanners)
            nsites += capture_rule(ctx, crate, b)
            trim_rule(ctx, crate, b)
        ctx.floor("R11-4", crate, "substitution run_pipeline sites", nsites, 3)
        stutter_rule(ctx, crate)
        surrounding_rule(ctx, crate)
        splice_width_rule(ctx, crate)
    # terminal give-back at these sites: reuse R07-1 (relabelled)
    before = len(ctx.obligations)
    for crate in ctx.crates:
        c07.pairing_rule(ctx, crate)
    for o in ctx.obligations[before:]:
        o["rule"] = "R11-4"
    for k in list(ctx.violations):
        if k.startswith("R07-1"):
            v = ctx.violations.pop(k)
            if any(s in k for s in SITES):
                v["rule"] = "R11-4"
                v["key"] = "R11-4" + k[5:]
                ctx.violations[v["key"]] = v


def template_rule(ctx, crate, b):
    sp = taint.source_pred(crate, taint.is_cmd_output)
    n = 0
    for bb, arg, desc in taint.template_sinks(b):
        hit = flow.backward(b, arg, sp, stop=taint.is_dollar_escape)
        ctx.ob("R11-1", b.path, "command output does not reach the %s unescaped" % desc, hit is None,
               key="R11-1|%s|template#%d" % (b.path, n), where=b.loc(bb), crate=crate.kind,
               detail=None if hit is None else "`$1` / `${name}` inside the output is interpreted as a capture reference: "
                                               "echo $(echo 'a$1b') prints `a`")
        n += 1


def rescan_rule(ctx, crate, b, scanners):
    edges = taint.feedback_edges(crate, b, taint.is_cmd_output, scanners)
    seen = set()
    for src, scanner, bb in edges:
        k = scanner
        if k in seen:
            continue
        seen.add(k)
        ctx.ob("R11-2", b.path, "spliced output is not rescanned by %s" % scanner, False,
               key="R11-2|%s|rescan|%s" % (b.path, scanner), where=b.loc(bb), crate=crate.kind,
               detail="output that contains `$(cmd)` is executed")
    if not edges:
        ctx.ob("R11-2", b.path, "no captured output reaches a `$(` scanner", True, crate=crate.kind)


def capture_rule(ctx, crate, b):
    n = 0
    for bb, t, c in b.calls():
        if last_seg(c) == "run_pipeline" and c.endswith("core::run_pipeline"):
            a = b.call_args(bb)
            cap = const_bool(strip_sites(a[3])) if len(a) > 3 else None
            ctx.ob("R11-4", b.path, "run_pipeline called with capture = true", cap is True,
                   key="R11-4|%s|capture#%d" % (b.path, n), where=b.loc(bb), crate=crate.kind,
                   detail="capture argument: %s" % (render(strip_sites(a[3])) if len(a) > 3 else "?"))
            n += 1
    return n


TRIMMERS = {"trim", "trim_start", "trim_end", "trim_matches", "trim_start_matches", "trim_left", "trim_right",
            "to_lowercase", "to_uppercase", "replace", "replacen", "split_whitespace", "lines"}


def trim_rule(ctx, crate, b):
    """every place the stdout field is read: the chain of calls applied to it"""
    n = 0
    seen = set()
    for bb, t, c in b.calls():
        for a in b.call_args(bb):
            e = strip_sites(a)
            if not (mir.peel(e)[0] == "field" and mir.field_name(mir.peel(e)) == "stdout"):
                continue
            ls = last_seg(c)
            if ls in mir.IDENTITY_CALLS or ("::" + ls) in mir.IDENTITY_CALLS or ls in ("deref", "clone", "as_str", "to_string"):
                continue
            if (bb, ls) in seen:
                continue
            seen.add((bb, ls))
            ok = True
            why = ls
            if ls in TRIMMERS:
                ok = False
                if ls == "trim_end_matches":
                    pass
            if ls == "trim_end_matches":
                args = b.call_args(bb)
                ch = mir.const_char(args[1]) if len(args) > 1 else None
                s = mir.const_str(args[1]) if len(args) > 1 else None
                ok = ch == "\n" or s == "\n"
                why = "trim_end_matches(%r)" % (ch or s)
            ctx.ob("R11-5", b.path, "stdout passes only through trailing-newline removal (uses %s)" % why, ok,
                   key="R11-5|%s|stdout-%s#%d" % (b.path, ls, n), where=b.loc(bb), crate=crate.kind,
                   detail=None if ok else "leading blanks and trailing spaces/tabs of the output are lost")
            n += 1
    ctx.require(n >= 1, "R11-5", "R11-5|%s|anchor" % b.path, "no use of the captured stdout found", b.path)
    # the captured text is used whatever the command's status was: every path from a capturing run_pipeline call to the
    # next token / the return passes one of the reads of stdout (no `if status != 0 { return "" }` around it)
    uses = {bb for bb, ls in seen}
    k = 0
    for rb, t, c in b.calls():
        if not c.endswith("core::run_pipeline") or not b.succs[rb]:
            continue
        loop = None
        for h, blocks in b.loops().items():
            if rb in blocks and (loop is None or len(blocks) < len(loop[1])):
                loop = (h, blocks)
        # inside a loop: the way to the next round (the splice lies on it); an early return on a fault that cannot
        # be the command's doing (the constant pattern not compiling) is not a splice of nothing
        ends = {loop[0]} if loop else set(b.exits())
        ok = bool(uses) and flow.must_pass(b, b.succs[rb][0], uses, ends)
        ctx.ob("R11-5", b.path, "the captured stdout is read on every path after the command ran (whatever its status)", ok,
               key="R11-5|%s|stdout-always-read#%d" % (b.path, k), where=b.loc(rb), crate=crate.kind,
               detail=None if ok else "some path from the capturing run to the splice does not read stdout: the output of a "
               "command that wrote text and then failed is replaced by nothing")
        k += 1


def stutter_rule(ctx, crate):
    """never a hang: in both substitution passes every loop that is not driven by an iterator changes, on every cycle
    path, something its exit tests read (the progress analysis of C05 R05-2, with the same audited exemptions)"""
    for i, site in enumerate(SITES):
        b = crate.fn(site)
        if b is None:
            continue
        found = False
        for h, blocks in sorted(b.loops().items()):
            exits = [(x, y) for x in sorted(blocks) for y in b.succs[x] if y not in blocks]
            if any(atom[0] == "discr" and val == "None" and atom[1][0] == "call" and last_seg(atom[1][1]) in ("next", "next_back")
                   for x, y in exits for tgt, atom, val in b.switch_edges(x) if tgt == y):
                continue
            found = True
            allow = None
            if i > 0:
                ent = c05.LOOP_TABLE.get((b.path, c05.loop_desc(b, h, blocks, exits)))
                if ent is not None and ent[1] == "exempt":
                    continue
                allow = c05.ALLOW.get(ent[1]) if ent is not None else None
            ok, detail, n = c05.stutter_free(b, h, blocks, exits, allow=allow) if allow is not None else \
                c05.stutter_free(b, h, blocks, exits)
            ctx.paths_enumerated += n
            what = "the `$(` rewrite loop changes the line on every cycle path" if i == 0 else \
                "the backquote rewrite loop changes its token on every cycle path (also after a command that cannot be parsed)"
            ctx.ob("R11-3", b.path, what, ok, key="R11-3|%s|stutter" % b.path, where=b.loc(h), crate=crate.kind, detail=detail)
        if i == 0:
            ctx.require(found, "R11-3", "R11-3|%s|loop" % b.path, "no rewrite loop found", b.path)


def surrounding_rule(ctx, crate):
    b = crate.fn(SITES[0])
    if b is None:
        return
    # the variable the rewrite loop scans and reassigns
    loopvar = None
    for h, blocks in b.loops().items():
        for x in blocks:
            for tgt, atom, val in b.switch_edges(x):
                if atom[0] == "call" and last_seg(atom[1]) == "should_do_dollar_command_extension" and tgt not in blocks:
                    for s_ in mir.subexprs(atom):
                        if s_[0] == "var":
                            loopvar = s_
    if not ctx.require(loopvar is not None, "R11-6", "R11-6|%s|loopvar" % b.path, "rewrite loop variable not found", b.path):
        return
    n = 0
    for bi, si in b.defs.get(loopvar[1], []):
        e = b.def_expr(bi, si)
        if not any(bi in blocks for h, blocks in b.loops().items()):
            continue       # the initial `line = token.to_string()`
        if not flow.backward(b, e, taint.source_pred(crate, taint.is_cmd_output)):
            continue
        via_replace = flow.backward(b, e, lambda z: z[0] == "call" and last_seg(z[1]) in ("replace", "replacen", "replace_all")
                                    and "egex" in z[1] and len(z[2]) >= 2 and
                                    flow.backward(b, z[2][1], lambda y: y[0] == "var" and y[1] == loopvar[1]) is not None)
        ok = via_replace is not None
        if not ok:
            # assembled by hand: acceptable only from an anchored pattern
            lit = None
            hit = flow.backward(b, e, lambda z: z[0] == "call" and last_seg(z[1]) == "new" and "egex" in z[1] and z[2]
                                and mir.const_str(z[2][0]) is not None)
            if hit is not None:
                lit = mir.const_str(hit[2][0])
            ok = lit is not None and lit.startswith("^") and lit.endswith("$")
        ctx.ob("R11-6", b.path, "text around the substituted `$(...)` is preserved in the rewritten word", ok,
               key="R11-6|%s|rewrite#%d" % (b.path, n), where=b.loc(bi, si), crate=crate.kind,
               detail=None if ok else "the new word is assembled from capture groups of an unanchored pattern: text outside "
                                      "the groups (before an earlier `$`, after a newline) is dropped")
        n += 1
    ctx.require(n >= 1, "R11-6", "R11-6|%s|anchor" % b.path, "no reassignment of the rewritten word from command output found", b.path)


TEXT_TYPES = ("&str", "&std::string::String", "std::string::String", "&mut std::string::String")


def _is_text(b, l):
    return b.locals[l]["ty"].replace("&'_ ", "&") in TEXT_TYPES


def _feeds(b, arg, l):
    pe = strip_sites(b.local_expr(l))
    return flow.backward(b, arg, lambda z: z == pe, through_containers=False) is not None


def direct_expanders(crate):
    """{function path: set of parameter indexes whose text the function tokenizes and expands}: the function calls
    parse_line(x) with x derived from the parameter and do_expansion on tokens derived from that result; closed
    under passing the text on to such a function"""
    out = {}
    target = "shell::do_expansion"
    for p, b in crate.bodies.items():
        if b.kind != "fn":
            continue
        pls = [bb for bb, t, c in b.calls() if c.endswith("parser_line::parse_line")]
        des = [bb for bb, t, c in b.calls() if c == target]
        if not pls or not des:
            continue
        for l in range(1, b.arg_count + 1):
            if not _is_text(b, l):
                continue
            for pb in pls:
                if not _feeds(b, b.call_args(pb)[0], l):
                    continue
                res = strip_sites(b.call_expr(pb))
                for db in des:
                    targ = b.call_args(db)[-1]
                    if flow.backward(b, targ, lambda z: z == res) is not None or any(
                            sub == res for sub in mir.subexprs(b.expand_vars(strip_sites(targ)))):
                        out.setdefault(p, set()).add(l)
    changed = True
    while changed:
        changed = False
        for p, b in crate.bodies.items():
            if b.kind != "fn":
                continue
            for bb, t, c in b.calls():
                ci = b.callee_info(t)
                callee = (ci or {}).get("resolved") or c
                if callee not in out or callee == p:
                    continue
                args = b.call_args(bb)
                for k in out[callee]:
                    if k - 1 >= len(args):
                        continue
                    for l in range(1, b.arg_count + 1):
                        if _is_text(b, l) and _feeds(b, args[k - 1], l):
                            if l not in out.get(p, set()):
                                out.setdefault(p, set()).add(l)
                                changed = True
    return out


def once_rule(ctx, crate):
    """a line handed to an entry function is expanded once"""
    if not ctx.require(crate.fn("shell::do_expansion") is not None, "R11-8", "R11-8|anchor", "shell::do_expansion not found"):
        return
    exp = direct_expanders(crate)
    if not ctx.require("types::CommandLine::from_line" in exp, "R11-8", "R11-8|anchor|from_line",
                       "CommandLine::from_line not recognised as the function that tokenizes and expands a line"):
        return
    nfn = 0
    for p in sorted(exp):
        b = crate.fn(p)
        sites = []
        for bb, t, c in b.calls():
            ci = b.callee_info(t)
            callee = (ci or {}).get("resolved") or c
            if callee not in exp or callee == p:
                continue
            args = b.call_args(bb)
            roots = set()
            for k in exp[callee]:
                if k - 1 < len(args):
                    for l in exp[p]:
                        if _feeds(b, args[k - 1], l):
                            roots.add(l)
            if roots:
                sites.append((bb, callee, roots))
        # the function's own parse_line + do_expansion counts as a site too
        own = [bb for bb, t, c in b.calls() if c == "shell::do_expansion"]
        for bb in own:
            sites.append((bb, "shell::do_expansion", set(exp[p])))
        if len(sites) < 2:
            continue
        nfn += 1
        back = set(b.back_edges())
        bad = None
        for b1, c1, r1 in sites:
            reach, todo = set(), [y for y in b.succs[b1] if (b1, y) not in back]
            while todo:
                x = todo.pop()
                if x not in reach:
                    reach.add(x)
                    todo.extend(y for y in b.succs[x] if (x, y) not in back)
            for b2, c2, r2 in sites:
                if b2 != b1 and (r1 & r2) and b2 in reach:
                    bad = (b1, c1, b2, c2)
        ctx.ob("R11-8", p, "the text of one parameter is tokenized and expanded at most once per path", bad is None,
               key="R11-8|%s|expanded-twice" % p, where=b.loc(bad[2]) if bad else "", crate=crate.kind,
               detail=None if bad is None else "%s and then %s both expand the line: every $(cmd) / `cmd` on it runs twice"
               % (mir.short(bad[1]), mir.short(bad[3])))
    ctx.ob("R11-8", "call graph", "%d function(s) tokenize-and-expand a text parameter (directly or by passing it on); %d have "
           "two or more such sites" % (len(exp), nfn), True, crate=crate.kind, nontrivial=False)


def splice_width_rule(ctx, crate):
    from .. import refacts
    b = crate.fn(SITES[0])
    if b is None:
        return
    n = 0
    for bb, t, c in b.calls():
        if last_seg(c) in ("replace", "replacen", "replace_all") and "egex" in c:
            lits = None
            hit = flow.backward(b, b.call_args(bb)[0], lambda z: z[0] == "call" and last_seg(z[1]) == "new" and "egex" in z[1]
                                and z[2], through_containers=False)
            if hit is not None:
                # the call site of Regex::new: its argument may be a local with several literal definitions
                for b2, t2, c2 in b.calls():
                    if c2.endswith("Regex::new") and strip_sites(b.call_expr(b2)) == strip_sites(hit):
                        lits = flow.const_alternatives(b, b.call_args(b2)[0])
            if not ctx.require(lits is not None, "R11-9", "R11-9|%s|pattern#%d" % (b.path, n),
                               "the splice pattern is not a literal (or a choice between literals)", b.path):
                n += 1
                continue

            def looks(x):
                if isinstance(x, dict):
                    if x.get("k") == "look":
                        yield x.get("v")
                    for v in x.values():
                        yield from looks(v)
                elif isinstance(x, list):
                    for v in x:
                        yield from looks(v)
            for lit in lits:
                sh = refacts.info(lit).get("shape") or {}
                anchors = sorted(set(looks(sh)))
                ok = bool(sh) and not anchors
                ctx.ob("R11-9", b.path, "the splice pattern %r is an unanchored search, like the gate" % lit[:40], ok,
                       key="R11-9|%s|splice-anchored#%d" % (b.path, n), where=b.loc(bb), crate=crate.kind,
                       detail=None if ok else "anchors %s: for `\"a$1b $(cmd) c\"` the pattern does not match, nothing is "
                       "replaced and the rewrite loop never ends" % anchors)
            n += 1
    ctx.require(n >= 1, "R11-9", "R11-9|%s|anchor" % b.path, "no Regex::replace* splice found", b.path)


def read_to_eof_rule(ctx, crate):
    b = crate.fn("core::run_single_program")
    if not ctx.require(b is not None, "R11-10", "R11-10|anchor", "core::run_single_program not found"):
        return
    # Files made from capture pipe read ends
    files = []
    for bb, t, c in b.calls():
        if last_seg(c) == "from_raw_fd" and "File" in c:
            a = b.expand_vars(strip_sites(b.call_args(bb)[0]))
            if any(sub[0] == "var" and "capture" in str(sub[2]) for sub in mir.subexprs(a)) or \
                    any(sub[0] == "param" and "capture" in str(sub[2]) for sub in mir.subexprs(a)):
                files.append((bb, strip_sites(b.call_expr(bb))))
    if not ctx.require(len(files) >= 2, "R11-10", "R11-10|%s|files" % b.path,
                       "expected the two capture pipes to be wrapped in Files, found %d" % len(files), b.path):
        return
    LIMITING = {"take", "read", "read_exact", "read_buf", "bytes", "chain", "read_vectored", "lines", "read_line", "read_until"}
    for k, (fbb, fexpr) in enumerate(files):
        readers, limited = [], []
        for bb, t, c in b.calls():
            args = b.call_args(bb)
            if not args:
                continue
            recv = b.expand_vars(strip_sites(args[0]))
            derives = any(sub == fexpr for sub in mir.subexprs(recv)) or \
                flow.backward(b, args[0], lambda z: z[0] == "call" and last_seg(z[1]) == "from_raw_fd" and
                              strip_sites(z) == fexpr, through_containers=False) is not None
            if not derives:
                continue
            ls = last_seg(c)
            if ls in ("read_to_string", "read_to_end"):
                inner = [last_seg(x[1]) for x in mir.subexprs(recv) if x[0] == "call"]
                if set(inner) & LIMITING:
                    limited.append((bb, ls + " on " + "/".join(sorted(set(inner) & LIMITING))))
                else:
                    readers.append(bb)
            elif ls in LIMITING and ("Read" in c or "File" in c or "Take" in c or "io::" in c):
                limited.append((bb, ls))
        ok = bool(readers) and not limited
        ctx.ob("R11-10", b.path, "capture pipe #%d is read to end-of-file" % k, ok,
               key="R11-10|%s|read-to-eof#%d" % (b.path, k), where=b.loc((limited or [(fbb, "")])[0][0]), crate=crate.kind,
               detail=None if ok else ("bounded read (%s): output beyond the bound is silently dropped (and a cut inside a "
                                       "multi-byte character makes read_to_string fail, leaving an empty replacement)" %
                                       ", ".join(x[1] for x in limited) if limited else "no read_to_string / read_to_end on it"))


INTERPRETING = {"shell::expand_glob": "file-name patterns (`*`, `?`, `[`)", "shell::expand_brace": "brace lists (`{a,b}`)",
                "shell::expand_brace_range": "brace ranges (`{1..3}`)", "shell::expand_home": "a leading `~`",
                "shell::expand_env": "`$NAME` references", "shell::expand_alias": "alias names"}


def pass_order_rule(ctx, crate, rule):
    from .c13 import passes_in_order
    de, passes = passes_in_order(crate)
    if not ctx.require(de is not None and len(passes) >= 7, rule, "%s|anchor" % rule, "do_expansion / its passes not found"):
        return
    subst = [i for i, p in enumerate(passes) if "command_substitution" in p]
    if not ctx.require(bool(subst), rule, "%s|subst" % rule, "no substitution pass in do_expansion"):
        return
    first = min(subst)
    for i, p in enumerate(passes):
        if p in INTERPRETING:
            ok = i < first
            ctx.ob(rule, de.path, "%s runs before the command substitutions" % p.split("::")[-1], ok,
                   key="%s|%s|after-substitution|%s" % (rule, de.path, p.split("::")[-1]), crate=crate.kind,
                   detail=None if ok else "command output left in an untagged word is searched for %s: `echo $(echo '%s')` does "
                   "not print what the inner command printed" % (INTERPRETING[p], {"shell::expand_brace_range": "{1..3}",
                   "shell::expand_glob": "*.txt", "shell::expand_brace": "{a,b}", "shell::expand_home": "~/x",
                   "shell::expand_env": "$HOME", "shell::expand_alias": "ll"}.get(p, "...")))


def bracket_rule(ctx, crate):
    from .c15 import pairing_rule
    cg = crate.callgraph()
    scope, todo = set(), ["shell::do_expansion"]
    while todo:
        x = todo.pop()
        if x in scope:
            continue
        scope.add(x)
        todo.extend(cg.get(x, ()))
    if not ctx.require(len(scope) >= 10, "R11-12", "R11-12|scope", "call graph below do_expansion too small (%d)" % len(scope)):
        return
    pairing_rule(ctx, crate, rule="R11-12", scope=sorted(scope), strict=False,
                 detail="an early `return` between the increment and the decrement leaves the field raised: each such "
                        "substitution leaks one level, and once the limit is reached every `$(...)` in this shell expands to "
                        "nothing (the command is not run, the surrounding text is lost)")


SUBST_WORDS = {
    "$(A)$(B)": {"A", "B"},
    "x$(A)y$(B)z": {"A", "B"},
    "$(A)-$(B)-$(C)": {"A", "B", "C"},
    "$(A)": {"A"},
    "pre$(A b)post": {"A b"},
    "$(A $(B))": {"B", "A $(B)"},
    "$(A $(B) c)$(D)": {"B", "D", "A $(B) c"},
    "$(f (x))": {"f (x)"},
    "$(A | f '(x)')": {"A | f '(x)'"},
}


def one_at_a_time_rule(ctx, crate):
    from .. import refacts
    from .c02 import dom_facts
    b = crate.fn(SITES[0])
    if b is None:
        return
    # the call that extracts the command: find_first_group(pattern, line) / Regex::captures
    site = None
    for bb, t, c in b.calls():
        if last_seg(c) == "find_first_group":
            site = bb
    if not ctx.require(site is not None, "R11-13", "R11-13|%s|extractor" % b.path,
                       "the call that extracts the command from the word was not found", b.path):
        return
    parg = b.call_args(site)[0]
    alts = flow.const_alternatives(b, parg)
    if not ctx.require(bool(alts), "R11-13", "R11-13|%s|pattern" % b.path,
                       "the extracting pattern is not a literal or a choice between literals", b.path):
        return
    # which literal is used when: each definition of the pattern local with the regex tests that dominate it
    choices = []          # (literal, [(guard literal, truth)])
    r = mir.peel(strip_sites(parg))
    if len(alts) == 1 or r[0] not in ("var", "tmp"):
        choices = [(alts[0], [])]
    else:
        seen, todo = set(), [r[1]]
        while todo:
            l = todo.pop()
            if l in seen:
                continue
            seen.add(l)
            for bi, si in b.defs.get(l, []):
                st = b.blocks[bi]["stmts"][si]
                rv = st["rv"]
                if rv.get("k") == "use":
                    o = rv["op"].get("copy") or rv["op"].get("move")
                    if o is not None and not o["p"]:
                        todo.append(o["l"])
                        continue
                lit = mir.const_str(strip_sites(b.rvalue_expr(rv)))
                guards = []
                for a, v in dom_facts(b, bi):
                    a2 = strip_sites(a)
                    if a2[0] == "call" and last_seg(a2[1]) in ("re_contains", "is_match") and len(a2[2]) >= 2 and \
                            isinstance(v, bool):
                        g = mir.const_str(b.expand_vars(a2[2][1]))
                        if g is not None:
                            guards.append((g, v))
                if lit is not None:
                    choices.append((lit, guards))
    if not ctx.require(bool(choices), "R11-13", "R11-13|%s|choices" % b.path, "cannot read how the pattern is chosen", b.path):
        return
    wrong = []
    n = 0
    try:
        for w, allowed in sorted(SUBST_WORDS.items()):
            used = None
            for lit, guards in choices:
                if all(refacts.matches(g, [w])[0] == v for g, v in guards):
                    used = lit
                    break
            if used is None:
                wrong.append("%s: no pattern selected" % w)
                continue
            got = refacts.captures1(used, [w])[0]
            n += 1
            if got not in allowed:
                wrong.append("%s -> %r" % (w, got))
    except Exception as e:      # fail closed
        ctx.require(False, "R11-13", "R11-13|%s|engine" % b.path, "cannot evaluate the patterns: %s" % str(e)[:120], b.path)
        return
    ctx.ob("R11-13", b.path, "the extracted command is one complete substitution on %d representative words (%d pattern "
                             "choice(s))" % (n, len(choices)), not wrong,
           key="R11-13|%s|one-at-a-time" % b.path, where=b.loc(site), crate=crate.kind,
           detail=None if not wrong else "; ".join(wrong[:4]) + ": the text between the first `$(` and the last `)` is run as "
           "ONE command, `echo $(echo a)$(echo b)` prints `a)$(echo b`")


def _writes_stderr(crate, path, depth=0):
    f = crate.fn(path)
    if f is None or depth > 2:
        return False
    for bb, t, c in f.calls():
        if mir.short(c) in ("std::io::stderr", "std::io::_eprint") or last_seg(c) in ("eprint", "eprintln"):
            return True
        ci = f.callee_info(t)
        if ci is not None and ci.get("local") and _writes_stderr(crate, ci["resolved"], depth + 1):
            return True
    return False


def stderr_shown_rule(ctx, crate):
    n = 0
    for p in SITES:
        b = crate.fn(p)
        if b is None:
            continue
        k = 0
        for bb, t, c in b.calls():
            if not c.endswith("core::run_pipeline"):
                continue
            n += 1
            res = strip_sites(b.call_expr(bb))
            # uses of the result's stdout / stderr after the call
            readers, showers = set(), set()
            for b2, t2, c2 in b.calls():
                if b2 == bb:
                    continue
                for a in b.call_args(b2):
                    e = b.expand_vars(strip_sites(a))
                    subs = list(mir.subexprs(e))
                    if not any(x == res for x in subs) and flow.backward(
                            b, a, lambda z: strip_sites(z) == res, through_containers=False) is None:
                        continue
                    names = {mir.field_name(x) for x in subs if x[0] == "field"}
                    ci = b.callee_info(t2)
                    local = ci["resolved"] if ci is not None and ci.get("local") else None
                    if "stdout" in names:
                        readers.add(b2)
                    if ("stderr" in names and (mir.short(c2) in ("std::io::stderr",) or "write" in last_seg(c2) or
                                               "Argument" in c2)) or (local is not None and _writes_stderr(crate, local)):
                        showers.add(b2)
            ok = bool(readers) and bool(showers) and all(flow.must_pass(b, bb, showers, {r}) for r in readers)
            ctx.ob("R11-14", p, "the captured stderr of the command is passed on before its stdout is used", ok,
                   key="R11-14|%s|stderr-shown#%d" % (p, k), where=b.loc(bb), crate=crate.kind,
                   detail=None if ok else "`echo $(ls /nonexistent)` / `echo $(nosuchcmd)` print no diagnostic: both streams are "
                   "captured and only stdout is looked at")
            k += 1
    ctx.floor("R11-14", crate, "capture sites", n, 3)


def function_output_rule(ctx, crate):
    b = crate.fn("core::try_run_func")
    if not ctx.require(b is not None, "R11-15", "R11-15|anchor", "core::try_run_func not found"):
        return
    ctx.analysed(b)
    bad, n = [], 0
    acc = set()
    for bb, t, c in b.calls():
        ls = last_seg(c)
        a = b.call_args(bb)
        if ls in ("push_str", "push") and "String" in c and len(a) == 2:
            v = b.expand_vars(strip_sites(a[1]))
            from_field = [x for x in mir.subexprs(v) if x[0] == "field" and mir.field_name(x) in ("stdout", "stderr")]
            root = mir.root_local_expr(b.expand_vars(strip_sites(a[0])))
            if from_field:
                n += 1
                acc.add(root)
                trims = [last_seg(x[1]) for x in mir.subexprs(v) if x[0] == "call" and last_seg(x[1]) in TRIMMERS | {"trim_end_matches"}]
                if trims:
                    bad.append((bb, "%s applied to %s" % ("/".join(sorted(set(trims))), mir.field_name(from_field[0]))))
    # separators pushed into the same accumulators
    for bb, t, c in b.calls():
        ls = last_seg(c)
        a = b.call_args(bb)
        if ls in ("push_str", "push") and "String" in c and len(a) == 2:
            root = mir.root_local_expr(b.expand_vars(strip_sites(a[0])))
            if root in acc and (mir.const_char(a[1]) is not None or mir.const_str(b.expand_vars(strip_sites(a[1]))) is not None):
                bad.append((bb, "constant %r inserted between the outputs" % (mir.const_char(a[1]) or mir.const_str(b.expand_vars(strip_sites(a[1]))))))
    if not ctx.require(n >= 1, "R11-15", "R11-15|%s|assembly" % b.path, "no assembly of the body's output found", b.path):
        return
    ctx.ob("R11-15", b.path, "the results of the body are concatenated as written (%d field(s) appended)" % n, not bad,
           key="R11-15|%s|output-exact" % b.path, where=b.loc((bad or [(0, "")])[0][0]), crate=crate.kind,
           detail=None if not bad else "; ".join(x[1] for x in bad[:3]) + ": `\"$(f)\"` for a body `echo \"  a  \"; echo b` "
           "gives `a b ` instead of the two lines")


ASSIGN_RECOGNISERS = ["types::drain_env_tokens", "builtins::export::run", "tools::is_env"]


def multiline_value_rule(ctx, crate):
    from .. import refacts
    n = 0
    for p in ASSIGN_RECOGNISERS:
        b = crate.fn(p)
        if b is None:
            continue
        lits = set()
        for bb, t, c in b.calls():
            if c.endswith("Regex::new") or last_seg(c) in ("re_contains", "is_match", "find_first_group"):
                for a in b.call_args(bb):
                    v = mir.const_str(b.expand_vars(strip_sites(a)))
                    if v is not None and "=" in v and ("^" in v):
                        lits.add(v)
        for lit in sorted(lits):
            n += 1
            try:
                m = refacts.matches(lit, ["X=a\nb", "X=a", "X="])
                g = refacts.captures1(lit.replace("(?s)", "(?s)") , ["X=a\nb"]) if "(" in lit.replace("(?s)", "") else [None]
            except Exception as e:
                ctx.require(False, "R11-16", "R11-16|%s|engine" % p, "cannot evaluate %r: %s" % (lit, str(e)[:100]), p)
                continue
            ok = m[0] and m[1] and m[2]
            ctx.ob("R11-16", p, "assignment pattern %r accepts a value that spans lines" % lit, bool(ok),
                   key="R11-16|%s|multiline-value|%s" % (p, lit.replace("(?s)", "")), crate=crate.kind,
                   detail=None if ok else "`.` does not match a newline: `FILES=$(ls -1 dir)` with several entries is not "
                   "recognised as an assignment (it is run as a command / export prints its usage)")
    ctx.floor("R11-16", crate, "assignment patterns", n, 3 if crate.kind == "bin" else 2)


IN_PROCESS = {"core::run_pipeline": ("try_run_func",), "core::run_single_program": ("try_run_builtin",)}


def isolation_rule(ctx, crate):
    from .c02 import dom_facts
    n = 0
    for p, names in sorted(IN_PROCESS.items()):
        b = crate.fn(p)
        if not ctx.require(b is not None, "R11-17", "R11-17|anchor|%s" % p, "%s not found" % p):
            continue
        for bb, t, c in b.calls():
            if last_seg(c) not in names:
                continue
            n += 1
            facts = dom_facts(b, bb)
            # a dominating test that says: not capturing
            ok = any(v is False and ("capture" in render(strip_sites(a))) and strip_sites(a)[0] in ("var", "param", "field")
                     for a, v in facts)
            ctx.ob("R11-17", p, "%s (runs in the shell process) is reached only when not capturing" % last_seg(c), ok,
                   key="R11-17|%s|in-process|%s" % (p, last_seg(c)), where=b.loc(bb), crate=crate.kind,
                   detail=None if ok else "the command of `$(...)` / backquotes runs inside the shell: its cd / export / alias / "
                   "assignments persist and `exit` terminates the shell")
    ctx.floor("R11-17", crate, "in-process execution sites", n, 2)
