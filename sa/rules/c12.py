"""C12 - brace, range, tilde and filename expansion (structural clauses only)."""
from .. import etag, flow, mir, taint
from ..mir import const_str, last_seg, render, strip_sites
from .c02 import dom_facts

EXPLANATION = ("C12: three structural clauses are decided for all paths: none of the four passes acts on a tagged "
               "(quoted) token; every word a pass inserts gets a double-quote tag when it contains a space (so it "
               "stays one argument); a pass that inserts / removes tokens applies its edit list in descending index "
               "order (relative order of the other words).  Plus: $HOME cannot be interpreted as a replacement "
               "template.  The produced word lists themselves (cartesian order, sequences, glob matches) are "
               "value-level and not decided.")

PASSES = ["shell::expand_brace", "shell::expand_glob", "shell::expand_brace_range", "shell::expand_home"]
INSERTING = ["shell::expand_brace", "shell::expand_glob", "shell::expand_brace_range"]


def run(ctx):
    ctx.rule("R12-1", "expand_brace / expand_glob / expand_brace_range / expand_home act only on untagged tokens (E-TAG STRICT)")
    ctx.rule("R12-2", "every token inserted by a pass gets tag `\"` when its text contains a space, else the empty tag")
    ctx.rule("R12-3", "a pass that removes / inserts tokens walks its edit list in descending index order (.rev())")
    ctx.rule("R12-5", "a word never vanishes: on every path on which expand_glob records a replacement list for a token, "
                      "the list holds at least one word (the matches, or the pattern itself)")
    ctx.rule("R12-6", "{a..b[..s]} counts from a to b inclusive in the right direction: expand_brace_range has an ascending "
                      "loop (guard n <= end, step checked_add) and a descending one (guard n >= end, step checked_sub), "
                      "selected by start > end; each pushes format(n) before stepping; n starts at capture 1, end is "
                      "capture 2")
    ctx.rule("R12-7", "the relative order of the other words is kept: positions recorded during a pass's scan are not used "
                      "after the token vector's length changed, except inside the one descending edit-list loop (E-EDITLIST); a hand-kept "
                      "position counter advances once per token; a position taken from enumerate() counts the elements of the "
                      "token vector itself (no filter / skip / rev / zip between the vector and enumerate())")
    ctx.rule("R12-8", "`~` names the CURRENT home directory: the value expand_home splices in comes from a call of "
                      "env::var(\"HOME\") made during this expansion (on every path of the helper that supplies it), not "
                      "from a value remembered across calls (static / OnceLock / lazy)")
    ctx.rule("R12-9", "the `.` and `..` entries glob adds for dot-leading patterns are filtered: expand_glob compares the last "
                      "component of each match with \".\" and \"..\", and the helper that computes it is purely textual "
                      "(the text after the last `/`) - no std::path accessor, which normalises exactly those two names away")
    ctx.rule("R12-10", "the text around the braces is kept: the words expand_brace_range records for a token are built from the "
                       "token's own text outside the match (pieces of split / a slice / a replace on the token) as well as "
                       "from the counter - a list made of the formatted numbers alone turns `a{1..3}b` into `1 2 3`")
    ctx.rule("R12-11", "every pass sees the words the earlier passes produced: in do_expansion a pass runs on every path on "
                       "which the pass before it ran, or is skipped only by a test computed after that pass (on the "
                       "tokens as they are then) - a `nothing to do` test made on the typed line misses a `*` or `{` "
                       "that an alias or a variable brings in")
    ctx.rule("R12-12", "a group's closing brace is consumed exactly once: in brace_getgroup both returns taken when the next "
                       "character is `}` (group with a comma: the alternatives; group without: the text put back between "
                       "braces) hand back the same remainder - the copy of the input from which that character was "
                       "removed.  One of them returning the unshortened input makes the brace appear twice "
                       "(`{a,b}{c}` -> `a{c}}`)")
    ctx.rule("R12-13", "only `~` and `~/...` name the home directory: the pattern expand_home rewrites with (a literal, "
                       "evaluated with the program's regex engine on representative words) matches `~`, `~/`, `~/x` and "
                       "does not match `~name`, `~name/x`, `~~`, `a~`, `a~/x` - a match on `~name` splices the home "
                       "directory in front of the name (`~root` -> `/rootroot`)")
    ctx.rule("R12-14", "the words a pattern produces are the matching paths as the pattern spells them: glob yields normalised "
                       "paths (a leading `./` is dropped), so where expand_glob records a match it tests the pattern for a "
                       "`./` prefix (or builds the word from a value set under that test) - otherwise `./-rf*` hands "
                       "`-rf.txt` to the command")
    ctx.rule("R12-15", "`non-hidden` is decided per match by its LAST component: in expand_glob every test `starts_with('.')` / "
                       "`starts_with(\".*\")` that hides a match or lifts the hiding is applied to the last path component "
                       "(the text after the last `/`, through the same textual helper as R12-9) of the match resp. of the "
                       "pattern - a test over all components lets `.conf/*` list `.conf/.secret` and hides `a/.b/c`")
    ctx.rule("R12-4", "the home directory is not interpreted as a regex replacement template")
    for crate in ctx.crates:
        res = etag.run_sites(ctx, "R12-1", crate, fn_filter=lambda p: p in PASSES)
        ctx.floor("R12-1", crate, "inspections in the four passes", len(res), 4)
        for p in INSERTING + ["shell::expand_alias"]:
            b = crate.fn(p)
            if not ctx.require(b is not None, "R12-2", "R12-2|anchor|%s" % p, "%s not found" % p):
                continue
            ctx.analysed(b)
            if p in INSERTING:
                tag_rule(ctx, crate, b)
            order_rule(ctx, crate, b)
        home_rule(ctx, crate)
        nonempty_rule(ctx, crate)
        from .. import editlist
        n_ = editlist.rule(ctx, crate, "R12-7", PASSES)
        ctx.floor("R12-7", crate, "passes with a token vector", n_, 4)
        range_rule(ctx, crate)
        range_context_rule(ctx, crate)
        pass_chain_rule(ctx, crate)
        group_remainder_rule(ctx, crate)
        tilde_shape_rule(ctx, crate)
        curdir_prefix_rule(ctx, crate)
        home_current_rule(ctx, crate)
        dot_entries_rule(ctx, crate)
        hidden_by_last_component_rule(ctx, crate)


def tag_rule(ctx, crate, b):
    n = 0
    for bb, t, c in b.calls():
        if last_seg(c) != "insert" or "Vec" not in c:
            continue
        a = b.call_args(bb)
        if len(a) < 3:
            continue
        tup = strip_sites(a[2])
        if not (tup[0] == "agg" and tup[1] == "tuple" and len(tup[2]) == 2):
            continue
        tag = mir.peel(tup[2][0])
        text = mir.peel(tup[2][1])
        ok = False
        detail = "tag expression: %s" % render(tag)[:80]
        # tag is a variable with two constant definitions, chosen by contains(' ') on the inserted text
        root = tag
        while root[0] == "call" and root[2]:
            root = mir.peel(root[2][0])
        if root[0] == "var":
            vals = {}
            for bi, si in b.defs.get(root[1], []):
                e = b.def_expr(bi, si)
                s = const_str(e)
                facts = dom_facts(b, bi)
                has = [v for at, v in facts if at[0] == "call" and last_seg(at[1]) == "contains" and
                       (mir.const_char(at[2][1]) == " " or const_str(at[2][1]) == " ") and
                       strip_sites(mir.peel(at[2][0])) == strip_sites(text) or
                       (at[0] == "call" and last_seg(at[1]) == "contains" and len(at[2]) == 2 and
                        (mir.const_char(at[2][1]) == " " or const_str(at[2][1]) == " ") and
                        b.expand_vars(strip_sites(mir.peel(at[2][0]))) == b.expand_vars(strip_sites(text)))]
                if s is not None and has:
                    vals[has[-1]] = s
            ok = vals.get(True) == "\"" and vals.get(False) == ""
            detail = "tag = %r when the text contains a space, %r otherwise" % (vals.get(True), vals.get(False))
        ctx.ob("R12-2", b.path, "inserted token is tagged `\"` iff its text contains a space", ok,
               key="R12-2|%s|insert#%d" % (b.path, n), where=b.loc(bb), crate=crate.kind, detail=detail)
        n += 1
    ctx.require(n >= 1, "R12-2", "R12-2|%s|anchor" % b.path, "no tokens.insert((tag, text)) found", b.path)
    # a produced word written over the old text in place keeps the old (empty) tag: it must be re-tagged too
    from .c13 import token_writes
    tok, writes = token_writes(b)
    k = 0
    for bb, kind, text, tag in writes:
        if kind != "text-assign":
            continue
        # a tag assignment to the same token in the same block or a dominating / post-dominating one
        retag = [w for w in writes if w[1] == "tag-assign" and (w[0] == bb or b.dominates(w[0], bb) or b.dominates(bb, w[0]))]
        ok = bool(retag)
        ctx.ob("R12-2", b.path, "a produced word written in place is re-tagged (`\"` iff it contains a space)", ok,
               key="R12-2|%s|in-place#%d" % (b.path, k), where=b.loc(bb), crate=crate.kind,
               detail=None if ok else "the token keeps its empty tag: a file name / brace item with a space is later split "
               "(for-lists), re-expanded ({m..n}) or read as a redirection")
        k += 1


def order_rule(ctx, crate, b):
    n = 0
    for h, blocks in sorted(b.loops().items()):
        edits = [bb for bb in blocks if b.term(bb)["k"] == "call" and last_seg(b.callee(b.term(bb))) in ("remove", "insert")
                 and "Vec" in b.callee(b.term(bb))]
        if not edits:
            continue
        nb = None
        for bb in blocks:
            t = b.term(bb)
            if t["k"] == "call" and last_seg(b.callee(t)) in ("next", "next_back"):
                # outermost loop driver: the next() whose block is the loop header's first call
                if nb is None or bb == h:
                    nb = bb
        if nb is None:
            continue
        it = b.call_args(nb)[0]
        # only the loop that walks the edit list (a Vec<(usize, ..)>), not the inner loop over replacement items
        cont = flow.backward(b, it, lambda z: z[0] == "var" and b.locals[z[1]]["ty"].startswith("std::vec::Vec<(usize"),
                             through_containers=False)
        if cont is None:
            continue
        rev = flow.backward(b, it, lambda z: z[0] == "call" and last_seg(z[1]) == "rev", through_containers=False)
        ok = rev is not None and last_seg(b.callee(b.term(nb))) == "next"
        ctx.ob("R12-3", b.path, "edit list `%s` is applied in descending index order" % cont[2], ok,
               key="R12-3|%s|rev#%d" % (b.path, n), where=b.loc(nb), crate=crate.kind,
               detail=None if ok else "applying inserts/removes in ascending order shifts the indexes recorded for later edits")
        n += 1
    ctx.require(n >= 1, "R12-3", "R12-3|%s|anchor" % b.path, "no edit-list loop found", b.path)


def home_rule(ctx, crate):
    b = crate.fn("shell::expand_home")
    if b is None:
        return
    sp = taint.source_pred(crate, taint.is_env_read)
    n = 0
    sinks = taint.template_sinks(b)
    for bb, arg, desc in sinks:
        hit = flow.backward(b, arg, sp, stop=taint.is_dollar_escape)
        ctx.ob("R12-4", b.path, "$HOME does not reach the %s unescaped" % desc, hit is None,
               key="R12-4|%s|template#%d" % (b.path, n), where=b.loc(bb), crate=crate.kind,
               detail=None if hit is None else "a home directory containing `$` is garbled (`$b` read as a capture reference)")
        n += 1
    if not sinks:
        ctx.ob("R12-4", b.path, "expand_home uses no replacement template", True, crate=crate.kind, nontrivial=False)


def nonempty_rule(ctx, crate):
    b = crate.fn("shell::expand_glob")
    if b is None:
        return
    from ..mir import FactWalker
    # the per-token result vector and the edit list
    rec = []
    for bb, t, c in b.calls():
        if last_seg(c) == "push" and "Vec" in c:
            a = b.call_args(bb)
            v = strip_sites(a[1]) if len(a) > 1 else None
            if v is not None and v[0] == "agg" and v[1] == "tuple" and len(v[2]) == 2 and v[2][1][0] == "var" \
                    and b.locals[v[2][1][1]]["ty"].startswith("std::vec::Vec<std::string::String"):
                rec.append((bb, v[2][1]))
    if not ctx.require(len(rec) == 1, "R12-5", "R12-5|%s|record" % b.path, "edit-list push of (idx, result) not found", b.path):
        return
    recbb, resvar = rec[0]
    fills = {bb for bb, t, c in b.calls() if last_seg(c) == "push" and "Vec" in c and
             mir.root_local_expr(b.call_args(bb)[0]) == resvar[1]}
    inits = [bi for bi, si in b.defs.get(resvar[1], [])]
    if not ctx.require(len(inits) == 1 and fills, "R12-5", "R12-5|%s|result" % b.path, "result vector not recognised", b.path):
        return

    def relevant(atom):
        if atom[0] == "var" and b.locals[atom[1]]["ty"] == "bool":
            return True
        return atom[0] == "call" and last_seg(atom[1]) in ("is_none", "is_some", "is_empty") and any(
            s_[0] == "call" and last_seg(s_[1]) in ("peek", "next") for s_ in mir.subexprs(atom))

    w = FactWalker(b, relevant, cut_back_edges=False)
    bad = []

    def step(bb, st):
        facts, filled = st
        if bb in fills:
            filled = True
        if bb == recbb and not filled:
            bad.append(facts)
            return []
        if bb == recbb:
            return []
        return [(nb, (f2, filled)) for nb, f2 in w.step(bb, facts)]

    start = b.succs[inits[0]][0]
    seen = mir.explore(b, start, (frozenset(), False), step)
    ctx.paths_enumerated += len(seen)
    ctx.ob("R12-5", b.path, "every recorded replacement list is non-empty (matches, or the pattern itself)", not bad,
           key="R12-5|%s|nonempty" % b.path, where=b.loc(recbb), crate=crate.kind,
           detail=None if not bad else "a path records an empty list: the word disappears from the command line "
                                       "(e.g. a pattern matching only hidden files)")


def _cap_index(b, e):
    """k if the expression is parsed from capture group k of the pass's regex"""
    for sub in mir.subexprs(b.expand_vars(strip_sites(e))):
        if sub[0] == "call" and last_seg(sub[1]) == "index" and "Captures" in sub[1] and len(sub[2]) == 2:
            k = mir.const_int(sub[2][1])
            if k is not None:
                return k
    return None


def range_rule(ctx, crate):
    b = crate.fn("shell::expand_brace_range")
    if not ctx.require(b is not None, "R12-6", "R12-6|anchor", "shell::expand_brace_range not found"):
        return
    loops = []
    for h, blocks in b.loops().items():
        for tgt, atom, val in b.switch_edges(h):
            a = strip_sites(atom)
            if not (a[0] == "bin" and a[1] in ("Le", "Ge", "Lt", "Gt") and val in (True, False) and tgt in blocks):
                continue
            exits = [t2 for t2, a2, v2 in b.switch_edges(h) if t2 not in blocks]
            if not exits:
                continue
            n, bound, op = a[2], a[3], a[1]
            if val is False:        # `if n > end { break }`: staying in the loop means the negation
                op = {"Le": "Gt", "Gt": "Le", "Ge": "Lt", "Lt": "Ge"}[op]
            if n[0] != "var":
                if bound[0] == "var":
                    n, bound = bound, n
                    op = {"Le": "Ge", "Ge": "Le", "Lt": "Gt", "Gt": "Lt"}[op]
                else:
                    continue
            if "i32" not in b.locals[n[1]]["ty"] and "i64" not in b.locals[n[1]]["ty"]:
                continue
            loops.append((h, blocks, n, bound, op))
    asc = [l for l in loops if l[4] in ("Le", "Lt")]
    desc = [l for l in loops if l[4] in ("Ge", "Gt")]
    if not ctx.require(len(asc) == 1 and len(desc) == 1, "R12-6", "R12-6|%s|loops" % b.path,
                       "expected one ascending and one descending counting loop (while n <= end / while n >= end), "
                       "found %d / %d" % (len(asc), len(desc)), b.path):
        return
    ctx.analysed(b)
    sel = None
    for (h, blocks, n, bound, op), name, incl, stepfn in ((asc[0], "ascending", "Le", ("checked_add", "Add")),
                                                          (desc[0], "descending", "Ge", ("checked_sub", "Sub"))):
        ctx.ob("R12-6", b.path, "%s loop includes the end value (guard %s)" % (name, incl), op == incl,
               key="R12-6|%s|%s|inclusive" % (b.path, name), where=b.loc(h), crate=crate.kind,
               detail=None if op == incl else "{1..3} would stop before 3" if name == "ascending" else "{3..1} would stop before 1")
        # the step: every in-loop assignment to n derives from checked_add/sub(n, incr) (or n + incr)
        steps, good = [], True
        for bi, si in b.defs.get(n[1], []):
            if bi not in blocks:
                continue
            e = b.expand_vars(strip_sites(b.def_expr(bi, si)))
            found = False
            for sub in mir.subexprs(e):
                if sub[0] == "call" and last_seg(sub[1]) == stepfn[0] and strip_sites(sub[2][0]) == n:
                    found = True
                    steps.append(bi)
                if sub[0] == "bin" and sub[1] == stepfn[1] and sub[2] == n:
                    found = True
                    steps.append(bi)
            good = good and found
        ctx.ob("R12-6", b.path, "%s loop steps n by %s(n, incr) and nothing else" % (name, stepfn[0]), bool(steps) and good,
               key="R12-6|%s|%s|step" % (b.path, name), where=b.loc(h), crate=crate.kind)
        # push(format(n)) on every path from the guard to the step
        pushes = set()
        for bb, t, c in b.calls():
            if bb in blocks and last_seg(c) == "push" and "Vec" in c:
                arg = b.expand_vars(strip_sites(b.call_args(bb)[1]))
                if any(sub == n for sub in mir.subexprs(arg)):
                    pushes.add(bb)
        body_entry = [tgt for tgt, atom, val in b.switch_edges(h) if tgt in blocks]
        ok = bool(pushes) and bool(steps) and bool(body_entry) and \
            flow.must_pass(b, body_entry[0], pushes, set(steps) | {h}, within=blocks)
        ctx.ob("R12-6", b.path, "%s loop pushes the current n before stepping, on every iteration" % name, ok,
               key="R12-6|%s|%s|push" % (b.path, name), where=b.loc(h), crate=crate.kind)
        # start / end
        init = [b.def_expr(bi, si) for bi, si in b.defs.get(n[1], []) if bi not in blocks and not any(
            bi in l[1] for l in loops)]
        k0 = {_cap_index(b, e) for e in init}
        k1 = _cap_index(b, bound)
        ctx.ob("R12-6", b.path, "%s loop: n starts at capture 1 and runs to capture 2" % name, k0 == {1} and k1 == 2,
               key="R12-6|%s|%s|ends" % (b.path, name), where=b.loc(h), crate=crate.kind,
               detail="start from capture %s, bound from capture %s" % (sorted(k0, key=str), k1))
        # selection: which edge of (start > end) leads here
        facts = dom_facts(b, h)
        dirs = [(a, v) for a, v in facts if a[0] == "bin" and a[1] in ("Gt", "Ge", "Lt", "Le")
                and _cap_index(b, a[2]) in (1, 2) and _cap_index(b, a[3]) in (1, 2)]
        okd = False
        for a, v in dirs:
            l, r, o = _cap_index(b, a[2]), _cap_index(b, a[3]), a[1]
            if l == 2 and r == 1:
                o = {"Gt": "Lt", "Ge": "Le", "Lt": "Gt", "Le": "Ge"}[o]
            start_greater = (o in ("Gt", "Ge")) == bool(v)
            okd = start_greater == (name == "descending")
        ctx.ob("R12-6", b.path, "%s loop runs exactly when start %s end" % (name, ">" if name == "descending" else "<="),
               okd, key="R12-6|%s|%s|selected" % (b.path, name), where=b.loc(h), crate=crate.kind)


def _reads_home_every_time(crate, b, depth=0):
    """every path from the entry of b to a return passes a call env::var("HOME") made in b itself, or a call of a
    local function for which the same holds (closures do not count: get_or_init / Lazy run them once)"""
    sites = set()
    for bb, t, c in b.calls():
        if mir.short(c) in ("std::env::var", "std::env::var_os") and const_str(b.call_args(bb)[0]) == "HOME":
            sites.add(bb)
        elif depth < 2:
            ci = b.callee_info(t)
            callee = (ci or {}).get("resolved") or c
            cb = crate.fn(callee)
            if cb is not None and cb.kind == "fn" and cb.path != b.path and _reads_home_every_time(crate, cb, depth + 1):
                sites.add(bb)
    rets = {bb for bb in b.reachable if b.term(bb)["k"] == "return"}
    return bool(sites) and bool(rets) and flow.must_pass(b, 0, sites, rets)


def home_current_rule(ctx, crate):
    b = crate.fn("shell::expand_home")
    if not ctx.require(b is not None, "R12-8", "R12-8|anchor", "shell::expand_home not found"):
        return
    suppliers = []
    for bb, t, c in b.calls():
        ci = b.callee_info(t)
        callee = (ci or {}).get("resolved") or c
        cb = crate.fn(callee)
        if cb is not None and cb.kind == "fn" and "String" in cb.locals[0]["ty"] and cb.arg_count == 0:
            suppliers.append((bb, cb))
        if mir.short(c) in ("std::env::var", "std::env::var_os") and const_str(b.call_args(bb)[0]) == "HOME":
            suppliers.append((bb, None))
    if not ctx.require(bool(suppliers), "R12-8", "R12-8|%s|supplier" % b.path,
                       "cannot find where expand_home gets the home directory from", b.path):
        return
    for bb, cb in suppliers:
        ok = True if cb is None else _reads_home_every_time(crate, cb)
        name = "env::var(\"HOME\")" if cb is None else cb.path
        ctx.ob("R12-8", b.path, "%s reads HOME from the environment on every call" % name, ok,
               key="R12-8|%s|home-read-each-time|%s" % (b.path, name), where=b.loc(bb), crate=crate.kind,
               detail=None if ok else "after `export HOME=/elsewhere` (or HOME=... in the session) `~` still names the directory "
               "that was current when the value was first asked for")


def dot_entries_rule(ctx, crate):
    b = crate.fn("shell::expand_glob")
    if not ctx.require(b is not None, "R12-9", "R12-9|anchor", "shell::expand_glob not found"):
        return
    helpers = set()
    consts = set()
    for bb in sorted(b.reachable):
        for tgt, atom, val in b.switch_edges(bb):
            a = b.expand_vars(strip_sites(atom))
            cs = {const_str(x) for x in mir.subexprs(a) if x[0] == "const" and const_str(x) in (".", "..")}
            if cs:
                consts |= cs
                for x in mir.subexprs(a):
                    if x[0] == "call" and crate.fn(x[1]) is not None:
                        helpers.add(x[1])
    ctx.ob("R12-9", b.path, "matches are compared with \".\" and \"..\" before they are recorded", consts == {".", ".."},
           key="R12-9|%s|filter" % b.path, crate=crate.kind, detail="constants compared: %s" % sorted(consts))
    for h in sorted(helpers):
        hb = crate.fn(h)
        pathy = sorted({mir.short(c) for bb, t, c in hb.calls() if "std::path::" in c or "::Path::" in c or "PathBuf" in c})
        textual = any(last_seg(c) in ("rsplit", "rfind", "rsplit_once", "split", "rsplitn") for bb, t, c in hb.calls())
        ok = textual and not pathy
        ctx.ob("R12-9", h, "the component helper works on the text (rsplit / rfind on '/'), not through std::path", ok,
               key="R12-9|%s|textual" % h, crate=crate.kind,
               detail=None if ok else "uses %s: Path::file_name() is None for `..` and drops a trailing `/.`, so `dir/..` and "
               "`dir/.` are no longer recognised and `.*` expands to them" % (pathy or "no textual split"))
    ctx.require(bool(helpers), "R12-9", "R12-9|%s|helper" % b.path, "no local helper computing the compared component found", b.path)


def range_context_rule(ctx, crate):
    b = crate.fn("shell::expand_brace_range")
    if not ctx.require(b is not None, "R12-10", "R12-10|anchor", "shell::expand_brace_range not found"):
        return
    ctx.analysed(b)
    # the edit list and what is recorded into it
    rec = []
    for bb, t, c in b.calls():
        if last_seg(c) == "push" and "Vec" in c:
            a = b.call_args(bb)
            if len(a) == 2 and a[0][0] in ("var", "ref", "tmp", "deref", "addr") or len(a) == 2:
                root = mir.root_local_expr(b.expand_vars(strip_sites(a[0])))
                if root is not None and b.locals[root]["ty"].startswith("std::vec::Vec<(usize"):
                    v = strip_sites(a[1])
                    if v[0] == "agg" and v[1] == "tuple" and len(v[2]) == 2:
                        rec.append((bb, v[2][1]))
    if not ctx.require(bool(rec), "R12-10", "R12-10|%s|record" % b.path, "no (index, words) record found", b.path):
        return
    # the scanned token's text: field 1 of the item of the loop over the token vector
    tokl = None
    for l in range(1, b.arg_count + 1):
        if "Vec<(std::string::String, std::string::String)>" in b.locals[l]["ty"]:
            tokl = l
    is_parse = lambda z: z[0] == "call" and last_seg(z[1]) in ("parse", "from_str", "from_str_radix")
    is_token_text = lambda z: z[0] == "call" and last_seg(z[1]) in ("next",) and z[2] and \
        flow.backward(b, z[2][0], lambda y: y[0] in ("var", "param") and y[1] == tokl, through_containers=False) is not None
    for bb, words in rec:
        textual = flow.backward(b, words, is_token_text, stop=is_parse)
        numeric = flow.backward(b, words, is_parse)
        ok = textual is not None and numeric is not None
        ctx.ob("R12-10", b.path, "the recorded words derive from the counter and from the token's text outside the number "
                                 "captures", ok, key="R12-10|%s|context-kept" % b.path, where=b.loc(bb), crate=crate.kind,
               detail=None if ok else ("the words are the formatted numbers only: text before / after the braces (and any "
                                       "further range in the word) is lost" if numeric is not None else
                                       "the words do not derive from the parsed bounds"))


def pass_chain_rule(ctx, crate):
    de = crate.fn("shell::do_expansion")
    if not ctx.require(de is not None, "R12-11", "R12-11|anchor", "shell::do_expansion not found"):
        return
    ctx.analysed(de)
    calls = []
    for bb, t, c in de.calls():
        ci = de.callee_info(t)
        if ci is not None and ci.get("local") and c.startswith("shell::") and any(
                "Vec<(std::string::String, std::string::String)>" in a.get("move", a.get("copy", {})).get("ty", "")
                for a in t["args"] if "const" not in a):
            calls.append((bb, c))
    if not ctx.require(len(calls) >= 7, "R12-11", "R12-11|%s|passes" % de.path,
                       "expected the 7 pass calls of do_expansion, found %d" % len(calls), de.path):
        return
    # source order = order of reachability: a before b when b is reachable from a
    def reach(src):
        seen, todo = set(), list(de.succs[src])
        while todo:
            x = todo.pop()
            if x not in seen:
                seen.add(x)
                todo.extend(de.succs[x])
        return seen
    R = {bb: reach(bb) for bb, c in calls}
    calls.sort(key=lambda x: -len([1 for y in calls if y[0] in R[x[0]]]))
    exits = set(de.exits())
    for i in range(1, len(calls)):
        prev, cur = calls[i - 1], calls[i]
        name = cur[1].split("::")[-1]
        # every path from the previous pass to a return goes through this pass ...
        always = flow.must_pass(de, prev[0], {cur[0]}, exits)
        ok, detail = always, None
        if not always:
            # ... or each test that lets a path avoid it is computed after the previous pass
            ok = True
            avoid = set()
            seen, todo = set(), list(de.succs[prev[0]])
            while todo:
                x = todo.pop()
                if x in seen or x == cur[0]:
                    continue
                seen.add(x)
                todo.extend(de.succs[x])
            for x in sorted(seen | {prev[0]}):
                edges = de.switch_edges(x)
                if len(edges) < 2:
                    continue
                # a deciding test: some edge reaches `cur`, some edge can reach an exit without it
                t = de.term(x)
                op = t.get("op") or {}
                l = (op.get("move") or op.get("copy") or {}).get("l")
                fresh = False
                if l is not None:
                    # the tested local (through plain copies) is assigned only after the previous pass has run
                    seen_l, todo_l, dbs = set(), [l], []
                    while todo_l:
                        y = todo_l.pop()
                        if y in seen_l:
                            continue
                        seen_l.add(y)
                        for bi, si in de.defs.get(y, []):
                            stmts = de.blocks[bi]["stmts"]
                            src = None
                            if isinstance(si, int) and 0 <= si < len(stmts) and stmts[si]["k"] == "assign":
                                rv = stmts[si]["rv"]
                                if rv.get("k") == "use":
                                    o = rv["op"].get("copy") or rv["op"].get("move")
                                    if o is not None and not o["p"]:
                                        src = o["l"]
                            if src is not None:
                                todo_l.append(src)
                            else:
                                dbs.append(bi)
                    fresh = bool(dbs) and all(bi in R[prev[0]] for bi in dbs)
                if not fresh:
                    ok = False
                    atom = strip_sites(edges[0][1])
                    detail = ("%s is skipped on a test (%s) whose operands were computed before %s ran: text that pass "
                              "produced is not looked at" % (name, render(atom)[:70], prev[1].split("::")[-1]))
        ctx.ob("R12-11", de.path, "%s runs whenever %s ran (or is skipped by a test made afterwards)" %
               (name, prev[1].split("::")[-1]), ok, key="R12-11|%s|chain|%s" % (de.path, name), where=de.loc(cur[0]),
               crate=crate.kind, detail=detail)


def group_remainder_rule(ctx, crate):
    from .c02 import dom_facts
    b = crate.fn("shell::brace_getgroup")
    if not ctx.require(b is not None, "R12-12", "R12-12|anchor", "shell::brace_getgroup not found"):
        return
    ctx.analysed(b)
    # returns of Some((words, rest)) taken when the current character is `}`
    sites = []
    for bi, si in b.defs.get(0, []):
        st = b.blocks[bi]["stmts"][si] if isinstance(si, int) and si < len(b.blocks[bi]["stmts"]) else None
        if st is None or st["k"] != "assign":
            continue
        e = strip_sites(b.rvalue_expr(st["rv"]))
        tup = None
        for sub in mir.subexprs(e):
            if sub[0] == "agg" and sub[1] == "tuple" and len(sub[2]) == 2:
                tup = sub
        if tup is None:
            continue
        closing = any(strip_sites(a)[0] == "bin" and strip_sites(a)[1] == "Eq" and v is True and
                      mir.const_char(strip_sites(a)[3]) == "}" for a, v in dom_facts(b, bi)) if hasattr(mir, "const_char") else None
        sites.append((bi, tup[2][1], closing))
    if hasattr(mir, "const_char"):
        sites = [x for x in sites if x[2]]
    if not ctx.require(len(sites) >= 2, "R12-12", "R12-12|%s|returns" % b.path,
                       "expected two `Some((words, rest))` returns under `c == '}'`, found %d" % len(sites), b.path):
        return
    # which locals had their first character removed
    shortened = set()
    for bb, t, c in b.calls():
        if last_seg(c) == "remove" and "String" in c:
            a = b.call_args(bb)
            if a:
                shortened.add(mir.root_local_expr(strip_sites(a[0])))
    roots = []
    for bi, rest, _ in sites:
        r = mir.peel(strip_sites(rest))
        roots.append(mir.root_local_expr(r) if r[0] in ("var", "tmp", "param") else None)
    same = len(set(roots)) == 1 and roots[0] is not None
    consumed = all(r in shortened for r in roots)
    ok = same and consumed
    names = [b.names.get(r, "_%s" % r) for r in roots]
    ctx.ob("R12-12", b.path, "both `}` returns hand back the shortened remainder (%s)" % ", ".join(names), ok,
           key="R12-12|%s|closing-brace-consumed" % b.path, where=b.loc(sites[-1][0]), crate=crate.kind,
           detail=None if ok else "the returns under `c == '}'` disagree on the remainder (%s): one of them leaves the brace "
           "in the text still to be scanned, and it is emitted a second time" % " vs ".join(names))


TILDE_YES = ["~", "~/", "~/x", "~/a b/c", "~/.config/x~"]
TILDE_NO = ["~root", "~root/x", "~~", "~x", "a~", "a~/x", "x=~/y", "~-", "~+"]


def tilde_shape_rule(ctx, crate):
    from .. import refacts
    b = crate.fn("shell::expand_home")
    if not ctx.require(b is not None, "R12-13", "R12-13|anchor", "shell::expand_home not found"):
        return
    ctx.analysed(b)
    lits = []
    for bb, t, c in b.calls():
        if c.endswith("Regex::new") or last_seg(c) in ("re_contains", "replace_all", "is_match"):
            for a in b.call_args(bb):
                v = mir.const_str(b.expand_vars(strip_sites(a)))
                if v is not None and "~" in v:
                    lits.append(v)
    lits = sorted(set(lits))
    if not ctx.require(len(lits) == 1, "R12-13", "R12-13|%s|pattern" % b.path,
                       "expected one regex literal mentioning `~` in expand_home, found %r" % (lits,), b.path):
        return
    try:
        got = refacts.matches(lits[0], TILDE_YES + TILDE_NO)
    except Exception as e:        # fail closed
        ctx.require(False, "R12-13", "R12-13|%s|engine" % b.path, "cannot evaluate %r: %s" % (lits[0], str(e)[:120]), b.path)
        return
    # the pass is entered only for words that start with `~` (its gate); inside, the pattern decides
    wrong = [w for w, m in zip(TILDE_YES + TILDE_NO, got)
             if w.startswith("~") and m != (w in TILDE_YES)]
    over = [w for w in wrong if w in TILDE_NO]
    if wrong and len(over) == len(wrong) and _narrow_gate(b):
        # the pattern is wider, but the code only gets there for `~` / `~/...`
        wrong = []
    ctx.ob("R12-13", b.path, "pattern %r matches exactly `~` and `~/...` among %d words that start with `~`" %
           (lits[0], sum(1 for w in TILDE_YES + TILDE_NO if w.startswith("~"))), not wrong,
           key="R12-13|%s|tilde-forms" % b.path, crate=crate.kind,
           detail=None if not wrong else "wrong on: " + ", ".join(wrong))


def _narrow_gate(b):
    """every path to the place where a rewritten word is recorded passes a positive test `text == "~"` or
    `text.starts_with("~/")`: cut those edges and see whether the record is still reachable"""
    rec = [bb for bb, t, c in b.calls() if last_seg(c) == "push" and "Vec" in c]
    if not rec:
        return False

    def narrow(atom, val):
        a = strip_sites(atom)
        if a[0] != "call" or len(a[2]) < 2:
            return False
        lit = mir.const_str(b.expand_vars(a[2][1]))
        ls = last_seg(a[1])
        if ls == "starts_with" and lit == "~/" and val is True:
            return True
        if ls in ("eq", "ne") and lit == "~" and val is (ls == "eq"):
            return True
        return False
    seen, todo = set(), [0]
    while todo:
        x = todo.pop()
        if x in seen:
            continue
        seen.add(x)
        cut = {tgt for tgt, atom, val in b.switch_edges(x) if narrow(atom, val)}
        for y in b.succs[x]:
            if y in cut and len(b.switch_edges(x)) >= 2:
                continue
            todo.append(y)
    return not any(r in seen for r in rec)


def curdir_prefix_rule(ctx, crate):
    from .c02 import dom_facts
    b = crate.fn("shell::expand_glob")
    if not ctx.require(b is not None, "R12-14", "R12-14|anchor", "shell::expand_glob not found"):
        return
    ctx.analysed(b)
    # pushes of text derived from a glob entry
    is_entry = lambda z: z[0] == "call" and (last_seg(z[1]) in ("to_string_lossy", "display", "to_str", "into_os_string")
                                             or "glob::Paths" in z[1])
    sites = []
    for bb, t, c in b.calls():
        if last_seg(c) == "push" and "Vec" in c:
            a = b.call_args(bb)
            if len(a) == 2 and flow.backward(b, a[1], is_entry, through_containers=False) is not None:
                sites.append((bb, a[1]))
    if not ctx.require(bool(sites), "R12-14", "R12-14|%s|record" % b.path, "no push of a matched path found", b.path):
        return

    def is_prefix_test(a):
        a = strip_sites(a)
        return a[0] == "call" and last_seg(a[1]) in ("starts_with", "strip_prefix") and len(a[2]) >= 2 and \
            mir.const_str(b.expand_vars(a[2][1])) == "./"
    bad = []
    tests = set()
    for x in sorted(b.reachable):
        for tgt, a, v in b.switch_edges(x):
            a2 = strip_sites(a)
            # the test on the PATTERN (the scanned token's text), not on the path glob returned
            if (is_prefix_test(a2) or (a2[0] == "discr" and is_prefix_test(a2[1]))) and not any(
                    is_entry(sub) for sub in mir.subexprs(b.expand_vars(a2))):
                tests.add(x)
    for bb, val in sites:
        # the test has been made (with either outcome) before the match is recorded
        guarded = any(b.dominates(x, bb) for x in tests)
        derived = False
        if not guarded:
            # the word is built from a local that was set under such a test
            for sub in mir.subexprs(b.expand_vars(strip_sites(val))):
                if sub[0] in ("var", "tmp"):
                    for bi, si in b.defs.get(sub[1], []):
                        if any(is_prefix_test(a) for a, v in dom_facts(b, bi)):
                            derived = True
        if not (guarded or derived):
            bad.append(bb)
    ctx.ob("R12-14", b.path, "recorded matches account for a `./` prefix of the pattern (%d site(s))" % len(sites), not bad,
           key="R12-14|%s|curdir-prefix" % b.path, where=b.loc((bad or [sites[0][0]])[0]), crate=crate.kind,
           detail=None if not bad else "a match is recorded as glob yields it: for a pattern that starts with `./` the produced "
           "words lack the prefix (`ls ./-rf*` runs `ls -rf.txt`)")


def hidden_by_last_component_rule(ctx, crate):
    b = crate.fn("shell::expand_glob")
    if not ctx.require(b is not None, "R12-15", "R12-15|anchor", "shell::expand_glob not found"):
        return
    sites = []
    bodies = [b] + crate.closures_of(b.path)
    for fb in bodies:
        for bb, t, c in fb.calls():
            if last_seg(c) != "starts_with" or "str" not in c:
                continue
            a = fb.call_args(bb)
            if len(a) < 2:
                continue
            lit = mir.const_char(a[1]) or const_str(fb.expand_vars(strip_sites(a[1])))
            if lit not in (".", ".*"):
                continue
            subj = fb.expand_vars(strip_sites(a[0]))
            last = any(x[0] == "call" and (last_seg(x[1]) in ("basename", "rsplit", "rsplit_once", "rfind", "rsplitn", "file_name")
                                           or (crate.fn(x[1]) is not None and any(
                                               last_seg(c2) in ("rsplit", "rfind", "rsplit_once", "rsplitn")
                                               for b2, t2, c2 in crate.fn(x[1]).calls())))
                       for x in mir.subexprs(subj))
            sites.append((fb, bb, lit, last))
    if not ctx.require(len(sites) >= 2, "R12-15", "R12-15|%s|tests" % b.path,
                       "expected the two dot tests of expand_glob (pattern and match), found %d" % len(sites), b.path):
        return
    bad = [(fb, bb, lit) for fb, bb, lit, last in sites if not last]
    ctx.ob("R12-15", b.path, "the %d dot tests look at the last path component" % len(sites), not bad,
           key="R12-15|%s|last-component" % b.path, where=(bad[0][0].loc(bad[0][1]) if bad else None), crate=crate.kind,
           detail=None if not bad else "a dot test is applied to something other than the last component (a whole path, or each "
           "component): a hidden directory spelled out in the pattern makes `*` match hidden entries below it, and a match "
           "below a hidden directory that `*` did not produce is dropped")
