"""C14 - scripts execute exactly the command sequence their block structure prescribes."""
import os

from .. import flow, mir, pest
from ..mir import const_bool, last_seg, render, strip_sites
from .c02 import dom_facts

EXPLANATION = ("C14: the PEG grammar (read with pest_meta) is compared with the interpreter's tables: the rule handed to "
               "the parser must be anchored at end of input (otherwise an unbalanced script parses as a prefix and its "
               "remainder is silently dropped); every walker handles all child rules the grammar can produce for the "
               "nodes it walks; break / continue flags are forwarded, loop drivers leave on break, bodies of loops run "
               "with in_loop = true; `if` stops at the first passed branch; `while` re-evaluates its head each "
               "iteration; `for` binds the variable before each body run.  Equivalence with a reference interpreter "
               "over random programs is not decided.")

# walker -> grammar nodes whose children it dispatches on (confirmed by reading scripting.rs)
WALKERS = {
    "scripting::run_exp": ["EXP", "EXP_BODY"],
    "scripting::run_exp_test_br": ["IF_IF_BR", "IF_ELSEIF_BR", "IF_ELSE_BR", "EXP_WHILE"],
    "scripting::run_exp_for": ["EXP_FOR"],
}
# children a walker may leave unhandled, with the reason
SKIPPABLE = {
    "scripting::run_exp": {"EOI": "empty-text pairs are skipped (`if line.is_empty() { continue }`)"},
    "scripting::run_exp_test_br": {"EOI": "the walker returns at the first EXP_BODY; EOI can only follow it"},
    "scripting::run_exp_for": {"EOI": "unknown rules are ignored by the if-chain"},
}


def rules_compared(b):
    out = set()
    for bb in sorted(b.reachable):
        for tgt, atom, val in b.switch_edges(bb):
            for s in mir.subexprs(atom):
                if s[0] == "agg" and "::Rule::" in s[1]:
                    out.add(s[1].split("::")[-1])
            # `match pair.as_rule() { Rule::A | Rule::B => .. }`: a switch on the discriminant, one edge per named rule
            if atom[0] == "discr" and isinstance(val, str) and any(
                    (s[0] == "call" and last_seg(s[1]) == "as_rule") or
                    (s[0] in ("var", "param") and isinstance(s[1], int) and b.locals[s[1]]["ty"].endswith("::Rule"))
                    for s in mir.subexprs(b.expand_vars(atom[1]))):
                out.add(val)
    return out


def run(ctx):
    ctx.rule("R14-1", "the rule passed to the script parser is anchored: its expression ends in EOI")
    ctx.rule("R14-2", "each walker compares against every non-silent rule the grammar can produce as a child of the "
                      "nodes it walks (EOI exempt where skipped)")
    ctx.rule("R14-3", "continue / break from an `if` are forwarded as (.., true, false) / (.., false, true); both loop "
                      "drivers leave on break; loop bodies run with in_loop = true; CMD continue / break act only under in_loop")
    ctx.rule("R14-5", "the continue / break flags returned by every nested run_exp / run_exp_if / run_exp_test_br call are "
                      "used: forwarded in the caller's return value, or (break, in a loop driver) tested")
    ctx.rule("R14-6", "indentation does not change the structure, also on the first line: every alternative of the top "
                      "rule's repetition admits the implicit WHITESPACE skip before its first terminal (the first "
                      "iteration at offset 0 is the one position pest does not put a skip in front of)")
    ctx.rule("R14-7", "a block is opened and closed only by its keywords: in every grammar rule that contains a body "
                      "(EXP_BODY), the first and the last element of its sequence cannot match the empty string (EOI "
                      "alone must not close an `if` / `for` / `while`: an unbalanced script would be accepted and its tail "
                      "swallowed by the open block)")
    ctx.rule("R14-8", "the grammar accepts exactly the scripts whose block keywords balance: the top rule, evaluated as data "
                      "by a PEG interpreter with pest's implicit-whitespace rewriting, agrees with a reference recogniser "
                      "(stmt = cmd | if body (else-if body)* (else body)? fi | for body done | while body done, body = "
                      "stmt+) on every sequence of up to 4 lines (thorough: 5) drawn from {if, else if, else, fi, for, "
                      "while, done, command}, in four layouts (plain, `; then` / `; do` spelling, every line indented, no "
                      "final newline)")
    ctx.rule("R14-9", "`for` binds each word: the value run_exp_for stores with set_env is the one the next `$var` expansion "
                      "reads - set_env writes the environment when the name is exported and the expansion consults the "
                      "environment first (the analyses of C09 R09-5 / R09-7)")
    ctx.rule("R14-10", "the words of a `for` list: an unquoted token contributes its whitespace-separated words (none, when an "
                       "expansion produced nothing), a quoted token contributes itself - in get_for_result_from_init a whole "
                       "token is pushed only under a non-empty quote tag")
    ctx.rule("R14-11", "a condition is decided by the status of the LAST command of its list: in run_exp_test_br the pass flag is "
                       "set under `<results of the head line>.last().status == 0` (not first(), not an index, not any / all)")
    ctx.rule("R14-4", "run_exp_if leaves at the first passed branch; a body runs only under test_pass; `while` calls its "
                      "head test on every iteration; `for` calls set_env(var, value) before each body run, iterating forward")
    ctx.rule("R14-12", "no script text runs without having been parsed: in run_lines every path to a return calls "
                       "parse_lines, and everything that executes commands (run_exp, run_command_line, run_pipeline ...) is "
                       "reached only in the Ok arm of that call - a pre-check that sends `simple` texts past the grammar "
                       "lets a stray `fi` / `done` / `else` run as a command instead of being a syntax error")
    gpath = os.path.join(ctx.root, "src", "parsers", "grammar.pest")
    try:
        g = pest.Grammar(gpath)
    except Exception as e:  # fail closed
        ctx.require(False, "R14-1", "R14-1|grammar", "cannot read the script grammar: %s" % str(e)[:200])
        return
    balance_rule(ctx, g)
    for crate in ctx.crates:
        anchor_rule(ctx, crate, g)
        table_rule(ctx, crate, g)
        flag_rules(ctx, crate)
        order_rules(ctx, crate)
        flags_used_rule(ctx, crate)
        for_binding_rule(ctx, crate)
        for_words_rule(ctx, crate)
        condition_status_rule(ctx, crate)
        parsed_first_rule(ctx, crate)


def anchor_rule(ctx, crate, g):
    b = crate.fn("parsers::locust::parse_lines")
    if not ctx.require(b is not None, "R14-1", "R14-1|anchor", "parsers::locust::parse_lines not found"):
        return
    ctx.analysed(b)
    top = None
    for bb, t, c in b.calls():
        if last_seg(c) == "parse" and "pest" in c:
            a = strip_sites(b.call_args(bb)[0])
            if a[0] == "agg" and "::Rule::" in a[1]:
                top = a[1].split("::")[-1]
    if not ctx.require(top is not None and top in g.rules, "R14-1", "R14-1|%s|top" % b.path,
                       "cannot identify the grammar rule passed to the parser", b.path):
        return
    nblocks = 0
    for name in g.order:
        r = g.rules[name]
        els = g.seq_elements(r["expr"])
        if name == top or len(els) < 2 or not any(g.mentions(x, "EXP_BODY") for x in els):
            continue
        if g.mentions(els[0], "EXP_BODY") and g.mentions(els[-1], "EXP_BODY"):
            continue    # EXP_BODY itself / pure containers
        # skip a leading optional start-of-input marker
        core = [x for x in els if not (x["k"] == "opt" and x["e"]["k"] == "ident" and x["e"]["v"] == "SOI")]
        nblocks += 1
        for pos, x in (("opening", core[0]), ("closing", core[-1])):
            if g.mentions(x, "EXP_BODY"):
                continue
            okn = not g.nullable(x)
            label = x["v"] if x["k"] == "ident" else x["k"]
            ctx.ob("R14-7", b.path, "%s element %s of %s must consume text" % (pos, label, name), okn,
                   key="R14-7|grammar|%s|%s|%s" % (name, pos, label), crate=crate.kind,
                   detail=None if okn else "%s can match the empty string (e.g. at end of input): a script with a missing "
                   "closing keyword parses, and the commands after the block are run as part of it" % label)
    ctx.floor("R14-7", crate, "block rules in the grammar", nblocks, 5)
    alts = g.first_alternatives(top)
    for label, e in alts:
        oks = g.leading_skip(e)
        ctx.ob("R14-6", b.path, "a leading blank before %s at the start of the text is skipped" % label, oks,
               key="R14-6|grammar|%s|leading-blank|%s" % (top, label), crate=crate.kind,
               detail=None if oks else "an indented first line opening this block is read as a plain command; its closing "
               "keyword then fails the whole parse (nothing runs, status 0)")
    ctx.ob("R14-6", b.path, "%d alternative(s) can start at offset 0 of %s" % (len(alts), top), True, crate=crate.kind,
           nontrivial=False)
    ok = g.ends_with_eoi(top)
    ctx.ob("R14-1", b.path, "top rule %s ends in EOI" % top, ok, key="R14-1|grammar|%s-anchored" % top, crate=crate.kind,
           detail=None if ok else "with an unanchored `(...)*` a script whose block keywords do not balance parses as a "
                                  "prefix: everything from the unbalanced keyword on is silently skipped, status 0")


def table_rule(ctx, crate, g):
    for w, nodes in WALKERS.items():
        b = crate.fn(w)
        if not ctx.require(b is not None, "R14-2", "R14-2|anchor|%s" % w, "%s not found" % w):
            continue
        ctx.analysed(b)
        have = rules_compared(b)
        for node in nodes:
            if not ctx.require(node in g.rules, "R14-2", "R14-2|grammar|%s" % node, "grammar has no rule %s" % node):
                continue
            need = g.children(node)
            missing = sorted(x for x in need - have if x not in SKIPPABLE.get(w, {}))
            ctx.ob("R14-2", w, "children of %s {%s} are all handled" % (node, ", ".join(sorted(need))), not missing,
                   key="R14-2|%s|%s" % (w, node), crate=crate.kind,
                   detail="not handled: %s" % missing if missing else None)
    # for-head helpers
    for w, node, want in (("scripting::get_for_result_list", "FOR_HEAD", {"FOR_INIT"}),
                          ("scripting::get_for_var_name", "FOR_HEAD", {"FOR_INIT"}),
                          ("scripting::get_for_result_from_init", "FOR_INIT", {"TEST"}),
                          ("scripting::get_for_var_name", "FOR_INIT", {"FOR_VAR"})):
        b = crate.fn(w)
        if b is None or node not in g.rules:
            ctx.require(False, "R14-2", "R14-2|anchor|%s" % w, "%s / %s not found" % (w, node))
            continue
        have = rules_compared(b)
        ok = want <= have and want <= g.children(node)
        ctx.ob("R14-2", w, "%s: looks for %s among the children of %s" % (last_seg(w), sorted(want), node), ok,
               key="R14-2|%s|%s" % (w, node), crate=crate.kind, nontrivial=False)


def _ret_tuples(b):
    """(bb, [flag1, flag2]) for assignments _0 = (x, c1, c2) with constant flags"""
    out = []
    for bi, si in b.defs.get(0, []):
        e = strip_sites(b.def_expr(bi, si))
        if e[0] == "agg" and e[1] == "tuple" and len(e[2]) == 3:
            out.append((bi, const_bool(e[2][1]), const_bool(e[2][2])))
    return out


def _world_eval(b, e, world, depth=0):
    """truth of a bool expression when the line is world['line'] and in_loop is world['in_loop']; None = not determined"""
    from ..etag import norm_guard
    e = strip_sites(e)
    if depth > 6:
        return None
    cb = const_bool(e)
    if cb is not None:
        return cb
    if e[0] == "un" and e[1] == "Not":
        v = _world_eval(b, e[2], world, depth + 1)
        return None if v is None else (not v)
    if e[0] == "param" and b.locals[e[1]]["ty"] == "bool":
        return world["in_loop"] if b.names.get(e[1], "in_loop") == "in_loop" else None
    g = norm_guard(e, True)
    if g is not None and g[0] == "eq":
        return (world["line"] == g[2]) == g[3]
    if e[0] == "var" and b.locals[e[1]]["ty"] == "bool":
        vals = set()
        for bi, si in b.defs.get(e[1], []):
            vals.add(_world_eval(b, b.def_expr(bi, si), world, depth + 1))
        if len(vals) == 1:
            return vals.pop()
        return None
    ee = b.expand_vars(e)
    if ee != e:
        return _world_eval(b, ee, world, depth + 1)
    return None


def _cmd_worlds(b, word, want):
    """inside the arm for a plain command line: with the line equal to `word`, every return reached under in_loop carries
    exactly the flags `want`, and without in_loop none carries a raised flag"""
    entry = None
    for bb in sorted(b.reachable):
        for tgt, atom, val in b.switch_edges(bb):
            is_cmd = (val is True and any(s_[0] == "agg" and s_[1].endswith("::Rule::CMD") for s_ in mir.subexprs(atom))) or \
                (atom[0] == "discr" and val == "CMD")
            if is_cmd and entry is None:
                entry = (bb, tgt)
    if entry is None:
        return False
    region = flow.edge_dominated(b, entry[0], entry[1])
    rets = {}
    for bi, si in b.defs.get(0, []):
        e = strip_sites(b.def_expr(bi, si))
        if e[0] == "agg" and e[1] == "tuple" and len(e[2]) == 3:
            rets[bi] = (e[2][1], e[2][2])
    verdict = True
    hit = False
    for in_loop in (True, False):
        world = {"line": word, "in_loop": in_loop}
        seen, todo = set(), [entry[1]]
        while todo:
            x = todo.pop()
            if x in seen or x not in region:
                continue
            seen.add(x)
            if x in rets:
                f = tuple(_world_eval(b, y, world) for y in rets[x])
                if in_loop:
                    hit = True
                    if f != want:
                        verdict = False
                elif f != (False, False):
                    verdict = False
                continue
            edges = b.switch_edges(x)
            if edges:
                for tgt, atom, val in edges:
                    tv = _world_eval(b, atom, world) if isinstance(val, bool) else None
                    if tv is None or tv == val:
                        todo.append(tgt)
            else:
                todo.extend(b.succs[x])
    return verdict and hit


def flag_rules(ctx, crate):
    b = crate.fn("scripting::run_exp")
    if not ctx.require(b is not None, "R14-3", "R14-3|anchor", "scripting::run_exp not found"):
        return
    ifcalls = [bb for bb, t, c in b.calls() if c == "scripting::run_exp_if"]
    if ctx.require(len(ifcalls) == 1, "R14-3", "R14-3|%s|if-call" % b.path, "expected one run_exp_if call", b.path):
        res = strip_sites(b.call_expr(ifcalls[0]))
        got = {}
        for bi, f1, f2 in _ret_tuples(b):
            facts = dom_facts(b, bi)
            for a, v in facts:
                ea = b.expand_vars(a)
                if ea[0] == "field" and ea[2] == b.expand_vars(res) and v is True:
                    got[ea[1]] = (f1, f2)
        ctx.ob("R14-3", b.path, "`continue` inside an if is forwarded as (.., true, false)", got.get(1) == (True, False),
               key="R14-3|%s|forward-continue" % b.path, crate=crate.kind, detail="returns %s" % (got.get(1),))
        ctx.ob("R14-3", b.path, "`break` inside an if is forwarded as (.., false, true)", got.get(2) == (False, True),
               key="R14-3|%s|forward-break" % b.path, crate=crate.kind, detail="returns %s" % (got.get(2),))
    # CMD continue / break only under in_loop
    from ..etag import norm_guard
    for word, want in (("continue", (True, False)), ("break", (False, True))):
        ok = False
        for bi, f1, f2 in _ret_tuples(b):
            facts = dom_facts(b, bi)
            lit = any((norm_guard(a, v) or (None,))[0] == "eq" and norm_guard(a, v)[2] == word and norm_guard(a, v)[3] for a, v in facts)
            inl = any(a[0] == "param" and b.locals[a[1]]["ty"] == "bool" and v is True for a, v in facts)
            if lit and inl and (f1, f2) == want:
                ok = True
            if lit and not inl and (f1, f2) != (False, False) and (f1, f2) == want:
                ok = False
        if not ok:
            # the flags need not be constants (`return (cr_list, is_continue, is_break)`): evaluate the CMD arm in the four
            # worlds (the word, in_loop)
            ok = _cmd_worlds(b, word, want)
        ctx.ob("R14-3", b.path, "CMD `%s` returns %s only under in_loop" % (word, want), ok,
               key="R14-3|%s|cmd-%s" % (b.path, word), crate=crate.kind)
    # nothing else raises a flag: every return with a constant `true` in the continue / break position is justified by
    # the word itself (`line == "continue"` / `"break"`) or forwards a flag a nested construct reported
    n_raised, unjust = 0, []
    nested = [strip_sites(b.call_expr(bb)) for bb, t, c in b.calls()
              if c in ("scripting::run_exp_if", "scripting::run_exp_for", "scripting::run_exp_while", "scripting::run_exp")]
    for bi, f1, f2 in _ret_tuples(b):
        if (f1, f2) == (False, False) or (f1 is not True and f2 is not True):
            continue
        n_raised += 1
        facts = dom_facts(b, bi)
        by_word = any((norm_guard(a, v) or (None,))[0] == "eq" and norm_guard(a, v)[2] in ("continue", "break")
                      and norm_guard(a, v)[3] for a, v in facts)
        forwarded = False
        for a, v in facts:
            ea = b.expand_vars(a)
            if ea[0] == "field" and v is True and any(ea[2] == b.expand_vars(r) for r in nested):
                forwarded = True
        if not (by_word or forwarded):
            unjust.append(bi)
    ctx.ob("R14-3", b.path, "continue / break flags are raised only by the words themselves or forwarded from a nested "
                            "construct (%d raising return(s))" % n_raised, n_raised >= 2 and not unjust,
           key="R14-3|%s|flag-raised-otherwise" % b.path, where=b.loc((unjust or [0])[0]), crate=crate.kind,
           detail=None if not unjust else "a return reports `break` / `continue` under some other condition (a status value, a "
           "counter): the rest of the loop body and the remaining iterations are skipped although the script has no break there")
    # loop drivers
    f = crate.fn("scripting::run_exp_for")
    w = crate.fn("scripting::run_exp_while")
    for drv, callee in ((f, "scripting::run_exp"), (w, "scripting::run_exp_test_br")):
        if not ctx.require(drv is not None, "R14-3", "R14-3|anchor|drv", "loop driver not found"):
            continue
        ctx.analysed(drv)
        calls = [bb for bb, t, c in drv.calls() if c == callee]
        if not ctx.require(len(calls) == 1, "R14-3", "R14-3|%s|body-call" % drv.path, "expected one %s call" % callee, drv.path):
            continue
        cb = calls[0]
        args = drv.call_args(cb)
        inloop = const_bool(strip_sites(args[3])) if len(args) > 3 else None
        ctx.ob("R14-3", drv.path, "loop body runs with in_loop = true", inloop is True,
               key="R14-3|%s|in_loop" % drv.path, where=drv.loc(cb), crate=crate.kind)
        res = drv.expand_vars(strip_sites(drv.call_expr(cb)))
        brk_idx = 2 if callee.endswith("run_exp") else 3
        loop = None
        for h, blocks in drv.loops().items():
            if cb in blocks and (loop is None or len(blocks) < len(loop[1])):
                loop = (h, blocks)
        ok = False
        if loop is not None:
            for x in loop[1]:
                for tgt, atom, val in drv.switch_edges(x):
                    ea = drv.expand_vars(atom)
                    if tgt not in loop[1] and ea[0] == "field" and ea[1] == brk_idx and ea[2] == res and val is True:
                        ok = True
        ctx.ob("R14-3", drv.path, "the loop is left when the body reports break", ok,
               key="R14-3|%s|leave-on-break" % drv.path, crate=crate.kind)


def order_rules(ctx, crate):
    b = crate.fn("scripting::run_exp_if")
    if ctx.require(b is not None, "R14-4", "R14-4|anchor|if", "run_exp_if not found"):
        ctx.analysed(b)
        calls = [bb for bb, t, c in b.calls() if c == "scripting::run_exp_test_br"]
        ok = False
        if calls:
            res = b.expand_vars(strip_sites(b.call_expr(calls[0])))
            for h, blocks in b.loops().items():
                if calls[0] in blocks:
                    for x in blocks:
                        for tgt, atom, val in b.switch_edges(x):
                            ea = b.expand_vars(atom)
                            if tgt not in blocks and ea[0] == "field" and ea[1] == 1 and ea[2] == res and val is True:
                                ok = True
        ctx.ob("R14-4", b.path, "the branch loop is left at the first passed branch", ok,
               key="R14-4|%s|first-true" % b.path, crate=crate.kind)
    t = crate.fn("scripting::run_exp_test_br")
    if ctx.require(t is not None, "R14-4", "R14-4|anchor|br", "run_exp_test_br not found"):
        ctx.analysed(t)
        calls = [bb for bb, tt, c in t.calls() if c == "scripting::run_exp"]
        ok = bool(calls) and all(any(a[0] == "var" and t.locals[a[1]]["ty"] == "bool" and v is True
                                     for a, v in dom_facts(t, bb)) for bb in calls)
        ctx.ob("R14-4", t.path, "a branch body runs only when its test passed", ok, key="R14-4|%s|body-guard" % t.path,
               crate=crate.kind)
        # the flag is set from the status of the head command: status == 0
        sets = []
        for bi, si in [(bi, si) for l, nm in t.names.items() if t.locals[l]["ty"] == "bool" for bi, si in t.defs.get(l, [])]:
            if const_bool(t.def_expr(bi, si)) is True:
                from ..etag import derived_facts
                facts = derived_facts(t, [(strip_sites(a), v) for a, v in dom_facts(t, bi)], with_dom=True)
                sets.append(any(a[0] == "bin" and a[1] == "Eq" and mir.const_int(a[3]) == 0 and v is True and
                                "status" in render(a) for a, v in facts) or
                            any(a[0] == "call" and last_seg(a[1]) == "eq" and any(s[0] == "agg" and s[1].endswith("KW_ELSE")
                                                                               for s in mir.subexprs(a)) and v is True for a, v in facts) or
                            any(a[0] == "discr" and v == "KW_ELSE" for a, v in facts))
        ctx.ob("R14-4", t.path, "test_pass is set by status == 0 of the head command (or by `else`)", bool(sets) and all(sets),
               key="R14-4|%s|test-status" % t.path, crate=crate.kind)
    w = crate.fn("scripting::run_exp_while")
    if w is not None:
        calls = [bb for bb, tt, c in w.calls() if c == "scripting::run_exp_test_br"]
        ok = bool(calls) and any(calls[0] in blocks for h, blocks in w.loops().items())
        ctx.ob("R14-4", w.path, "`while` evaluates its head (and body) inside the loop, once per iteration", ok,
               key="R14-4|%s|retest" % w.path, crate=crate.kind)
    f = crate.fn("scripting::run_exp_for")
    if f is not None:
        body = [bb for bb, tt, c in f.calls() if c == "scripting::run_exp"]
        sets = [bb for bb, tt, c in f.calls() if last_seg(c) == "set_env"]
        ok = False
        fwd = False
        if body and sets:
            for h, blocks in f.loops().items():
                if body[0] in blocks and sets[0] in blocks and f.dominates(sets[0], body[0]):
                    ok = True
                    for x in blocks:
                        tx = f.term(x)
                        if tx["k"] == "call" and last_seg(f.callee(tx)) == "next":
                            it = f.call_args(x)[0]
                            ty = f.locals[it[1]]["ty"] if it[0] == "var" else ""
                            if "Rev<" not in ty and flow.backward(f, it, lambda z: z[0] == "call" and last_seg(z[1]) == "rev") is None:
                                fwd = True
        ctx.ob("R14-4", f.path, "`for` binds the variable (set_env) before each body run, iterating the list forward",
               ok and fwd, key="R14-4|%s|bind" % f.path, crate=crate.kind)


FLAG_FIELDS = {"scripting::run_exp": (1, 2), "scripting::run_exp_if": (1, 2), "scripting::run_exp_test_br": (2, 3)}
DRIVERS = ("scripting::run_exp_for", "scripting::run_exp_while")


def flags_used_rule(ctx, crate):
    n = 0
    for b in crate.fns():
        if not b.path.startswith("scripting::") or b.path == "scripting::run_lines":
            continue
        k = 0
        for bb, t, c in b.calls():
            if c not in FLAG_FIELDS:
                continue
            n += 1
            res = b.expand_vars(strip_sites(b.call_expr(bb)))
            need = FLAG_FIELDS[c]
            if b.path in DRIVERS:
                need = need[1:]          # a loop driver consumes `continue` by starting the next iteration
            missing = []
            for fi in need:
                used = False
                # tested
                for x in sorted(b.reachable):
                    for tgt, atom, val in b.switch_edges(x):
                        ea = b.expand_vars(atom)
                        if any(s_[0] == "field" and s_[1] == fi and s_[2] == res for s_ in mir.subexprs(ea)):
                            used = True
                # forwarded into the return value
                for bi, si in b.defs.get(0, []):
                    if flow.backward(b, b.def_expr(bi, si),
                                     lambda z: z[0] == "field" and z[1] == fi and b.expand_vars(strip_sites(z[2])) == res) is not None:
                        used = True
                if not used:
                    missing.append("continue" if fi == need[0] and len(need) == 2 else "break")
            ctx.ob("R14-5", b.path, "flags of the nested %s call are forwarded / tested" % last_seg(c), not missing,
                   key="R14-5|%s|%s#%d" % (b.path, last_seg(c), k), where=b.loc(bb), crate=crate.kind,
                   detail=None if not missing else "the %s flag of this call is dropped: a `%s` inside that body does not "
                                                   "reach the enclosing loop" % ("/".join(missing), "/".join(missing)))
            k += 1
    ctx.floor("R14-5", crate, "nested block-runner calls", n, 5)


LINES = ["if t", "else if t", "else", "fi", "for x in a", "while t", "done", "echo"]
IF, ELIF, ELSE, FI, FOR, WHILE, DONE, CMD = range(8)


def _balanced(seq):
    """reference recogniser; returns True iff the whole sequence is a list of statements"""
    n = len(seq)

    def stmts(i, at_least_one):
        """parse stmt* from i; returns the set of positions reachable"""
        out = set() if at_least_one else {i}
        front = {i}
        seen = set()
        while front:
            j = front.pop()
            if j in seen:
                continue
            seen.add(j)
            for k in stmt(j):
                out.add(k)
                front.add(k)
        return out

    def stmt(i):
        res = set()
        if i >= n:
            return res
        t = seq[i]
        if t == CMD:
            res.add(i + 1)
        elif t in (FOR, WHILE):
            for j in stmts(i + 1, True):
                if j < n and seq[j] == DONE:
                    res.add(j + 1)
        elif t == IF:
            cur = stmts(i + 1, True)
            # (else-if body)*
            closed = set()
            work = set(cur)
            seen = set()
            while work:
                j = work.pop()
                if j in seen:
                    continue
                seen.add(j)
                if j < n and seq[j] == ELIF:
                    for k in stmts(j + 1, True):
                        work.add(k)
                if j < n and seq[j] == ELSE:
                    for k in stmts(j + 1, True):
                        if k < n and seq[k] == FI:
                            closed.add(k + 1)
                if j < n and seq[j] == FI:
                    closed.add(j + 1)
            res |= closed
        return res
    return n in stmts(0, False)


def _render(seq, layout):
    lines = []
    for t in seq:
        l = LINES[t]
        if layout == "then-do":
            if t in (IF, ELIF):
                l += "; then"
            elif t in (FOR, WHILE):
                l += "; do"
        if layout == "indented":
            l = "  " + l
        lines.append(l)
    text = "\n".join(lines) + "\n"
    if layout == "no-final-newline":
        text = text[:-1]
    return text


def balance_rule(ctx, g):
    import itertools
    top = "EXP"
    if not ctx.require(top in g.rules, "R14-8", "R14-8|grammar|top", "grammar has no rule EXP"):
        return
    maxlen = 5 if ctx.tier == "thorough" else 4
    n = 0
    bad = []
    for ln in range(1, maxlen + 1):
        for seq in itertools.product(range(8), repeat=ln):
            want = _balanced(seq)
            for layout in ("plain", "then-do", "indented", "no-final-newline"):
                if layout == "no-final-newline" and seq[-1] in (IF, ELIF, ELSE, FOR, WHILE):
                    continue      # a head line needs its newline; not part of the comparison
                got = g.accepts(top, _render(seq, layout))
                n += 1
                if got != want and len(bad) < 6:
                    bad.append((seq, layout, want, got))
    ctx.paths_enumerated += n
    ok = not bad
    detail = None
    if bad:
        seq, layout, want, got = bad[0]
        detail = "layout %s, script %r: the grammar %s it, a balanced-structure reading %s" % (
            layout, _render(seq, layout), "accepts" if got else "rejects", "accepts" if want else "rejects")
    ctx.ob("R14-8", "parsers::grammar", "grammar and reference recogniser agree on %d scripts (<= %d lines, 4 layouts)" % (n, maxlen),
           ok, key="R14-8|grammar|balance-agreement", detail=detail)


def for_binding_rule(ctx, crate):
    from . import c09
    n0 = len(ctx.obligations)
    v0 = set(ctx.violations)
    c09.precedence_rule(ctx, crate, "R14-9")
    sub = type(ctx)("C14", ctx.tier, [crate], ctx.root)
    c09.api_rules(sub, crate)
    for o in sub.obligations:
        if o["rule"] == "R09-5":
            o["rule"] = "R14-9"
            if o.get("key"):
                o["key"] = "R14-9" + o["key"][5:]
            ctx.obligations.append(o)
    for k, v in sub.violations.items():
        if v["rule"] == "R09-5":
            v["rule"] = "R14-9"
            v["key"] = "R14-9" + k[5:]
            ctx.violations[v["key"]] = v


def for_words_rule(ctx, crate):
    from .c02 import dom_facts
    b = crate.fn("scripting::get_for_result_from_init")
    if not ctx.require(b is not None, "R14-10", "R14-10|anchor", "scripting::get_for_result_from_init not found"):
        return
    ctx.analysed(b)
    res = None
    for bi, si in b.defs.get(0, []):
        e = strip_sites(b.def_expr(bi, si))
        if e[0] == "var":
            res = e[1]
    pushes = [bb for bb, t, c in b.calls() if last_seg(c) == "push" and "Vec" in c and b.call_args(bb) and
              mir.root_local_expr(b.expand_vars(strip_sites(b.call_args(bb)[0]))) == res]
    if not ctx.require(res is not None and len(pushes) >= 2, "R14-10", "R14-10|%s|pushes" % b.path,
                       "expected the word list to be filled by two kinds of push", b.path):
        return
    whole, split = [], []
    for bb in pushes:
        v = b.expand_vars(strip_sites(b.call_args(bb)[1]))
        if any(sub[0] == "call" and last_seg(sub[1]) in ("split_whitespace", "split_ascii_whitespace", "split") for sub in mir.subexprs(v)) \
                or flow.backward(b, b.call_args(bb)[1], lambda z: z[0] == "call" and last_seg(z[1]) in (
                    "split_whitespace", "split_ascii_whitespace"), through_containers=False) is not None:
            split.append(bb)
        else:
            whole.append(bb)
    ok = bool(split) and bool(whole)
    for bb in whole:
        tagged = False
        for a, v in dom_facts(b, bb):
            a2 = strip_sites(a)
            if a2[0] == "call" and last_seg(a2[1]) == "is_empty" and v is False:
                tagged = True
        ok = ok and tagged
    ctx.ob("R14-10", b.path, "a whole token becomes one for-word only when it carries a quote tag", ok,
           key="R14-10|%s|whole-token-untagged" % b.path, where=b.loc((whole or pushes)[0]), crate=crate.kind,
           detail=None if ok else "an unquoted expansion that produced nothing (`for x in $EMPTY`, `$(true)`, `$@` without "
           "arguments) becomes the word \"\": the body runs once with an empty variable")


def condition_status_rule(ctx, crate):
    from .c02 import dom_facts
    b = crate.fn("scripting::run_exp_test_br")
    if not ctx.require(b is not None, "R14-11", "R14-11|anchor", "scripting::run_exp_test_br not found"):
        return
    runs = [bb for bb, t, c in b.calls() if last_seg(c) == "run_command_line"]
    if not ctx.require(len(runs) == 1, "R14-11", "R14-11|%s|run" % b.path, "expected one run_command_line in run_exp_test_br", b.path):
        return
    res = strip_sites(b.call_expr(runs[0]))
    # assignments `flag = true` after the head line ran, with their dominating facts
    sets = []
    for bi, si, st in b.stmts():
        if st["k"] == "assign" and not st["place"]["p"] and b.locals[st["place"]["l"]]["ty"] == "bool":
            e = b.expand_vars(strip_sites(b.rvalue_expr(st["rv"])))
            if b.dominates(runs[0], bi) and bi != runs[0]:
                sets.append((bi, e))
    good, bad = [], []
    for bi, e in sets:
        srcs = []       # how the compared status is picked from the result list
        exprs = [e] + [b.expand_vars(strip_sites(a)) for a, v in dom_facts(b, bi)]
        for x in exprs:
            for sub in mir.subexprs(x):
                if sub[0] == "call" and last_seg(sub[1]) in ("last", "first", "get", "index", "iter", "any", "all", "nth", "pop"):
                    if any(y == res for y in mir.subexprs(b.expand_vars(strip_sites(sub)))) or \
                            flow.backward(b, sub, lambda z: strip_sites(z) == res, through_containers=False) is not None:
                        srcs.append(last_seg(sub[1]))
        if not srcs:
            continue
        (good if set(srcs) <= {"last"} else bad).append((bi, sorted(set(srcs))))
    ok = bool(good) and not bad
    ctx.ob("R14-11", b.path, "the condition's verdict is taken from results.last().status", ok,
           key="R14-11|%s|condition-status" % b.path, where=b.loc((bad or good or [(runs[0], [])])[0][0]), crate=crate.kind,
           detail=None if ok else "the verdict is taken via %s: for `if a && b` / `while a || b` the wrong command decides" %
           ((bad[0][1] if bad else "no recognisable selection")))


EXECUTORS = ("run_exp", "run_command_line", "run_proc", "run_pipeline", "run_lines", "run_script", "run_exp_if",
             "run_exp_for", "run_exp_while", "run_exp_test_br")


def parsed_first_rule(ctx, crate):
    b = crate.fn("scripting::run_lines")
    if not ctx.require(b is not None, "R14-12", "R14-12|anchor", "scripting::run_lines not found"):
        return
    ctx.analysed(b)
    parses = {bb for bb, t, c in b.calls() if c.endswith("locust::parse_lines")}
    if not ctx.require(bool(parses), "R14-12", "R14-12|%s|parse" % b.path, "run_lines does not call parse_lines", b.path):
        return
    rets = {bb for bb in b.reachable if b.term(bb)["k"] == "return"}
    always = flow.must_pass(b, 0, parses, rets)
    ctx.ob("R14-12", b.path, "parse_lines is called on every path of run_lines", always,
           key="R14-12|%s|always-parsed" % b.path, crate=crate.kind,
           detail=None if always else "some texts are run line by line without the block grammar: an unbalanced script made "
           "only of closers / continuers (`fi`, `done`, `else`) is not diagnosed, its commands all run")
    ok_arm = set()
    for x in sorted(b.reachable):
        for tgt, atom, val in b.switch_edges(x):
            a = strip_sites(atom)
            if a[0] == "discr" and val == "Ok" and any(
                    sub[0] == "call" and sub[1].endswith("locust::parse_lines") for sub in mir.subexprs(a)):
                from ..etag import edge_dominated
                ok_arm |= edge_dominated(b, x, tgt)
    execs = [(bb, last_seg(c)) for bb, t, c in b.calls() if last_seg(c) in EXECUTORS]
    bad = [(bb, n_) for bb, n_ in execs if bb not in ok_arm]
    ctx.ob("R14-12", b.path, "commands are executed only under Ok(parse_lines(..)) (%d executing call(s))" % len(execs),
           bool(execs) and not bad, key="R14-12|%s|executes-parsed-only" % b.path, crate=crate.kind,
           where=b.loc((bad or [(0, "")])[0][0]),
           detail=None if not bad else "%s reached without a successful parse" % ", ".join(sorted({n_ for _, n_ in bad})))
    # in the script interpreter, lines are handed to the executor only by the walkers of parsed nodes
    n, bad = 0, []
    for f in crate.fns():
        if not (f.path.startswith("scripting::") or f.path.startswith("builtins::source")) or "::tests::" in f.path:
            continue
        sites = [bb for bb, t, c in f.calls() if c.endswith("execute::run_command_line")]
        if not sites:
            continue
        n += len(sites)
        top = crate.fn(f.parent) if f.kind == "closure" and getattr(f, "parent", None) else f
        if not any("pest::iterators::Pair" in top.locals[l]["ty"] for l in range(1, top.arg_count + 1)):
            bad.append((f, sites[0]))
    if ctx.require(n >= 2, "R14-12", "R14-12|walkers", "expected the two executing walkers of scripting.rs, found %d call(s)" % n):
        ctx.ob("R14-12", "scripting", "run_command_line is called only by functions that walk a parsed node (%d call(s))" % n,
               not bad, key="R14-12|scripting|executor-callers", crate=crate.kind,
               where=(bad[0][0].loc(bad[0][1]) if bad else None),
               detail=None if not bad else "%s runs lines it did not get from the parser" % ", ".join(sorted({f.path for f, _ in bad})))
