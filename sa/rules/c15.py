"""C15 - script arguments, functions, `source`, exit statuses."""
from .. import flow, mir
from ..mir import const_int, last_seg, render, strip_sites
from .c02 import dom_facts
from .c04 import child_region
from . import c03

EXPLANATION = ("C15: a value-flow table decided by backward slices on all paths: the status of a function call, of "
               "`source`, of a script and the code given to process::exit; the positional-parameter base (argument "
               "lists are passed as args[1..], `$@` joins args[1..]); exit_on_error is tested after every command of a "
               "block; `source` and function calls run in the shell process (never behind a fork).  Argument text with "
               "special characters goes through C16's renderer rule; the function-extraction regexes are not decided.")


def run(ctx):
    ctx.rule("R15-1", "status of a function call <- status of the last result of run_lines; builtins::source::run <- "
                      "run_script; run_script <- last result; exit N <- the parsed argument")
    ctx.rule("R15-2", "scripts / functions receive their words as args[1..] at every call site; `$@` joins args[1..]; "
                      "`$N` reads args[N]")
    ctx.rule("R15-3", "in run_exp the exit_on_error flag (with a non-zero status) is tested after every command before "
                      "the next one starts")
    ctx.rule("R15-5", "the gate of the positional-parameter pass is not narrower than its rewriter: it is an unanchored "
                      "regex search for the same `$N / ${N} / $@` trigger the rewriter rewrites, so a parameter anywhere in "
                      "a word is expanded")
    ctx.rule("R15-4", "run_script (for source) and run_lines (for functions) are called in the shell process: not in a "
                      "post-fork child region, and try_run_func runs before the stage loop")
    ctx.rule("R15-6", "the positional-parameter pass writes every rewritten word back into the slot it was read from: its "
                      "hand-written position counter advances exactly once per token and no recorded position is used "
                      "after the vector's length changed (E-EDITLIST)")
    ctx.rule("R15-7", "the status of a script / function / source is read from the LAST element of the result list the "
                      "interpreter returns, so that list only grows: in run_exp, run_exp_if / _for / _while / _test_br, "
                      "run_lines and run_script the Vec<CommandResult> is only pushed / appended / extended - never cleared, "
                      "truncated, popped, drained or replaced (a line that yields no result, e.g. a comment, must not erase "
                      "the earlier ones)")
    ctx.rule("R15-8", "source / scripts / functions leave no residue in the shell when they fail: in the interpreter entry "
                      "points (run_script, run_lines, try_run_func, source) every `field += k` on the shell is matched by "
                      "`field -= k` on EVERY path to a return, the early error returns included")
    ctx.rule("R15-10", "`source FILE` always runs FILE, a call of a defined function always runs its body: in the source builtin "
                       "every path to a return goes through run_script except the one taken when no file name was given "
                       "(a test of the argument count); in try_run_func every path on which the function was found goes "
                       "through run_lines - no refusal based on shell state (a `being sourced` / depth / cache test "
                       "makes `source` skip a file the user named)")
    ctx.rule("R15-9", "a function defined again replaces the earlier definition: Shell::set_func stores with an unconditional "
                      "HashMap::insert on every path (not entry().or_insert.., not behind a contains_key test)")
    for crate in ctx.crates:
        overwrite_rule(ctx, crate, "R15-9", "shell::Shell::set_func", "funcs")
        always_runs_rule(ctx, crate)
        pairing_rule(ctx, crate)
        accumulator_rule(ctx, crate)
        from .. import editlist
        n_ = editlist.rule(ctx, crate, "R15-6", ["scripting::expand_args_in_tokens"])
        ctx.floor("R15-6", crate, "positional pass with a token vector", n_, 1)
        func_status(ctx, crate)
        source_status(ctx, crate)
        exit_code(ctx, crate)
        positional(ctx, crate)
        func_args(ctx, crate)
        exit_on_error(ctx, crate)
        gate_rule(ctx, crate)
        in_shell(ctx, crate)
    before = len(ctx.obligations)
    for crate in ctx.crates:
        rs = crate.fn("scripting::run_script")
        if rs is not None:
            c03.exit_rules(ctx, crate)
    for o in ctx.obligations[before:]:
        o["rule"] = "R15-1"
    for k in list(ctx.violations):
        if k.startswith("R03-5"):
            v = ctx.violations.pop(k)
            v["rule"] = "R15-1"
            v["key"] = "R15-1" + k[5:]
            ctx.violations[v["key"]] = v


def _pure_status(b, e, depth=0):
    """e is a `.status` field, the initial 0, or a local all of whose definitions are"""
    e = mir.peel(strip_sites(e))
    if flow.is_field_named(e, "status") or const_int(e) == 0:
        return True
    if e[0] == "var" and depth < 4:
        defs = b.defs.get(e[1], [])
        return bool(defs) and all(_pure_status(b, b.def_expr(bi, si), depth + 1) for bi, si in defs if si != "T") and \
            not any(si == "T" for bi, si in defs)
    return False


def func_status(ctx, crate):
    b = crate.fn("core::try_run_func")
    if not ctx.require(b is not None, "R15-1", "R15-1|anchor|try_run_func", "core::try_run_func not found"):
        return
    ctx.analysed(b)
    rl = flow.find_calls(b, "run_lines")
    if not ctx.require(len(rl) == 1, "R15-1", "R15-1|%s|run_lines" % b.path, "expected one run_lines call", b.path):
        return
    res = strip_sites(b.call_expr(rl[0]))
    # the value returned after run_lines: Some(cr); cr.status must derive from .status of items of the result
    writes = [(bi, si, rhs) for bi, si, rhs in flow.assignments_to_field(b, "status") if b.dominates(rl[0], bi)]
    ok = False
    detail = "no write to the result's status after run_lines (stays at CommandResult::new()'s 0)"
    for bi, si, rhs in writes:
        hit = flow.backward(b, rhs, lambda e: flow.is_field_named(e, "status") and
                            flow.backward(b, e[2], lambda z: strip_sites(z) == res) is not None)
        if hit is not None:
            ok = True
            detail = "status <- %s" % render(strip_sites(rhs))[:60]
            # the value itself, not something computed from several statuses (`status |= cr.status`, max, a sum)
            if not _pure_status(b, rhs):
                ok = False
                detail = "the status written is computed (%s), not the last command's status itself" % render(strip_sites(rhs))[:50]
                break
    # and it is the LAST: the per-item assignment inside the loop is unconditional
    if ok:
        for h, blocks in b.loops().items():
            for bi, si, s in b.stmts():
                if bi in blocks and s["k"] == "assign" and not s["place"]["p"] and b.names.get(s["place"]["l"]):
                    e = b.rvalue_expr(s["rv"])
                    if flow.is_field_named(mir.peel(strip_sites(e)), "status"):
                        facts = [(a, v) for a, v in dom_facts(b, bi, within=blocks) if a[0] != "discr"]
                        if facts:
                            ok = False
                            detail = "the per-command status is recorded only under %s" % render(facts[0][0])[:40]
    ctx.ob("R15-1", b.path, "function call status = status of the last command of its body", ok,
           key="R15-1|%s|status" % b.path, where=b.loc(rl[0]), crate=crate.kind, detail=detail)


def source_status(ctx, crate):
    b = crate.fn("builtins::source::run")
    if b is None:
        ctx.require(crate.kind != "bin", "R15-1", "R15-1|anchor|source", "builtins::source::run not found")
        return
    ctx.analysed(b)
    rs = flow.find_calls(b, "run_script")
    ok = False
    if rs:
        res = strip_sites(b.call_expr(rs[0]))
        for bi, si, rhs in flow.assignments_to_field(b, "status"):
            if b.dominates(rs[0], bi) and flow.backward(b, rhs, lambda e: strip_sites(e) == res) is not None:
                ok = True
    ctx.ob("R15-1", b.path, "source: status = run_script's return value", ok, key="R15-1|%s|status" % b.path,
           crate=crate.kind)


def exit_code(ctx, crate):
    b = crate.fn("builtins::exit::run")
    if b is None:
        return
    ctx.analysed(b)
    exits = [(bb, b.call_args(bb)[0]) for bb, t, c in b.calls() if last_seg(c) == "exit"]
    ok = False
    for bb, a in exits:
        e = b.expand_vars(strip_sites(a))
        # (parse(tokens[1].1) as Ok).0
        if any(s[0] == "downcast" and s[1] == "Ok" and s[2][0] == "call" and last_seg(s[2][1]) == "parse"
               for s in mir.subexprs(e)) and any(s[0] == "field" and s[1] == 1 and mir.field_bty(s) == mir.TOKEN_TY or
                                                (s[0] == "field" and s[1] == 1) for s in mir.subexprs(e)):
            facts = dom_facts(b, bb)
            ok = any(a2[0] == "discr" and v == "Ok" for a2, v in facts)
    ctx.ob("R15-1", b.path, "exit N ends the process with the parsed N", ok, key="R15-1|%s|code" % b.path, crate=crate.kind)


def positional(ctx, crate):
    n = 0
    for b in crate.fns():
        if not b.path.startswith("scripting::"):
            continue
        k = 0
        for bb, t, c in b.calls():
            if c in ("scripting::expand_args", "scripting::expand_line_to_toknes"):
                n += 1
                a = b.call_args(bb)
                e = b.expand_vars(strip_sites(a[1]))
                rng = [s for s in mir.subexprs(e) if s[0] == "agg" and s[1].endswith("RangeFrom::RangeFrom")]
                ok = len(rng) == 1 and const_int(rng[0][2][0]) == 1
                ctx.ob("R15-2", b.path, "%s receives args[1..]" % last_seg(c), ok,
                       key="R15-2|%s|%s#%d" % (b.path, last_seg(c), k), where=b.loc(bb), crate=crate.kind,
                       detail="argument: %s" % render(e)[:60])
                k += 1
    ctx.floor("R15-2", crate, "expand_args call sites", n, 3)
    b = crate.fn("scripting::expand_args_for_single_token")
    if ctx.require(b is not None, "R15-2", "R15-2|anchor|single", "expand_args_for_single_token not found"):
        ctx.analysed(b)
        joins = [bb for bb, t, c in b.calls() if last_seg(c) == "join"]
        ok = False
        for bb in joins:
            e = b.expand_vars(strip_sites(b.call_args(bb)[0]))
            rng = [s for s in mir.subexprs(e) if s[0] == "agg" and s[1].endswith("RangeFrom::RangeFrom")]
            ok = len(rng) == 1 and const_int(rng[0][2][0]) == 1
        ctx.ob("R15-2", b.path, "`$@` joins args[1..]", ok and len(joins) == 1, key="R15-2|%s|at" % b.path, crate=crate.kind)
        # $N -> args[N]: index expression is exactly the parsed number (no offset)
        ok = False
        for bb in sorted(b.reachable):
            t = b.term(bb)
            if t["k"] == "assert" and t["kind"] == "bounds":
                idx = b.expand_vars(strip_sites(b.operand_expr(t["ops"][1])))
                if idx[0] == "field" and idx[2][0] == "downcast" and idx[2][1] == "Ok" and idx[2][2][0] == "call" \
                        and last_seg(idx[2][2][1]) == "parse":
                    ok = True
        def parsed(idx):
            return idx[0] == "field" and idx[2][0] == "downcast" and idx[2][1] == "Ok" and idx[2][2][0] == "call" \
                and last_seg(idx[2][2][1]) == "parse"
        for bb, t, c in b.calls():
            # `args.get(N)`: the checked form of the same read
            if last_seg(c) == "get" and ("slice" in c or "[T]" in c or "Vec" in c) and len(b.call_args(bb)) == 2:
                if parsed(b.expand_vars(strip_sites(b.call_args(bb)[1]))):
                    ok = True
        ctx.ob("R15-2", b.path, "`$N` reads args[N] with N exactly the parsed number", ok,
               key="R15-2|%s|index" % b.path, crate=crate.kind)


def _is_flag_test(b, atom):
    """a branch on sh.exit_on_error, or on a bool one of whose definitions is that field (`let stop = failed &&
    sh.exit_on_error; if stop`, or a helper returning it)"""
    if flow.is_field_named(mir.peel(atom), "exit_on_error"):
        return True
    a = strip_sites(atom)
    return a[0] == "var" and b.locals[a[1]]["ty"] == "bool" and any(
        flow.is_field_named(mir.peel(e), "exit_on_error") for e in mir.bool_sources(b, a[1]))


def _set_e_world(b, rb, h, blocks):
    """in the world `set -e is on, the command ran and its status is not 0` no path from the command leads to the next
    line of the block: branch conditions the world decides (the flag, status ==/!= 0, bools defined from them) are
    followed along the consistent edge only, anything else both ways"""
    def ev(e, depth=0):
        e = strip_sites(e)
        if depth > 6:
            return None
        cb = mir.const_bool(e)
        if cb is not None:
            return cb
        if e[0] == "un" and e[1] == "Not":
            v = ev(e[2], depth + 1)
            return None if v is None else (not v)
        if flow.is_field_named(mir.peel(e), "exit_on_error"):
            return True
        if e[0] == "bin" and e[1] in ("Ne", "Eq") and const_int(e[3]) == 0 and "status" in render(b.expand_vars(e[2])):
            return e[1] == "Ne"
        if e[0] == "var" and b.locals[e[1]]["ty"] == "bool":
            vals = {ev(x, depth + 1) for x in sources(e[1])}
            return vals.pop() if len(vals) == 1 else None
        ee = b.expand_vars(e)
        return ev(ee, depth + 1) if ee != e else None

    # blocks only reached when there is no last result (`None` arm of a match on .last()): not part of this world
    nothing_ran = set()
    for x in sorted(b.reachable):
        for tgt, atom, val in b.switch_edges(x):
            a = strip_sites(atom)
            if a[0] == "discr" and val == "None" and any(s_[0] == "call" and last_seg(s_[1]) == "last" for s_ in mir.subexprs(a)):
                nothing_ran |= flow.edge_dominated(b, x, tgt)

    def contradicted(bi, depth):
        """the block is reached only under a branch outcome this world rules out (the `false` of `status != 0 && ..`
        assigned on the status == 0 side)"""
        for atom, val in dom_facts(b, bi):
            if isinstance(val, bool) and strip_sites(atom)[0] != "var":
                tv = ev(atom, depth + 1)
                if tv is not None and tv != val:
                    return True
        return False

    def sources(l, depth=4):
        out = []
        for bi, si in b.defs.get(l, []):
            if bi in nothing_ran or contradicted(bi, 6 - depth):
                continue
            x = strip_sites(b.def_expr(bi, si))
            if x[0] == "var" and depth > 0 and x[1] != l:
                out += sources(x[1], depth - 1)
            else:
                out.append(x)
        return out

    seen, todo = set(), list(b.succs[rb])
    while todo:
        x = todo.pop()
        if x in seen:
            continue
        seen.add(x)
        if x == h:
            return False
        if x not in blocks or b.term(x)["k"] == "return":
            continue
        edges = b.switch_edges(x)
        if not edges:
            todo.extend(b.succs[x])
            continue
        for tgt, atom, val in edges:
            a = strip_sites(atom)
            if a[0] == "discr" and val == "None" and any(s_[0] == "call" and last_seg(s_[1]) == "last" for s_ in mir.subexprs(a)):
                continue            # the command ran: there is a last result
            tv = ev(atom) if isinstance(val, bool) else None
            if tv is None or tv == val:
                todo.append(tgt)
    return True


def exit_on_error(ctx, crate):
    b = crate.fn("scripting::run_exp")
    if not ctx.require(b is not None, "R15-3", "R15-3|anchor", "scripting::run_exp not found"):
        return
    ctx.analysed(b)
    runs = [bb for bb, t, c in b.calls() if last_seg(c) == "run_command_line"]
    if not ctx.require(len(runs) >= 1, "R15-3", "R15-3|%s|run" % b.path, "no run_command_line in run_exp", b.path):
        return
    loop = None
    for h, blocks in b.loops().items():
        if runs[0] in blocks:
            loop = (h, blocks)
    if not ctx.require(loop is not None, "R15-3", "R15-3|%s|loop" % b.path, "command loop not found", b.path):
        return
    h, blocks = loop
    tests = set()
    for bb in blocks:
        for tgt, atom, val in b.switch_edges(bb):
            if _is_flag_test(b, atom):
                tests.add(bb)
    k = 0
    for rb in runs:
        ok = bool(tests) and flow.must_pass(b, b.succs[rb][0], tests, {h}, within=blocks)
        # the flag test leads to a return when set (with non-zero status)
        leaves = False
        for tb in tests:
            for tgt, atom, val in b.switch_edges(tb):
                if val is True and _is_flag_test(b, atom):
                    reach = flow.blocks_between(b, tgt, {h})
                    if any(b.term(x)["k"] == "return" for x in reach) and h not in reach:
                        leaves = True
        # reaching the test at all may depend on status != 0 being evaluated first: accept a status test before it
        if not ok and tests:
            st_tests = set()
            for bb in blocks:
                for tgt, atom, val in b.switch_edges(bb):
                    if atom[0] == "bin" and atom[1] in ("Ne", "Eq") and const_int(atom[3]) == 0:
                        st_tests.add(bb)
                    # `let failed = ..status != 0; if failed && sh.exit_on_error`
                    if atom[0] == "var" and b.locals[atom[1]]["ty"] == "bool" and any(
                            e[0] == "bin" and e[1] in ("Ne", "Eq") and const_int(e[3]) == 0 for e in mir.bool_sources(b, atom[1])):
                        st_tests.add(bb)
                    # `if let Some(last) = cr_list.last()`: nothing ran, nothing to test
                    if atom[0] == "discr" and atom[1][0] == "call" and last_seg(atom[1][1]) == "last":
                        st_tests.add(bb)
            ok = bool(st_tests) and flow.must_pass(b, b.succs[rb][0], st_tests | tests, {h}, within=blocks)
        strict = _set_e_world(b, rb, h, blocks)
        ctx.ob("R15-3", b.path, "exit_on_error (and the status) is tested after the command, and ends the block when set",
               ok and leaves and strict, key="R15-3|%s|tested#%d" % (b.path, k), where=b.loc(rb), crate=crate.kind)
        k += 1


def in_shell(ctx, crate):
    rsp = crate.fn("core::run_single_program")
    child = child_region(rsp) if rsp is not None else set()
    # functions that may run after fork in the child: called from the child region
    for target, fn_ in (("run_script", "builtins::source::run"), ("run_lines", "core::try_run_func")):
        b = crate.fn(fn_)
        if b is None:
            continue
        calls = flow.find_calls(b, target)
        ctx.ob("R15-4", b.path, "%s is called directly (same process, same Shell)" % target, len(calls) == 1,
               key="R15-4|%s|direct" % b.path, crate=crate.kind, nontrivial=False)
    pl = crate.fn("core::run_pipeline")
    if pl is not None:
        tf = [bb for bb, t, c in pl.calls() if c == "core::try_run_func"]
        from .. import plumb
        pm = plumb.PipelineModel(crate, pl)
        ok = len(tf) == 1 and pm.stage_loop is not None and pl.dominates(tf[0], pm.stage_loop) and not any(
            tf[0] in blocks for h, blocks in pl.loops().items())
        ctx.ob("R15-4", pl.path, "try_run_func runs in run_pipeline before the stage loop (before any fork)", ok,
               key="R15-4|%s|before-fork" % pl.path, crate=crate.kind)
    if rsp is not None:
        bad = [bb for bb, t, c in rsp.calls() if bb in child and last_seg(c) in ("try_run_func", "run_lines", "run_script")]
        ctx.ob("R15-4", rsp.path, "no function body / script is started directly from the post-fork child region", not bad,
               key="R15-4|%s|child" % rsp.path, crate=crate.kind)


def gate_rule(ctx, crate):
    from .. import refacts
    g = crate.fn("scripting::is_args_in_token")
    r = crate.fn("scripting::expand_args_for_single_token")
    if not ctx.require(g is not None and r is not None, "R15-5", "R15-5|anchor", "gate / rewriter of the positional pass not found"):
        return
    ctx.analysed(g)
    glit = None
    shape = False
    for bb, t, c in g.calls():
        if mir.short(c) == "libs::re::re_contains" or (last_seg(c) == "is_match" and "egex" in c):
            a = g.call_args(bb)
            for x in a:
                s_ = mir.const_str(x)
                if s_ is not None:
                    glit = s_
            # the searched text is the parameter itself and the result is the function's result
            shape = any(mir.peel(strip_sites(x))[0] == "param" for x in a) and t["dest"]["l"] == 0
    rlit = None
    for bb, t, c in r.calls():
        if last_seg(c) == "new" and "egex" in c:
            rlit = mir.const_str(r.call_args(bb)[0])
    ok = False
    detail = "gate literal %r, rewriter literal %r" % (glit, rlit)
    if glit is not None and rlit is not None and shape:
        gi = refacts.info(glit)
        unanchored = not glit.startswith("^") and not glit.endswith("$")
        # same trigger: `$`, optional `{`, digits or `@`
        core_g = glit.replace("(", "").replace(")", "")
        trig = all(x in core_g for x in ("\\$", "\\{?", "0-9", "@"))
        trig_r = all(x in rlit for x in ("\\$", "\\{?", "0-9", "@"))
        ok = bool(gi.get("ok")) and unanchored and trig and trig_r
    if glit is not None and rlit is not None:
        import itertools
        cache = crate.__dict__.get("_r15_5")
        if cache is None or cache[0] != (glit, rlit):
            texts = ["".join(t) for n in range(1, 6) for t in itertools.product("${}1@a", repeat=n)]
            gm = refacts.matches(glit, texts)
            rm = refacts.matches(rlit, texts)
            miss = [t for t, a_, b_ in zip(texts, gm, rm) if b_ and not a_]
            cache = ((glit, rlit), miss, len(texts))
            crate.__dict__["_r15_5"] = cache
        miss, ntexts = cache[1], cache[2]
        ctx.paths_enumerated += ntexts
        ctx.ob("R15-5", g.path, "every word the rewriter would rewrite passes the gate (all %d words <= 5 characters over "
                                "{$ { } 1 @ a}, both patterns evaluated with the program's regex engine)" % ntexts, not miss,
               key="R15-5|%s|gate-covers-rewriter" % g.path, crate=crate.kind,
               detail=None if not miss else "e.g. %r matches the rewriter's pattern but not the gate: it stays unexpanded" % miss[0])
    ctx.ob("R15-5", g.path, "the gate searches the whole word for the rewriter's trigger", ok,
           key="R15-5|%s|gate" % g.path, crate=crate.kind,
           detail=detail if ok else detail + ": cannot establish that every word the rewriter would rewrite passes the gate "
                                             "(e.g. \"$HOME/$1\" must still be expanded)")


def func_args(ctx, crate):
    """every word of a function call becomes one positional argument, empty quoted words included: the loop over
    command.tokens in try_run_func pushes the word's text on every path of an iteration (no filter), or the
    vector is built by an adaptor chain without filter/skip/take"""
    b = crate.fn("core::try_run_func")
    if not ctx.require(b is not None, "R15-2", "R15-2|anchor|try_run_func", "core::try_run_func not found"):
        return
    run = [bb for bb, t, c in b.calls() if last_seg(c) == "run_lines"]
    if not ctx.require(len(run) == 1, "R15-2", "R15-2|%s|run_lines" % b.path, "expected one run_lines call", b.path):
        return
    args = b.call_args(run[0])
    av = None
    for a in args:
        for e in (b.expand_vars(strip_sites(a)), strip_sites(a)):
            r = mir.root_local_expr(e)
            if av is None and r is not None and "Vec<std::string::String>" in b.locals[r]["ty"]:
                av = r
    if av is None:
        for op in b.term(run[0])["args"]:
            r = mir.raw_root_local(b, op, lambda ty: "Vec<std::string::String>" in ty)
            if r is not None:
                av = r
    if not ctx.require(av is not None, "R15-2", "R15-2|%s|args-vector" % b.path, "args vector not identified", b.path):
        return
    pushes = [bb for bb, t, c in b.calls() if last_seg(c) == "push" and "Vec" in c and b.call_args(bb) and
              mir.root_local_expr(b.expand_vars(strip_sites(b.call_args(bb)[0]))) == av]
    ok = False
    detail = "no loop over command.tokens pushing into the args vector"
    for h, blocks in sorted(b.loops().items()):
        inl = [p for p in pushes if p in blocks]
        nb = [bb for bb in blocks if b.term(bb)["k"] == "call" and last_seg(b.callee(b.term(bb))) == "next"]
        if not inl or not nb:
            continue
        # iterates the tokens field
        it = b.call_args(nb[0])[0]
        if flow.backward(b, it, lambda z: flow.is_field_named(z, "tokens"), through_containers=False) is None:
            continue
        some_t = [tgt for tgt, atom, val in b.switch_edges(b.succs[nb[0]][0]) if val == "Some"] if b.succs[nb[0]] else []
        if not some_t:
            continue
        ok = flow.must_pass(b, some_t[0], set(inl), {h}, within=blocks)
        detail = None if ok else "an iteration can reach the next word without pushing the current one: an empty quoted " \
                                 "argument (\"\", \"$unset\") disappears and every later $N shifts left"
    if not ok and detail is not None and detail.startswith("no loop"):
        LOSSY = {"filter", "skip", "take", "step_by", "skip_while", "take_while", "filter_map", "dedup", "rev", "retain",
                 "flat_map", "flatten", "zip", "chain", "truncate", "pop", "remove"}
        for bb, t, c in b.calls():
            if last_seg(c) in ("extend", "append", "extend_from_slice") and b.call_args(bb) and \
                    mir.root_local_expr(b.expand_vars(strip_sites(b.call_args(bb)[0]))) == av:
                src = b.expand_vars(strip_sites(b.call_args(bb)[1]))
                calls = {last_seg(x[1]) for x in mir.subexprs(src) if x[0] == "call"}
                if any(flow.is_field_named(x, "tokens") for x in mir.subexprs(src)) and not (calls & LOSSY):
                    ok, detail = True, None
        # `let args: Vec<String> = once(name).chain(command.tokens.iter().map(..)).collect()`
        for bi, si in b.defs.get(av, []):
            src = b.expand_vars(strip_sites(b.def_expr(bi, si)))
            if src[0] == "call" and last_seg(src[1]) == "collect":
                calls = [last_seg(x[1]) for x in mir.subexprs(src) if x[0] == "call"]
                lossy = set(calls) & LOSSY
                if lossy == {"chain"} and calls.count("chain") == 1 and "once" in calls:
                    lossy = set()           # one leading element ($0) in front of the words
                if any(flow.is_field_named(x, "tokens") for x in mir.subexprs(src)) and not lossy:
                    ok, detail = True, None
    ctx.ob("R15-2", b.path, "every word of the call is pushed as one positional argument", ok,
           key="R15-2|%s|all-words" % b.path, where=b.loc(run[0]), crate=crate.kind, detail=detail)


ACCUMULATORS = ["scripting::run_exp", "scripting::run_exp_if", "scripting::run_exp_for", "scripting::run_exp_while",
                "scripting::run_exp_test_br", "scripting::run_lines", "scripting::run_script"]
SHRINKING = {"clear", "truncate", "pop", "drain", "retain", "remove", "swap_remove", "split_off", "dedup", "resize", "set_len",
             "take", "replace"}


def accumulator_rule(ctx, crate):
    n = 0
    for p in ACCUMULATORS:
        b = crate.fn(p)
        if b is None:
            continue
        lists = [l for l, loc in enumerate(b.locals) if loc["ty"] == "std::vec::Vec<types::CommandResult>" and l in b.names]
        # the accumulator: the list that the function returns (directly or as a tuple component)
        rets = [b.def_expr(bi, si) for bi, si in b.defs.get(0, [])]
        lists = [l for l in lists if any(
            flow.backward(b, e, lambda z, l=l: z[0] == "var" and z[1] == l, through_containers=False) is not None for e in rets)]
        for l in lists:
            bad = []
            for bb, t, c in b.calls():
                a = b.call_args(bb)
                if a and mir.root_local_expr(b.expand_vars(strip_sites(a[0]))) == l and last_seg(c) in SHRINKING and (
                        "Vec" in c or "mem::" in c):
                    bad.append((bb, last_seg(c)))
            # reassignment inside a loop (the initial `Vec::new()` is outside)
            for bi, si in b.defs.get(l, []):
                if any(bi in blocks for blocks in b.loops().values()):
                    e = strip_sites(b.def_expr(bi, si))
                    if not (e[0] == "var" and e[1] == l):
                        bad.append((bi, "reassigned in a loop"))
            n += 1
            ctx.ob("R15-7", p, "result list `%s` only grows" % b.names.get(l), not bad,
                   key="R15-7|%s|shrinks|%s" % (p, b.names.get(l)), where=b.loc(bad[0][0]) if bad else "", crate=crate.kind,
                   detail=None if not bad else "%s: a line that produces no result (a comment line) after a failing command "
                   "leaves the list empty and the status falls back to 0" % bad[0][1])
    ctx.floor("R15-7", crate, "result lists in the interpreter", n, 5)


PAIRED_SCOPE = ["scripting::run_script", "scripting::run_lines", "core::try_run_func", "builtins::source::run",
                "scripting::run_exp", "scripting::run_exp_for", "scripting::run_exp_while"]


def pairing_rule(ctx, crate, rule="R15-8", scope=None, strict=True, detail=None):
    """strict: every increment of a field needs a decrement on every path to a return.  Not strict: only in functions
    that decrement the field somewhere themselves (a bracket was intended; plain counters are left alone)."""
    n = 0
    for p in (PAIRED_SCOPE if scope is None else scope):
        b = crate.fn(p)
        if b is None:
            continue
        incs, decs = {}, {}
        for bi, si, st in b.stmts():
            if st["k"] != "assign" or not st["place"]["p"]:
                continue
            names = [x.get("name") for x in st["place"]["p"] if isinstance(x, dict) and "f" in x]
            if not names:
                continue
            e = mir.peel(strip_sites(b.rvalue_expr(st["rv"])))
            if e[0] == "field" and e[2][0] == "bin":        # checked arithmetic: (a + k).0
                e = e[2]
            if e[0] == "bin" and e[1] in ("Add", "Sub", "AddWithOverflow", "SubWithOverflow") and const_int(e[3]) is not None:
                lhs = mir.peel(e[2])
                if lhs[0] == "field" and mir.field_name(lhs) == names[-1]:
                    (incs if e[1].startswith("Add") else decs).setdefault(names[-1], set()).add(bi)
        rets = {bb for bb in b.reachable if b.term(bb)["k"] == "return"}
        for fld_, blocks in sorted(incs.items()):
            if not strict and fld_ not in decs:
                continue
            for ib in sorted(blocks):
                n += 1
                ok = fld_ in decs and flow.must_pass(b, ib, decs[fld_], rets)
                ctx.ob(rule, p, "`%s += k` is undone on every path to a return" % fld_, ok,
                       key="%s|%s|unbalanced|%s" % (rule, p, fld_), where=b.loc(ib), crate=crate.kind,
                       detail=None if ok else (detail or "an early `return` (no such file, not UTF-8, ...) leaves the counter "
                       "raised: after enough failures every later source / call is refused or miscounted"))
    ctx.ob(rule, "(scope)", "%d bracketed increment(s) of struct fields in scope" % n, True, crate=crate.kind,
           nontrivial=False)
    return n


def overwrite_rule(ctx, crate, rule, path, field):
    b = crate.fn(path)
    if not ctx.require(b is not None, rule, "%s|anchor|%s" % (rule, path), "%s not found" % path):
        return
    ctx.analysed(b)
    on_field = lambda bb: any(flow.is_field_named(x, field) for a in b.call_args(bb)
                              for x in mir.subexprs(b.expand_vars(strip_sites(a))))
    inserts = {bb for bb, t, c in b.calls() if last_seg(c) == "insert" and "HashMap" in c and on_field(bb)}
    soft = [(bb, last_seg(c)) for bb, t, c in b.calls() if last_seg(c) in (
        "entry", "or_insert", "or_insert_with", "or_default", "try_insert", "contains_key", "get") and on_field(bb)]
    rets = {bb for bb in b.reachable if b.term(bb)["k"] == "return"}
    ok = bool(inserts) and flow.must_pass(b, 0, inserts, rets) and not [x for x in soft if x[1] != "get"]
    ctx.ob(rule, path, "%s overwrites: HashMap::insert on `%s` on every path" % (last_seg(path), field), ok,
           key="%s|%s|overwrite" % (rule, path), where=b.loc((soft or [(0, "")])[0][0]), crate=crate.kind,
           detail=None if ok else "%s: an existing entry is kept - a second definition under the same name is silently ignored" %
           (", ".join(sorted({x[1] for x in soft})) or "no unconditional insert"))


def always_runs_rule(ctx, crate):
    b = crate.fn("builtins::source::run")
    if not ctx.require(b is not None, "R15-10", "R15-10|anchor", "builtins::source::run not found"):
        return
    ctx.analysed(b)
    runs = {bb for bb, t, c in b.calls() if c.endswith("scripting::run_script")}
    if not ctx.require(bool(runs), "R15-10", "R15-10|%s|runner" % b.path, "source does not call run_script", b.path):
        return
    # blocks from which the runner can still be reached
    can = set(runs)
    changed = True
    while changed:
        changed = False
        for x in b.reachable:
            if x not in can and any(y in can for y in b.succs[x]):
                can.add(x)
                changed = True
    rets = {bb for bb in b.reachable if b.term(bb)["k"] == "return"}
    # the only admissible way past the runner: the argument-count test
    bad = []
    seen, todo = set(), [0]
    while todo:
        x = todo.pop()
        if x in seen or x in runs:
            continue
        seen.add(x)
        edges = {tgt: (atom, val) for tgt, atom, val in b.switch_edges(x)}
        for y in b.succs[x]:
            if x in can and y not in can:
                atom = edges.get(y, (None, None))[0]
                is_argc = atom is not None and any(sub[0] == "call" and last_seg(sub[1]) in ("len", "is_empty", "get", "first")
                                                   for sub in mir.subexprs(b.expand_vars(strip_sites(atom)))) and \
                    "tokens_to_args" in render(b.expand_vars(strip_sites(atom)))
                if not is_argc:
                    bad.append((x, render(strip_sites(atom))[:70] if atom is not None else "?"))
                continue
            todo.append(y)
    ok = not bad
    ctx.ob("R15-10", b.path, "source reaches run_script on every path except `no file specified`", ok,
           key="R15-10|%s|always-runs" % b.path, where=b.loc((bad or [(0, "")])[0][0]), crate=crate.kind,
           detail=None if ok else "source returns without running the file under a test that is not the argument count (%s): a "
           "file the user named is skipped, its functions and variables are missing afterwards" % "; ".join(x[1] for x in bad))
    f = crate.fn("core::try_run_func") or (crate.find("try_run_func") or [None])[0]
    if ctx.require(f is not None, "R15-10", "R15-10|anchor2", "try_run_func not found"):
        ctx.analysed(f)
        runs_f = {bb for bb, t, c in f.calls() if c.endswith("scripting::run_lines")}
        found = set()
        for x in sorted(f.reachable):
            for tgt, atom, val in f.switch_edges(x):
                a = strip_sites(atom)
                if a[0] == "discr" and (val == "Some" or (val == "Continue" and any(
                        sub[0] == "call" and last_seg(sub[1]) == "branch" for sub in mir.subexprs(a)))) and \
                        any(sub[0] == "call" and last_seg(sub[1]) in ("get_func", "get")
                                                              for sub in mir.subexprs(a)):
                    found.add(tgt)
        rets_f = {bb for bb in f.reachable if f.term(bb)["k"] == "return"}
        ok2 = bool(runs_f) and bool(found) and all(flow.must_pass(f, t_, runs_f, rets_f) for t_ in found)
        ctx.ob("R15-10", f.path, "a function that was found is run on every path (run_lines)", ok2,
               key="R15-10|%s|always-runs" % f.path, crate=crate.kind,
               detail=None if ok2 else "some path returns after the lookup succeeded without running the body")
