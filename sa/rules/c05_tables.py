"""Audited tables for C05: one symbol, one reason each.  Keys are (function, site description with
anonymised variable names, ordinal among equal descriptions) - no line numbers, no local names.
A site that is neither discharged by a rule nor listed here is reported."""
from .c05 import audit, guard_len_mirror_gt_index, loop_entry

UNREACH = 'core::panicking::panic("internal error: entered unreachable code")'

# ---- panic-capable sites discharged by an argument the rules cannot derive ----------------------
audit("<completers::CicadaCompleter as lineread::Completer<Term>>::word_start",
      "Index::index($1, std::ops::RangeTo::RangeTo($2))", 0,
      "`end` is the cursor byte offset handed in by lineread, always a char boundary <= line.len()")
audit("calculator::eval_float::{closure#0}",
      "std::result::Result::unwrap(str::parse(pest::iterators::Pair::as_str($1)))", 0,
      "f64::from_str accepts every string the grammar rule `num` can produce (sign, digits, optional "
      "fraction, optional exponent); huge values parse to inf")
for fn in ("calculator::eval_float::{closure#0}", "calculator::eval_int::{closure#0}"):
    audit(fn, UNREACH, 0, "grammar: a primary is `num` or `expr` (term = num | \"(\" expr \")\"), both arms "
                          "handled - re-checked by C19 R19-2")
for fn in ("calculator::eval_float::{closure#1}", "calculator::eval_int::{closure#1}"):
    audit(fn, UNREACH, 0, "grammar: an infix operator is one of add/subtract/multiply/divide/power, all five "
                          "arms handled - re-checked by C19 R19-2")
audit("core::run_calculator", "std::option::Option::unwrap(pest::iterators::Pairs::next($1))", 0,
      "grammar: `calculation = SOI ~ expr ~ EOI` always yields the `expr` pair on a successful parse")
audit("core::run_single_program", "std::option::Option::unwrap([T]::get(std::vec::Vec::deref($1.commands), $2))", 0,
      "idx_cmd comes from the stage loop 0..cl.commands.len() (C02 R02-1 stage-bound / stage-call)")
for _n in (0, 1, 2):
    # the parent's release after fork, and the same release on the two `stage not started` paths (repo fix 2a2d3fc)
    audit("core::run_single_program", "assert bounds(PtrMetadata($1), ($2 - 1))", _n,
          "idx_cmd <= pipes.len(): pipes.len()+1 == commands.len() and idx_cmd < commands.len() (C02 R02-1); "
          "idx_cmd > 0 is tested on the path")
for fn in ("execute::drain_env_tokens", "types::drain_env_tokens"):
    audit(fn, "std::vec::Vec::drain($1, std::ops::Range::Range(0, $2))", 0,
          "n counts iterations of the loop over tokens.iter(), so n <= tokens.len()")
H = "highlight::find_token_range_heuristic"
audit(H, "Index::index($1, std::ops::RangeFrom::RangeFrom($2))", 0,
      "start_byte is 0 or the end of the previous token range, which was built from char_indices / "
      "starts_with-validated prefix lengths of the same line")
audit(H, "Index::index($1, std::ops::RangeFrom::RangeFrom(($2 + std::option::Option::ma)", 0,
      "offset added is a char_indices() position of the suffix starting at start_byte")
audit(H, "Index::index($1, std::ops::RangeFrom::RangeFrom($2))", 1,
      "current_search_offset is 0 or sep.len() after search_area.starts_with(sep)")
audit(H, "Index::index($1, std::ops::RangeFrom::RangeFrom($2))", 2,
      "offset advanced by word.len() only after search_area[offset..].starts_with(word)")
audit(H, "Index::index($1, std::ops::RangeFrom::RangeFrom(std::string::String::len($2.0)", 0,
      "evaluated only after search_area.starts_with(sep) (short-circuit &&)")
audit("parsers::parser_line::parse_line", "assert overflow:Sub(std::str::Chars::count(str::chars($1)), 1)", 0,
      "inside the loop over line.chars(), so the count is >= 1")
audit("parsers::parser_line::unquote", "std::string::String::remove($1, 0)", 0,
      "new_str is a copy of text and text.starts_with(c) holds on this path")
for fn in ("scripting::expand_args_for_single_token", "scripting::get_for_result_from_init"):
    audit(fn, "Index::index($1, std::ops::RangeFrom::RangeFrom(1))", 0,
          "every caller passes a slice with >= 1 element: run_script's args (len > 1 checked by callers) or "
          "try_run_func's [\"cicada\", name, ..]")
for fn in ("scripting::run_exp", "scripting::run_exp_test_br"):
    audit(fn, "std::vec::Vec::index($1, std::ops::RangeFrom::RangeFrom(1))", 0,
          "every caller passes a vector with >= 1 element: run_script's args or try_run_func's [\"cicada\", name, ..]")
audit("scripting::run_exp_test_br",
      "std::vec::Vec::index(std::iter::Iterator::collect(pest::iterators::Pair::into_inn, 0)", 0,
      "grammar: IF_HEAD / IF_ELSEIF_HEAD / WHILE_HEAD always contain a TEST pair (C14 A.6 child sets)")
audit("scripting::run_exp_test_br", UNREACH, 0,
      "children of a branch node are heads, KW_ELSE or EXP_BODY, all handled before this point (C14 R14-2)")
audit("scripting::run_script", "std::vec::Vec::index($1, 1)", 0,
      "callers: main under is_script(args) (args.len() > 1) and builtins::source::run after its arity check")
audit("shell::Shell::insert_job", "assert overflow:Add($1, 1)", 0,
      "i counts occupied job ids from 1; overflow needs 2^31 live jobs")
audit("shell::Shell::new", "str::split_at(std::string::String::deref(T::to_string(Uuid::as_hyphenated(, 13)", 0,
      "a hyphenated UUID is 36 ASCII characters")
audit("shell::brace_getgroup", "std::string::String::remove($1, 0)", 0,
      "sss is a clone of ss whose first char was just read as '}'")
audit("shell::brace_getitem", "std::string::String::remove($1, 0)", 0,
      "sss is a clone of ss whose first char was just read as '{'")
audit("shell::brace_getitem", "assert overflow:Add($1, 1)", 0,
      "recursion depth is bounded by the number of '{' in the token")
audit("shell::brace_getitem", "std::string::String::remove($1, 0)", 2,
      "ss is non-empty: either untouched since the loop test !ss.is_empty(), or one char was removed under ss.len() > 1")
for n in range(4):
    audit("types::Command::from_tokens", "assert overflow:Sub($1, 1)", n,
          "`len` mirrors tokens_new.len(): initialised from it and decremented once per remove()")
for n in (1, 3):
    audit("types::Command::from_tokens",
          "std::vec::Vec::remove($1, std::slice::Iter::position([T]::iter(std::vec::Vec::deref($1)", n,
          "the operand after the removed operator exists: `len > idx` is tested and `len` mirrors tokens_new.len()",
          guard=guard_len_mirror_gt_index)
audit("types::WaitStatus::_get_signaled_status", "assert overflow:Add($1.2, 128)", 0,
      "self.2 is a signal number (< 128)")

# ---- loops that are not driven by an iterator: progress argument (stutter rule is machine-checked) ----
loop_entry("scripting::expand_args_for_single_token",
           'regex::Regex::is_match(std::result::Result::unwrap(regex::Regex::new("=False | std::string::String::is_empty($1)=True',
           "_token = _tail, a strict suffix: the regex consumes at least `$N`; a cycle without any capture is "
           "infeasible because re.is_match(&_token) held on the same text", check="stutter-unless-no-capture")
loop_entry("scripting::run_exp_while",
           "scripting::run_exp_test_br($1, pest::iterators::Pair::clone($2), $3, t=False | scripting::run_exp_test_br($1, pest::iterators::Pair::clone($2), $3, t=True",
           "user program: `while` runs as long as the script's own condition says", check="exempt")
for fn in ("shell::Shell::get_job_by_gid", "shell::Shell::mark_job_as_running", "shell::Shell::mark_job_as_stopped",
           "shell::Shell::mark_job_member_continued", "shell::Shell::mark_job_member_stopped",
           "shell::Shell::remove_pid_from_job"):
    loop_entry(fn, "($1 >= 65535)=True | ($1.gid == $2)=True", "i += 1 on every cycle, leaves at i >= 65535")
loop_entry("shell::Shell::insert_job", "$1=True | ($1.gid == $2)=True",
           "i += 1 on every cycle; the job table is finite so some id is vacant")
loop_entry("shell::do_command_substitution_for_dot",
           'regex::Regex::is_match(regex::Regex::new("^([^`]*)`([^`]+)`(.*)$") as =False | std::string::String::is_empty($1)=True',
           "_token = _tail, a strict suffix: the regex consumes two backquotes; a cycle without any capture is "
           "infeasible because re.is_match(&_token) held on the same text", check="stutter-unless-no-capture")
loop_entry("shell::expand_brace_range",
           "($1 < str::parse(std::string::String::deref(T::to_string(regex::Captur=True | discr(i32::checked_sub($1, $2))=None",
           "n moves by incr >= 1 toward end (incr clamped before the loop)")
loop_entry("shell::expand_brace_range",
           "($1 > str::parse(std::string::String::deref(T::to_string(regex::Captur=True | discr(i32::checked_add($1, $2))=None",
           "n moves by incr >= 1 toward end (incr clamped before the loop)")
loop_entry("types::Command::from_tokens", "$1=False",
           "each cycle removes at least one token matching the predicate that has_redirect_from re-evaluates; the "
           "path on which both position() searches find nothing is infeasible (the loop predicate is their disjunction)",
           check="stutter-unless-no-match")
loop_entry("shell::do_command_substitution_for_dollar",
           'discr(libs::re::find_first_group($1, std::string::String::deref($2)))=None | discr(regex::Regex::new($1))=Err | shell::should_do_dollar_command_extension(std::string::String::deref($=False',
           "each cycle replaces one $(...) of `line` (the innermost, else the widest) by command output, with the pattern "
           "that found it (rescan of that output: C11 R11-2)")
loop_entry("shell::expand_env",
           "eq(shell::expand_one_env($1, std::string::String::deref($2)), $2)=True | shell::env_in_token(std::string::String::deref($1))=False",
           "each cycle rewrites a reference in _token via expand_one_env and leaves when the rewrite changed nothing "
           "(the gate accepts `${NAME` without the closing brace, the rewriter does not: the explicit test is what "
           "ends the loop; rescan of the value: C10 R10-1)", check="fixpoint-guard")
