"""C09 - variables, exported environment and working directory follow scoping rules."""
from .. import flow, mir
from ..mir import last_seg, render, strip_sites
from .c02 import dom_facts
from .c04 import child_region

EXPLANATION = ("C09: structural clauses decided on all paths: cd changes shell state only after a successful chdir and "
               "reports failure otherwise; a NAME=v prefix is applied to the shell only when no command follows; the "
               "child's environment merges the process environment with the per-command assignments; unset / export "
               "/ set_env API call sets.  The value-level model over histories (field splitting, path resolution) is "
               "not decided.")


def run(ctx):
    ctx.rule("R09-1", "cd: every write to current_dir / previous_dir / PWD is dominated by the Ok arm of "
                      "set_current_dir; every return not through that arm passes print_stderr_with_capture (status 1)")
    ctx.rule("R09-2", "set_shell_vars (the only place cl.envs reaches the shell) is called only when no command follows")
    ctx.rule("R09-3", "execve's envp derives from both env::vars() and cl.envs")
    ctx.rule("R09-4", "remove_env removes from the process environment, the shell variables and the functions; unset "
                      "fails with status 1 when it refuses")
    ctx.rule("R09-5", "set_env updates the process environment iff the name is already exported, else the shell map; "
                      "get_env consults both")
    ctx.rule("R09-7", "expansion reads the exported environment before the shell-local variables (export does not clear a "
                      "same-named shell variable, and set_env writes only the environment once a name is exported), or "
                      "export removes the shell-local entry")
    ctx.rule("R09-8", "the environment and the working directory are read when needed, not remembered: no closure that calls "
                      "env::var / var_os / vars / current_dir is handed to a memoising callee (OnceLock / OnceCell / Lazy / "
                      "lazy_static initialisers, get_or_init, call_once, get_or_insert_with), crate-wide")
    ctx.rule("R09-6", "export calls env::set_var(name, value) for every parsed NAME=value")
    for crate in ctx.crates:
        cd_rule(ctx, crate)
        prefix_rule(ctx, crate)
        envp_rule(ctx, crate)
        api_rules(ctx, crate)
        precedence_rule(ctx, crate, "R09-7")
        memo_rule(ctx, crate)


def cd_rule(ctx, crate):
    b = crate.fn("builtins::cd::run")
    if b is None:
        ctx.require(crate.kind != "bin", "R09-1", "R09-1|anchor", "builtins::cd::run not found")
        return
    ctx.analysed(b)
    chdir = flow.find_calls(b, "set_current_dir")
    if not ctx.require(len(chdir) == 1, "R09-1", "R09-1|%s|chdir" % b.path, "expected one set_current_dir call", b.path):
        return
    res = strip_sites(b.call_expr(chdir[0]))
    ok_edge = None
    for bb in sorted(b.reachable):
        for tgt, atom, val in b.switch_edges(bb):
            if atom[0] == "discr" and atom[1] == res and val == "Ok":
                ok_edge = (bb, tgt)
    if not ctx.require(ok_edge is not None, "R09-1", "R09-1|%s|ok-arm" % b.path,
                       "the result of set_current_dir is not matched", b.path):
        return
    okr = flow.edge_dominated(b, ok_edge[0], ok_edge[1])
    writes = []
    for fld in ("current_dir", "previous_dir"):
        for bi, si, rhs in flow.assignments_to_field(b, fld):
            writes.append((fld, bi))
    for bb, t, c in b.calls():
        if last_seg(c) == "set_var":
            a = b.call_args(bb)
            if a and mir.const_str(a[0]) == "PWD":
                writes.append(("PWD", bb))
    ctx.require(len(writes) >= 3, "R09-1", "R09-1|%s|writes" % b.path,
                "expected writes to current_dir, previous_dir and PWD, found %d" % len(writes), b.path)
    n = {}
    for what, bb in writes:
        k = n.get(what, 0)
        n[what] = k + 1
        ctx.ob("R09-1", b.path, "write of %s happens only after a successful chdir" % what, bb in okr,
               key="R09-1|%s|write|%s#%d" % (b.path, what, k), where=b.loc(bb), crate=crate.kind)
    # failure returns report an error
    errs = {bb for bb, t, c in b.calls() if last_seg(c) == "print_stderr_with_capture"}
    bad = None

    def step(bb, seen_err):
        if bb in errs:
            seen_err = True
        return [(s, seen_err) for s in b.succs[bb] if not (bb == ok_edge[0] and s == ok_edge[1])]

    for bb, se in mir.explore(b, 0, False, step):
        if b.term(bb)["k"] == "return" and not se:
            bad = bb
    ctx.ob("R09-1", b.path, "every return that does not go through a successful chdir reports an error (status 1)",
           bad is None, key="R09-1|%s|fail-status" % b.path, crate=crate.kind)
    # and the helper really sets status 1
    h = crate.fn("builtins::utils::print_stderr_with_capture")
    if h is not None:
        st = [mir.const_int(rhs) for bi, si, rhs in flow.assignments_to_field(h, "status")]
        ctx.ob("R09-1", h.path, "print_stderr_with_capture sets status 1", st == [1],
               key="R09-1|%s|status1" % h.path, crate=crate.kind, nontrivial=False)


def prefix_rule(ctx, crate):
    ssv = "execute::set_shell_vars"
    b0 = crate.fn(ssv)
    if not ctx.require(b0 is not None, "R09-2", "R09-2|anchor", "execute::set_shell_vars not found"):
        return
    callers = 0
    for b in crate.fns():
        k = 0
        for bb, t, c in b.calls():
            if c != ssv:
                continue
            callers += 1
            ctx.analysed(b)
            facts = dom_facts(b, bb)
            ok = False
            why = ""
            for a, v in facts:
                ea = b.expand_vars(a)
                if ea[0] == "call" and last_seg(ea[1]) == "is_empty" and v is True:
                    arg = ea[2][0] if ea[2] else None
                    # cl.is_empty()  (CommandLine)  or tokens.is_empty() after draining
                    if "CommandLine" in ea[1] or (arg is not None and any(
                            s[0] == "call" and last_seg(s[1]) in ("line_to_tokens", "from_line") for s in mir.subexprs(arg))):
                        ok = True
                        why = render(ea)[:80]
            ctx.ob("R09-2", b.path, "set_shell_vars only when no command follows (%s)" % (why or "no such guard"), ok,
                   key="R09-2|%s|guard#%d" % (b.path, k), where=b.loc(bb), crate=crate.kind)
            k += 1
    ctx.floor("R09-2", crate, "set_shell_vars call sites", callers, 2)
    # nobody else applies per-command envs to the shell: Shell::set_env callers with a value from `.envs`
    for b in crate.fns():
        if b.path == ssv:
            continue
        for bb, t, c in b.calls():
            if last_seg(c) in ("set_env", "set_var") and b.path.startswith(("execute::", "core::", "types::")):
                a = b.call_args(bb)
                from_envs = any(flow.backward(b, x, lambda e: flow.is_field_named(e, "envs") and
                                              "CommandLine" in str(mir.field_bty(e) or "CommandLine")) is not None for x in a)
                in_child = b.path == "core::run_single_program" and bb in child_region(b)
                if from_envs and not in_child:
                    ctx.ob("R09-2", b.path, "per-command assignments are not applied to the shell outside set_shell_vars",
                           False, key="R09-2|%s|stray-apply" % b.path, where=b.loc(bb), crate=crate.kind)


def envp_rule(ctx, crate):
    b = crate.fn("core::run_single_program")
    if not ctx.require(b is not None, "R09-3", "R09-3|anchor", "core::run_single_program not found"):
        return
    ex = flow.find_calls(b, "execve")
    if not ctx.require(len(ex) == 1, "R09-3", "R09-3|%s|execve" % b.path, "expected one execve", b.path):
        return
    a = b.call_args(ex[0])
    envp = a[2] if len(a) > 2 else ("unknown", "")
    crate_closures = crate

    def through(e, pred, depth=0):
        return flow.backward(b, e, pred)

    has_vars = through(envp, lambda e: e[0] == "call" and mir.short(e[1]) == "std::env::vars") is not None
    has_envs = through(envp, lambda e: flow.is_field_named(e, "envs")) is not None
    ctx.ob("R09-3", b.path, "execve envp derives from env::vars() and from cl.envs", has_vars and has_envs,
           key="R09-3|%s|envp" % b.path, where=b.loc(ex[0]), crate=crate.kind,
           detail="env::vars(): %s, cl.envs: %s" % (has_vars, has_envs))


def api_rules(ctx, crate):
    b = crate.fn("shell::Shell::remove_env")
    if ctx.require(b is not None, "R09-4", "R09-4|anchor", "Shell::remove_env not found"):
        ctx.analysed(b)
        need = {"remove_var": False, "envs": False, "remove_func": False}
        for bb, t, c in b.calls():
            ls = last_seg(c)
            if ls == "remove_var":
                need["remove_var"] = True
            if ls == "remove_func":
                need["remove_func"] = True
            if ls == "remove" and any(flow.is_field_named(s, "envs") for x in b.call_args(bb) for s in mir.subexprs(strip_sites(x))):
                need["envs"] = True
        # all on the path that returns true
        ctx.ob("R09-4", b.path, "remove_env removes the process variable, the shell variable and the function",
               all(need.values()), key="R09-4|%s|callset" % b.path, crate=crate.kind, detail=str(need))
        unset_everywhere(ctx, crate, b, "R09-4")
    u = crate.fn("builtins::unset::run")
    if u is not None:
        ctx.analysed(u)
        rem = flow.find_calls(u, "remove_env")
        ok = False
        if rem:
            res = strip_sites(u.call_expr(rem[0]))
            for bb in sorted(u.reachable):
                for tgt, atom, val in u.switch_edges(bb):
                    if atom == res and val is False:
                        dom = flow.edge_dominated(u, bb, tgt)
                        ok = any(u.term(x)["k"] == "call" and last_seg(u.callee(u.term(x))) == "print_stderr_with_capture"
                                 for x in dom)
        ctx.ob("R09-4", u.path, "unset reports failure (status 1) when remove_env refuses", ok,
               key="R09-4|%s|fail" % u.path, crate=crate.kind)
    s = crate.fn("shell::Shell::set_env")
    if ctx.require(s is not None, "R09-5", "R09-5|anchor", "Shell::set_env not found"):
        ctx.analysed(s)
        sv = flow.find_calls(s, "set_var")
        ins = [bb for bb, t, c in s.calls() if last_seg(c) == "insert" and any(
            flow.is_field_named(x, "envs") for a in s.call_args(bb) for x in mir.subexprs(strip_sites(a)))]
        ok = False
        if sv and ins:
            f1 = dom_facts(s, sv[0])
            f2 = dom_facts(s, ins[0])
            exported = lambda fs, val: any(a[0] == "call" and last_seg(a[1]) in ("is_ok", "is_some") and v is val and any(
                x[0] == "call" and mir.short(x[1]) in ("std::env::var", "std::env::var_os") for x in mir.subexprs(a)) for a, v in fs)
            ok = exported(f1, True) and exported(f2, False)
        ctx.ob("R09-5", s.path, "set_env: env::set_var iff env::var(name).is_ok(), else insert into the shell map", ok,
               key="R09-5|%s|split" % s.path, crate=crate.kind)
        # every way set_env writes a value into the shell map happens only when the name is NOT exported: insert,
        # get_mut / entry followed by a store, extend ...
        writes = []
        for bb, t, c in s.calls():
            if last_seg(c) in ("insert", "get_mut", "entry", "extend", "insert_entry", "get_or_insert_with") and any(
                    flow.is_field_named(x, "envs") for a in s.call_args(bb) for x in mir.subexprs(strip_sites(a))):
                writes.append(bb)
        exported_false = lambda fs: any(a[0] == "call" and last_seg(a[1]) in ("is_ok", "is_some") and v is False and any(
            x[0] == "call" and mir.short(x[1]) in ("std::env::var", "std::env::var_os") for x in mir.subexprs(a)) for a, v in fs)
        bad = [bb for bb in writes if not exported_false(dom_facts(s, bb))]
        ctx.ob("R09-5", s.path, "every write of set_env into the shell map happens under `the name is not exported`",
               bool(writes) and not bad, key="R09-5|%s|shell-map-write-unguarded" % s.path,
               where=s.loc(bad[0]) if bad else "", crate=crate.kind,
               detail=None if not bad else "after NAME=a; export NAME=b the name is in both stores: a later NAME=c updates the "
               "shadowed shell copy and the exported value (seen by $NAME and by children) stays b")
    g = crate.fn("shell::Shell::get_env")
    if g is not None:
        ctx.analysed(g)
        gcalls = [c for fb in [g] + crate.closures_of(g.path) for bb, t, c in fb.calls()]
        both = any(last_seg(c) == "get" and "HashMap" in c for c in gcalls) and \
            any(mir.short(c) in ("std::env::var", "std::env::var_os") for c in gcalls)
        ctx.ob("R09-5", g.path, "get_env consults the shell map and the process environment", both,
               key="R09-5|%s|both" % g.path, crate=crate.kind)
    e = crate.fn("builtins::export::run")
    if e is not None:
        ctx.analysed(e)
        sv = flow.find_calls(e, "set_var")
        ok = False
        if sv:
            a = e.call_args(sv[0])
            from_cap = lambda x, i: flow.backward(e, x, lambda z: z[0] == "call" and last_seg(z[1]) == "index" and
                                                  "Captures" in z[1] and mir.const_int(z[2][1]) == i) is not None
            in_loop = any(sv[0] in blocks for h, blocks in e.loops().items())
            ok = len(a) == 2 and from_cap(a[0], 1) and from_cap(a[1], 2) and in_loop
        ctx.ob("R09-6", e.path, "export: env::set_var(capture 1, value from capture 2) for every parsed pair", ok,
               key="R09-6|%s|setvar" % e.path, crate=crate.kind)


def precedence_rule(ctx, crate, rule):
    """readers must agree with the writers: `export NAME=v` sets only the process environment and leaves a
    shell-local NAME in place, so `$NAME` must prefer the environment"""
    b = crate.fn("shell::expand_one_env")
    if not ctx.require(b is not None, rule, "%s|anchor" % rule, "shell::expand_one_env not found"):
        return
    ctx.analysed(b)
    # does export clear the local entry?
    clears = False
    e = crate.fn("builtins::export::run")
    if e is not None:
        for bb, t, c in e.calls():
            if last_seg(c) == "remove" and any(flow.is_field_named(x, "envs") for a in e.call_args(bb) for x in mir.subexprs(strip_sites(a))):
                clears = True
    def reads_of(fb):
        loc = [bb for bb, t, c in fb.calls() if c.endswith("Shell::get_env") or (
            last_seg(c) == "get" and any(flow.is_field_named(x, "envs") for a in fb.call_args(bb)
                                         for x in mir.subexprs(strip_sites(a))))]
        env = [bb for bb, t, c in fb.calls() if mir.short(c) == "std::env::var"]
        return loc, env
    # every function of the `$NAME` pass: expand_env and what it reaches inside the crate (the lookup helper itself excepted)
    cg = crate.callgraph()
    scope, todo = set(), ["shell::expand_env"]
    while todo:
        x = todo.pop()
        if x in scope or x.endswith("Shell::get_env"):
            continue
        scope.add(x)
        todo.extend(cg.get(x, ()))
        todo.extend(cb.path for cb in crate.closures_of(x))
    scope.add(b.path)
    ok = clears
    detail = "export clears the shell-local entry" if clears else ""
    n_local = n_env = 0
    where = None
    if not clears:
        bad = []
        for p in sorted(scope):
            fb = crate.fn(p)
            if fb is None:
                continue
            local_reads, env_reads = reads_of(fb)
            n_local += len(local_reads)
            n_env += len(env_reads)
            for lb in local_reads:
                facts = dom_facts(fb, lb)
                # reached only after env::var(key) failed
                # (`env::var(k)` matched as Err, or `env::var(k).ok()` as None)
                if not any(a[0] == "discr" and v in ("Err", "None") and a[1][0] == "call" and (
                        mir.short(a[1][1]) == "std::env::var" or (v == "None" and last_seg(a[1][1]) == "ok" and any(
                            s_[0] == "call" and mir.short(s_[1]) == "std::env::var" for s_ in mir.subexprs(fb.expand_vars(a[1])))))
                           for a, v in facts):
                    bad.append(p)
                    where = where or fb.loc(lb)
        ok = bool(n_env) and bool(n_local) and not bad
        detail = "shell-local lookup %s" % ("only after env::var(key) returned Err (%d lookup(s) in %d function(s) of the pass)" %
                                            (n_local, len(scope)) if ok else
                                            "in %s is not preceded by the environment lookup: after `N=a; export N=b`, `$N` "
                                            "yields the stale a" % ", ".join(sorted(set(bad))))
    ctx.ob(rule, b.path, "`$NAME` prefers the exported value over a same-named shell variable", ok,
           key="%s|%s|precedence" % (rule, b.path), crate=crate.kind, detail=detail, where=where)


def unset_everywhere(ctx, crate, b, rule):
    """every path of remove_env that reports success has removed the name from all three stores (a name can be in
    the environment AND in the shell map: export does not clear the shell-local entry)"""
    sites = {"remove_var": set(), "envs": set(), "remove_func": set()}
    for bb, t, c in b.calls():
        ls = last_seg(c)
        if ls == "remove_var":
            sites["remove_var"].add(bb)
        if ls == "remove_func":
            sites["remove_func"].add(bb)
        if ls == "remove" and any(flow.is_field_named(s_, "envs") for x in b.call_args(bb) for s_ in mir.subexprs(strip_sites(x))):
            sites["envs"].add(bb)
    trues = [bi for bi, si in b.defs.get(0, []) if mir.const_bool(b.def_expr(bi, si)) is True]
    for what, ss in sorted(sites.items()):
        ok = bool(ss) and bool(trues) and all(flow.must_pass(b, 0, ss, {t_}) for t_ in trues)
        ctx.ob(rule, b.path, "every path of remove_env that reports success has removed: %s" % what, ok,
               key="%s|%s|always|%s" % (rule, b.path, what), crate=crate.kind,
               detail=None if ok else "after NAME=a; export NAME=b the name is in both stores: unset NAME leaves one of "
               "them behind ($NAME still expands, or children still inherit it)")


ENV_READS = ("std::env::var", "std::env::var_os", "std::env::vars", "std::env::vars_os", "std::env::current_dir")
MEMOISERS = ("get_or_init", "get_or_try_init", "call_once", "call_once_force", "get_or_insert_with", "force", "get")


def memo_rule(ctx, crate):
    n = 0
    # closures (and lazy_static initialiser functions) that read the environment
    readers = {}
    for p, b in crate.bodies.items():
        if b.kind not in ("closure", "fn"):
            continue
        if any(mir.short(c) in ENV_READS for bb, t, c in b.calls()):
            readers[p] = b
    for p, b in sorted(crate.bodies.items()):
        if b.kind not in ("fn", "closure"):
            continue
        for bb, t, c in b.calls():
            ls = last_seg(c)
            memo = (ls in MEMOISERS and any(k in c for k in ("OnceLock", "OnceCell", "Lazy", "Once"))) or \
                   (ls == "new" and any(k in c for k in ("Lazy", "LazyLock", "LazyCell")))
            if not memo:
                continue
            n += 1
            bad = None
            for a in b.call_args(bb):
                for sub in mir.subexprs(b.expand_vars(strip_sites(a))):
                    if sub[0] == "agg" and sub[1].startswith("closure:"):
                        cp = sub[1][len("closure:"):].rstrip("()")
                        if cp in readers:
                            bad = cp
                    if sub[0] in ("fnptr", "const") and isinstance(sub[1], str) and sub[1] in readers:
                        bad = sub[1]
            # lazy_static: the initialiser is the __static_ref_initialize function next to the deref
            if bad is None and "lazy_static" in c:
                base = p.rsplit("::", 1)[0]
                for rp in readers:
                    if rp.startswith(base + "::"):
                        bad = rp
            ctx.ob("R09-8", p, "the value memoised by %s is not read from the environment" % mir.short(c), bad is None,
                   key="R09-8|%s|memoised-env-read|%s" % (p, mir.short(c)), where=b.loc(bb), crate=crate.kind,
                   detail=None if bad is None else "%s reads the environment once; a later `export` / assignment / cd in the "
                   "same shell is not seen by whoever uses the remembered value" % bad)
    ctx.ob("R09-8", "crate", "%d memoising call site(s) inspected" % n, True, crate=crate.kind, nontrivial=False)
