"""C19 - arithmetic lines: precedence, modes, no crash."""
import os

from .. import flow, mir, pest
from ..mir import const_int, last_seg, render, strip_sites, const_str
from .c02 import dom_facts
from . import c05

EXPLANATION = ("C19: the Pratt operator table is rebuilt from the initializer's expression tree and compared with "
               "[{+,-}:Left] < [{*,/}:Left] < [{^}:Right]; grammar symbols, rule names and the operation each "
               "evaluator arm performs must agree (both evaluators); the integer evaluator uses wrapping + - * and "
               "divides only under rhs != 0; the parse is anchored SOI..EOI; float mode is selected iff the line "
               "contains '.'; no evaluator site can panic.  Numeric results and the classification of strings as "
               "arithmetic are not decided.")

EXPECTED = [({"add", "subtract"}, "Left"), ({"multiply", "divide"}, "Left"), ({"power"}, "Right")]
SYMBOL = {"add": "+", "subtract": "-", "multiply": "*", "divide": "/", "power": "^"}
OPKIND = {"add": "add", "subtract": "sub", "multiply": "mul", "divide": "div", "power": "pow"}


def run(ctx):
    ctx.rule("R19-1", "PRATT_PARSER's table is [{add, subtract}: Left] < [{multiply, divide}: Left] < [{power}: Right]")
    ctx.rule("R19-2", "grammar: + - * / ^ are the rules add subtract multiply divide power; each evaluator arm performs "
                      "the operation of its rule; integer + - * are wrapping; the calculation rule is SOI .. EOI")
    ctx.rule("R19-3", "run_calculator evaluates with eval_float iff the line contains '.'")
    ctx.rule("R19-5", "every literal the grammar accepts as `num` is a string Rust's f64 parser accepts (the float evaluator "
                      "unwraps that parse): all strings up to 5 characters over {+ - . e E 0 1} that the rule `num` matches "
                      "entirely (grammar evaluated as data with a PEG interpreter) fit [+-]?(d+.?d*|.d+)([eE][+-]?d+)?")
    ctx.rule("R19-6", "the grammar accepts exactly the well-formed infix expressions: `calculation`, evaluated as data (PEG with "
                      "implicit whitespace), agrees with the reference expr = term (op term)*, term = num | ( expr ) on "
                      "every token sequence of up to 5 tokens (thorough: 6) over {1, 2.5, + - * / ^, ( )}")
    ctx.rule("R19-7", "classification: is_arithmetic is the conjunction of its regex tests (structure read from the MIR), and "
                      "evaluated on every string of up to 4 characters over {1 . + ^ ( ) space a |} with the program's own "
                      "regex engine it agrees with the statement: only characters of the arithmetic alphabet, at least one "
                      "digit, at least one operator (audited refinement: the line ends in a digit, `.`, blank or `)`)")
    ctx.rule("R19-4", "no panic-capable site in the evaluators is undischarged; integer division only under rhs != 0")
    gpath = os.path.join(ctx.root, "src", "calculator", "grammar.pest")
    try:
        g = pest.Grammar(gpath)
    except Exception as e:
        ctx.require(False, "R19-2", "R19-2|grammar", "cannot read the calculator grammar: %s" % str(e)[:200])
        g = None
    for crate in ctx.crates:
        pratt_rule(ctx, crate)
        if g is not None:
            grammar_rule(ctx, crate, g)
        evaluator_rules(ctx, crate)
        if g is not None:
            num_syntax_rule(ctx, crate, g, "R19-5")
            infix_rule(ctx, crate, g)
        mode_rule(ctx, crate)
        classification_rule(ctx, crate)
        panic_rule(ctx, crate)


def pratt_rule(ctx, crate):
    init = None
    for p, b in crate.bodies.items():
        if "PRATT_PARSER" in p and p.endswith("__static_ref_initialize"):
            init = b
    if not ctx.require(init is not None, "R19-1", "R19-1|anchor", "PRATT_PARSER initializer not found"):
        return
    ctx.analysed(init)
    e = strip_sites(init.return_expr())
    levels = []

    def ops_of(x):
        x = mir.peel(x)
        if x[0] == "call" and last_seg(x[1]) == "bitor":
            return ops_of(x[2][0]) + ops_of(x[2][1])
        if x[0] == "call" and last_seg(x[1]) in ("infix", "prefix", "postfix"):
            rule = x[2][0][1].split("::")[-1] if x[2][0][0] == "agg" else "?"
            assoc = x[2][1][1].split("::")[-1] if len(x[2]) > 1 and x[2][1][0] == "agg" else last_seg(x[1])
            return [(rule, assoc)]
        return [("?", "?")]

    cur = e
    while cur[0] == "call" and last_seg(cur[1]) == "op":
        levels.append(ops_of(cur[2][1]))
        cur = mir.peel(cur[2][0])
    levels.reverse()
    got = [({r for r, a in lv}, {a for r, a in lv}) for lv in levels]
    ok = len(got) == len(EXPECTED) and all(g[0] == ex[0] and g[1] == {ex[1]} for g, ex in zip(got, EXPECTED))
    ctx.ob("R19-1", init.path, "operator table (lowest precedence first): %s" % [
        (sorted(r), sorted(a)) for r, a in got], ok, key="R19-1|PRATT_PARSER|table", crate=crate.kind)


def grammar_rule(ctx, crate, g):
    for r, sym in SYMBOL.items():
        ok = r in g.rules and g.literal_of(r) == sym
        ctx.ob("R19-2", "calculator/grammar.pest", "rule %s is the symbol %s" % (r, sym), ok,
               key="R19-2|grammar|%s" % r, crate=crate.kind, nontrivial=False)
    c = crate.fn("calculator::calculate")
    top = None
    if c is not None:
        for bb, t, cal in c.calls():
            if last_seg(cal) == "parse" and "pest" in cal:
                a = strip_sites(c.call_args(bb)[0])
                if a[0] == "agg":
                    top = a[1].split("::")[-1]
    ok = top is not None and top in g.rules and g.starts_with_soi(top) and g.ends_with_eoi(top)
    ctx.ob("R19-2", "calculator::calculate", "the parsed rule (%s) is anchored SOI .. EOI" % top, ok,
           key="R19-2|grammar|anchored", crate=crate.kind)
    if "expr" in g.rules:
        ch = g.children("expr")
        ctx.ob("R19-2", "calculator/grammar.pest", "children of expr are {num, expr, the five operators}",
               ch == {"num", "expr"} | set(SYMBOL), key="R19-2|grammar|expr-children", crate=crate.kind,
               detail=str(sorted(ch)))


def arm_ops(b, tgt_edge):
    """operation kinds performed in the blocks dominated by an arm edge"""
    dom = flow.edge_dominated(b, tgt_edge[0], tgt_edge[1])
    kinds = set()
    wrapping = False
    for x in sorted(dom):
        t = b.term(x)
        if t["k"] == "call":
            ls = last_seg(b.callee(t))
            c = b.callee(t)
            if ls in ("add", "sub", "mul", "div") and ("Wrapping" in c or "ops::" in c):
                kinds.add(ls)
                if "Wrapping" in c:
                    wrapping = True
            if ls in ("pow", "wrapping_pow", "powf", "powi", "checked_pow", "saturating_pow", "overflowing_pow"):
                kinds.add("pow")
            if ls.startswith("wrapping_") and ls[9:] in ("add", "sub", "mul", "div"):
                kinds.add(ls[9:])
                wrapping = True
        for s in b.blocks[x]["stmts"]:
            if s["k"] == "assign" and s["rv"]["k"] == "bin":
                op = s["rv"]["op"].replace("WithOverflow", "")
                if op in ("Add", "Sub", "Mul", "Div"):
                    # (lhs as f64 / 0.0) in the integer division-by-zero arm is part of `div`
                    kinds.add(op.lower())
    return kinds, wrapping


def evaluator_rules(ctx, crate):
    for fn_ in ("calculator::eval_int", "calculator::eval_float"):
        cl = [b for b in crate.closures_of(fn_)]
        infix = None
        for b in cl:
            if b.arg_count >= 4:      # (env, lhs, op, rhs)
                infix = b
        if not ctx.require(infix is not None, "R19-2", "R19-2|%s|infix" % fn_, "infix closure of %s not found" % fn_):
            continue
        ctx.analysed(infix)
        arms = {}
        for bb in sorted(infix.reachable):
            for tgt, atom, val in infix.switch_edges(bb):
                if atom[0] == "discr" and isinstance(val, str) and val in OPKIND:
                    arms[val] = (bb, tgt)
        for r, kind in OPKIND.items():
            if r not in arms:
                ctx.ob("R19-2", infix.path, "arm for rule %s exists" % r, False, key="R19-2|%s|arm|%s" % (fn_, r), crate=crate.kind)
                continue
            kinds, wrapping = arm_ops(infix, arms[r])
            ok = kind in kinds and not (kinds - {kind})
            if r == "divide" and fn_.endswith("eval_int"):
                ok = "div" in kinds
            ctx.ob("R19-2", infix.path, "arm %s performs %s (found %s)" % (r, kind, sorted(kinds)), ok,
                   key="R19-2|%s|arm|%s" % (fn_, r), crate=crate.kind)
            if fn_.endswith("eval_int") and r in ("add", "subtract", "multiply"):
                ctx.ob("R19-2", infix.path, "integer %s is wrapping" % r, wrapping, key="R19-2|%s|wrapping|%s" % (fn_, r),
                       crate=crate.kind)
        if fn_.endswith("eval_int"):
            divs = [bb for bb, t, c in infix.calls() if last_seg(c) in ("div", "wrapping_div", "rem", "checked_div")
                    and ("Wrapping" in c or "i64" in c)]
            ok = bool(divs)
            for d in divs:
                a = infix.call_args(d)
                rhs = None
                for sub in mir.subexprs(strip_sites(a[1])):
                    if sub[0] in ("param", "var"):
                        rhs = sub
                facts = dom_facts(infix, d)
                nz = any(at[0] == "bin" and at[1] in ("Eq", "Ne") and const_int(at[3]) == 0 and at[2] == rhs and
                         ((at[1] == "Eq") != bool(v)) for at, v in facts)
                ok = ok and nz
            ctx.ob("R19-4", infix.path, "integer division happens only under rhs != 0", ok,
                   key="R19-4|%s|div-guard" % fn_, crate=crate.kind)


def mode_rule(ctx, crate):
    b = crate.fn("core::run_calculator")
    if not ctx.require(b is not None, "R19-3", "R19-3|anchor", "core::run_calculator not found"):
        return
    ctx.analysed(b)
    res = {}
    for bb, t, c in b.calls():
        if c in ("calculator::eval_float", "calculator::eval_int"):
            facts = dom_facts(b, bb)
            for a, v in facts:
                if a[0] == "call" and last_seg(a[1]) == "contains" and len(a[2]) == 2 and \
                        (mir.const_char(a[2][1]) == "." or mir.const_str(a[2][1]) == ".") and mir.peel(a[2][0])[0] == "param":
                    res[last_seg(c)] = v
    ctx.ob("R19-3", b.path, "eval_float iff line.contains('.')", res.get("eval_float") is True and res.get("eval_int") is False,
           key="R19-3|%s|mode" % b.path, crate=crate.kind, detail=str(res))


def panic_rule(ctx, crate):
    scope = [b for p, b in sorted(crate.bodies.items()) if p.startswith("calculator::eval_") and b.kind in ("fn", "closure")]
    rc = crate.fn("core::run_calculator")
    if rc is not None:
        scope.append(rc)
    sub = type(ctx)("C19", ctx.tier, ctx.crates, ctx.root)
    n = c05.panic_rule(sub, crate, scope)
    for o in sub.obligations:
        o["rule"] = "R19-4"
        ctx.obligations.append(o)
    for k, v in sub.violations.items():
        v["rule"] = "R19-4"
        v["key"] = "R19-4" + k[5:]
        ctx.violations[v["key"]] = v
    ctx.paths_enumerated += sub.paths_enumerated
    ctx.require(n >= 5, "R19-4", "R19-4|%s|sites" % crate.kind, "fewer than 5 panic-capable sites found in the evaluators (%d)" % n)


def num_syntax_rule(ctx, crate, g, rule):
    import re
    if not ctx.require("num" in g.rules, rule, "%s|grammar|num" % rule, "the calculator grammar has no rule `num`"):
        return
    cache = g.__dict__.setdefault("_num_matches", None)
    if cache is None:
        cache = g.full_matches("num", "+-.eE01", 5)
        g.__dict__["_num_matches"] = cache
    F = re.compile(r"^[+-]?([0-9]+\.?[0-9]*|\.[0-9]+)([eE][+-]?[0-9]+)?$")
    bad = [m for m in cache if not F.match(m)]
    ctx.paths_enumerated += 19607
    ctx.ob(rule, "calculator::grammar", "all %d literals (<= 5 characters over {+ - . e E 0 1}) matched by `num` parse as f64"
           % len(cache), bool(cache) and not bad, key="%s|grammar|num-parses-as-f64" % rule, crate=crate.kind,
           detail=None if not bad else "e.g. %s: the line `1 + %s` reaches parse::<f64>().unwrap() in eval_float and the shell "
           "panics" % (", ".join(repr(x) for x in bad[:5]), bad[0]))


def _wellformed(toks):
    n = len(toks)

    def expr(i):
        """positions after a complete expr starting at i"""
        out = set()
        for j in term(i):
            out.add(j)
            work = {j}
            seen = set()
            while work:
                k = work.pop()
                if k in seen:
                    continue
                seen.add(k)
                if k < n and toks[k] in "+-*/^":
                    for m in term(k + 1):
                        out.add(m)
                        work.add(m)
        return out

    def term(i):
        if i >= n:
            return set()
        if toks[i] in ("1", "2.5"):
            return {i + 1}
        if toks[i] == "(":
            return {j + 1 for j in expr(i + 1) if j < n and toks[j] == ")"}
        return set()
    return n in expr(0)


def infix_rule(ctx, crate, g):
    import itertools
    if not ctx.require("calculation" in g.rules, "R19-6", "R19-6|grammar|calculation", "grammar has no rule `calculation`"):
        return
    cache = g.__dict__.get("_infix_result")
    if cache is None:
        alphabet = ["1", "2.5", "+", "-", "*", "/", "^", "(", ")"]
        maxlen = 6 if ctx.tier == "thorough" else 5
        bad, n = [], 0
        for ln in range(1, maxlen + 1):
            for toks in itertools.product(alphabet, repeat=ln):
                # a sign directly followed by a digit is part of the number: keep operators and numbers apart
                text = " ".join(toks)
                want = _wellformed(toks)
                got = g.accepts("calculation", text)
                n += 1
                if want != got and len(bad) < 5:
                    bad.append((text, want, got))
        cache = (bad, n, maxlen)
        g.__dict__["_infix_result"] = cache
    bad, n, maxlen = cache
    ctx.paths_enumerated += n
    ctx.ob("R19-6", "calculator::grammar", "grammar and reference agree on %d token sequences (<= %d tokens)" % (n, maxlen),
           not bad, key="R19-6|grammar|infix-agreement", crate=crate.kind,
           detail=None if not bad else "`%s`: the grammar %s it, the reference %s" % (
               bad[0][0], "accepts" if bad[0][2] else "rejects", "accepts" if bad[0][1] else "rejects"))


def classification_rule(ctx, crate):
    import itertools
    from .. import refacts
    b = crate.fn("tools::is_arithmetic")
    if not ctx.require(b is not None, "R19-7", "R19-7|anchor", "tools::is_arithmetic not found"):
        return
    ctx.analysed(b)
    # structure: necessary tests (False -> return false) and the deciding test (its value is returned)
    necessary, deciding = [], []
    false_blocks = {bi for bi, si in b.defs.get(0, []) if mir.const_bool(b.def_expr(bi, si)) is False}
    for bb in sorted(b.reachable):
        for tgt, atom, val in b.switch_edges(bb):
            a = strip_sites(atom)
            if a[0] == "call" and last_seg(a[1]) == "re_contains" and val is False and const_str(a[2][1]) is not None:
                # every path from the False target assigns `false`
                seen, todo, ok = set(), [tgt], True
                while todo:
                    x = todo.pop()
                    if x in seen:
                        continue
                    seen.add(x)
                    if x in false_blocks:
                        continue
                    if b.term(x)["k"] == "return" or any(bi == x for bi, si in b.defs.get(0, [])):
                        ok = False
                        break
                    todo.extend(b.succs[x])
                if ok:
                    necessary.append(const_str(a[2][1]))
    for bi, si in b.defs.get(0, []):
        e = b.expand_vars(strip_sites(b.def_expr(bi, si)))
        if e[0] == "call" and last_seg(e[1]) == "re_contains" and const_str(e[2][1]) is not None:
            deciding.append(const_str(e[2][1]))
    others = [bi for bi, si in b.defs.get(0, []) if bi not in false_blocks and not (
        b.expand_vars(strip_sites(b.def_expr(bi, si)))[0] == "call")]
    if not ctx.require(len(deciding) == 1 and not others and len(necessary) >= 1, "R19-7", "R19-7|%s|structure" % b.path,
                       "is_arithmetic is not `test && test && ... && test` over regex literals (necessary: %d, deciding: %d)"
                       % (len(necessary), len(deciding)), b.path):
        return
    cache = crate.__dict__.get("_r19_7")
    if cache is None:
        alphabet = ["1", ".", "+", "^", "(", ")", " ", "a", "|"]
        texts = ["".join(t) for n in range(1, 5) for t in itertools.product(alphabet, repeat=n)]
        res = [True] * len(texts)
        for pat in necessary + deciding:
            ms = refacts.matches(pat, texts)
            res = [x and bool(y) for x, y in zip(res, ms)]
        ALPHA = set("0123456789.+-*/^() ")
        bad = []
        for t, got in zip(texts, res):
            want = set(t) <= ALPHA and any(c.isdigit() for c in t) and any(c in "+-*/^" for c in t) and t[-1] in "0123456789. )"
            if want != got and len(bad) < 5:
                bad.append((t, want, got))
        cache = (bad, len(texts))
        crate.__dict__["_r19_7"] = cache
    bad, n = cache
    ctx.paths_enumerated += n
    ctx.ob("R19-7", b.path, "is_arithmetic agrees with the classification rule on %d strings" % n, not bad,
           key="R19-7|%s|classification" % b.path, crate=crate.kind,
           detail=None if not bad else "%r: classified %s, the rule says %s" % (
               bad[0][0], "arithmetic" if bad[0][2] else "not arithmetic", "arithmetic" if bad[0][1] else "not arithmetic"))
