"""C18 - history stores lines verbatim, durably, injection-free."""
from .. import flow, mir
from ..mir import const_str, last_seg, render, strip_sites
from .c02 import dom_facts

EXPLANATION = ("C18: SQL taint rule over every statement handed to rusqlite (execute / prepare / query_row / "
               "execute_batch): a value formatted into the SQL text must be a literal, a number, quote-doubled text, or "
               "on the allow-list (table name from configuration; the session id, whose only writer is Uuid-derived); "
               "everything else must be a bound parameter.  Plus the recording guard in main (leading space, immediate "
               "repeat) and the typed row id of delete.  Durability across processes and ordering are not decided.")

SINKS = ("execute", "prepare", "query_row", "execute_batch")
NUMERIC = ("i8", "i16", "i32", "i64", "i128", "isize", "u8", "u16", "u32", "u64", "u128", "usize", "f32", "f64", "bool")
FLOOR_SINKS = 6


def _untuple(b, e):
    """`match (&a, &b, &c) { args => .. args.0 .. }` (format! with three or more values): field i of a tuple literal is its
    i-th component"""
    for _ in range(4):
        x = strip_sites(e)
        if x[0] == "field" and isinstance(x[1], int):
            inner = b.expand_vars(strip_sites(x[2]))
            while inner[0] == "deref" if isinstance(inner, tuple) and inner else False:
                inner = inner[1]
            if inner[0] == "agg" and inner[1] == "tuple" and x[1] < len(inner[2]):
                e = inner[2][x[1]]
                continue
        break
    return e


def run(ctx):
    ctx.rule("R18-1", "no string reaches SQL text through format! unless it is a literal, numeric, quote-doubled "
                      "(replace(\"'\", \"''\")), the configured table name, or the Uuid-derived session id")
    ctx.rule("R18-2", "main records a line iff it does not start with a space and differs from the previous recorded line; "
                      "previous_cmd is updated under the same guard")
    ctx.rule("R18-4", "a LIKE pattern with an ESCAPE character escapes that character itself in the bound value "
                      "(otherwise a name containing it matches nothing and the listing silently loses rows)")
    ctx.rule("R18-3", "history delete formats a usize row id")
    ctx.rule("R18-5", "recording does not fail silently: every Err path of the INSERT in add_raw reaches a message on "
                      "stderr, and the connection keeps rusqlite's default busy timeout (no busy_timeout / busy_handler "
                      "call shortens the wait behind another shell's write lock)")
    ctx.rule("R18-6", "the numbers `history` shows keep naming the same rows until they are used (by this or another shell): "
                      "the table has no INTEGER PRIMARY KEY, so its rowids are renumbered by VACUUM and reassigned by "
                      "REPLACE / table rebuilds - no SQL text handed to rusqlite anywhere in the crate contains such a "
                      "statement (VACUUM, REPLACE INTO, INSERT OR REPLACE, DROP TABLE, CREATE TABLE .. AS, UPDATE of "
                      "rowid, auto_vacuum)")
    for crate in ctx.crates:
        insert_failure_rule(ctx, crate)
        stable_rowid_rule(ctx, crate)
        n = sql_rule(ctx, crate)
        if crate.kind == "bin":
            ctx.floor("R18-1", crate, "SQL sinks", n, FLOOR_SINKS)
            record_rule(ctx, crate)
        session_rule(ctx, crate)
        like_escape_rule(ctx, crate)


def is_quote_doubling(e):
    if e[0] == "call" and last_seg(e[1]) == "replace" and len(e[2]) >= 3:
        a, b = const_str(e[2][-2]), const_str(e[2][-1])
        return a == "'" and b == "''"
    return False


def sql_rule(ctx, crate):
    n = 0
    for b in crate.fns():
        if not (b.path.startswith("history::") or b.path.startswith("builtins::history::")):
            continue
        k = 0
        for bb, t, c in b.calls():
            if last_seg(c) not in SINKS or "rusqlite" not in c:
                continue
            n += 1
            ctx.analysed(b)
            sql = b.call_args(bb)[1]
            # all values formatted into the text
            pieces = []

            def piece_ty(e):
                a0 = b.term(e[3])["args"][0]
                pl0 = a0.get("move") or a0.get("copy") or {}
                return pl0.get("ty", "").replace("&", "").strip()

            def collect(e):
                if e[0] == "call" and last_seg(e[1]) in ("new_display", "new_debug") and len(e) > 3:
                    pieces.append(e)
                return False

            def numeric_piece(e):
                # a number formatted into the text carries no text of its own: do not look below it
                return e[0] == "call" and last_seg(e[1]) in ("new_display", "new_debug") and len(e) > 3 and \
                    piece_ty(e) in NUMERIC
            flow.backward(b, sql, collect, stop=numeric_piece)
            bad = []
            for pc in pieces:
                site = pc[3]
                arg_ty = b.term(site)["args"][0]
                pl = arg_ty.get("move") or arg_ty.get("copy") or {}
                ty = pl.get("ty", "").replace("&", "").strip()
                val = _untuple(b, pc[2][0])
                if ty in NUMERIC:
                    continue
                # the SQL being extended (sql = format!("{} AND ..", sql)) is judged by its own pieces
                if flow.backward(b, val, lambda z: z is not val and z[0] == "call" and last_seg(z[1]) == "format"
                                 and "fmt" in z[1]) is not None and mir.root_local_expr(strip_sites(val)) == mir.root_local_expr(strip_sites(sql)):
                    continue
                v = b.expand_vars(strip_sites(val))
                pv = mir.peel(v)
                if const_str(pv) is not None:
                    continue
                if flow.backward(b, val, is_quote_doubling) is not None and \
                        flow.backward(b, val, lambda z: z[0] in ("param", "field") and False) is None and is_quote_doubling(pv):
                    continue
                if pv[0] == "call" and last_seg(pv[1]) == "get_history_table":
                    continue
                # a local chosen among literals (`let order = if asc { "ORDER BY tsb" } else { "order by tsb desc" }`)
                if pv[0] == "var" and b.defs.get(pv[1]) and all(
                        const_str(mir.peel(strip_sites(b.def_expr(bi, si)))) is not None for bi, si in b.defs.get(pv[1], [])):
                    continue
                if pv[0] == "field" and mir.field_name(pv) == "session_id":
                    continue
                if pv[0] == "var" and all(
                        (mir.peel(strip_sites(b.def_expr(bi, si)))[0] == "call" and
                         last_seg(mir.peel(strip_sites(b.def_expr(bi, si)))[1]) == "get_history_table")
                        for bi, si in b.defs.get(pv[1], [])):
                    continue
                if pv[0] == "param" and _callers_pass_table_name(crate, b, pv[1]):
                    continue
                bad.append(mir.render_key(pv)[:60] if pv[0] != "field" else render(pv)[:60])
            # parameters that carry the table name into helpers (init_db(hfile, table)) : check call sites
            bad2 = []
            for x in bad:
                bad2.append(x)
            if not bad2:
                ctx.ob("R18-1", b.path, "SQL text of %s is built from literals, numbers, quote-doubled text and allow-listed names" % last_seg(c),
                       True, where=b.loc(bb), crate=crate.kind, detail="%d formatted values" % len(pieces))
            for x in sorted(set(bad2)):
                ctx.ob("R18-1", b.path, "`%s` is formatted into the SQL text of %s" % (x, last_seg(c)), False,
                       key="R18-1|%s|%s#%d|%s" % (b.path, last_seg(c), k, x), where=b.loc(bb), crate=crate.kind,
                       detail="a quote in this value breaks or rewrites the statement; it must be a bound parameter")
            k += 1
    return n


def _callers_pass_table_name(crate, b, local):
    """every caller passes get_history_table()'s result for this parameter"""
    idx = local - 1
    n = 0
    for b2 in crate.fns():
        for bb, t, c in b2.calls():
            if c == b.path:
                n += 1
                a = b2.call_args(bb)
                if idx >= len(a):
                    return False
                v = mir.peel(b2.expand_vars(strip_sites(a[idx])))
                while v[0] == "call" and last_seg(v[1]) in ("deref", "as_str", "clone", "borrow") and v[2]:
                    v = mir.peel(v[2][0])
                ok = v[0] == "call" and last_seg(v[1]) == "get_history_table"
                if not ok and v[0] == "var":
                    ok = all(flow.backward(b2, b2.def_expr(bi, si), lambda z: z[0] == "call" and
                                           last_seg(z[1]) == "get_history_table") is not None
                             for bi, si in b2.defs.get(v[1], []))
                if not ok:
                    return False
    return n > 0


def session_rule(ctx, crate):
    """allow-list justification: Shell.session_id is only written from a Uuid"""
    ok = True
    sites = 0
    for b in crate.fns():
        for bi, si, s in b.stmts():
            if s["k"] == "assign" and s["rv"]["k"] == "agg" and s["rv"].get("adt", "").endswith("shell::Shell"):
                sites += 1
                fields = s["rv"]["fields"]
                e = b.operand_expr(s["rv"]["ops"][fields.index("session_id")])
                if flow.backward(b, e, lambda z: z[0] == "call" and "uuid::" in z[1].lower() or (z[0] == "call" and "Uuid" in z[1])) is None:
                    ok = False
        for bi, si, rhs in flow.assignments_to_field(b, "session_id"):
            ok = False
    ctx.ob("R18-1", "shell::Shell", "allow-list: session_id is written only from a Uuid (in %d constructor(s))" % sites,
           ok and sites >= 1, key="R18-1|shell::Shell|session_id-writers", crate=crate.kind)
    t = crate.fn("history::get_history_table")
    if t is not None:
        ok2 = any(mir.short(c) == "std::env::var" and const_str(t.call_args(bb)[0]) == "HISTORY_TABLE" for bb, tt, c in t.calls())
        ctx.ob("R18-1", t.path, "allow-list: the table name comes from configuration (HISTORY_TABLE) or a constant", ok2,
               key="R18-1|%s|source" % t.path, crate=crate.kind, nontrivial=False)
    d = crate.fn("builtins::history::delete_history_item")
    if d is not None:
        tys = [d.locals[l]["ty"] for l in range(1, d.arg_count + 1)]
        ctx.ob("R18-3", d.path, "delete takes a usize row id", "usize" in tys, key="R18-3|%s|rowid" % d.path,
               crate=crate.kind, nontrivial=False)


def record_rule(ctx, crate):
    m = crate.fn("main")
    if not ctx.require(m is not None, "R18-2", "R18-2|anchor", "main not found"):
        return
    adds = [bb for bb, t, c in m.calls() if c == "history::add"]
    if not ctx.require(len(adds) == 1, "R18-2", "R18-2|main|add", "expected one history::add call in main", "main"):
        return
    facts = dom_facts(m, adds[0])
    space = False
    repeat = False
    # String locals some callee may rewrite in place (`!!` expansion takes `&mut line`)
    rewritten = set()
    rewrites = []          # (call block, String local handed out by &mut)
    for bb, t, c in m.calls():
        for a in t["args"]:
            pl = a.get("move") or a.get("copy")
            if pl is not None and pl["ty"].replace("&'_ ", "&") == "&mut std::string::String" and not mir.is_pure_callee(c):
                r = mir.root_local_expr(m.expand_vars(strip_sites(m.operand_expr(a))))
                if r is not None:
                    rewritten.add(r)
                    rewrites.append((bb, r))
    # a field that is assigned from such a String AFTER the rewriting call holds the rewritten text too
    back = set(m.back_edges())

    def after(src, dst):
        seen, todo = set(), [y for y in m.succs[src] if (src, y) not in back]
        while todo:
            x = todo.pop()
            if x == dst:
                return True
            if x not in seen:
                seen.add(x)
                todo.extend(y for y in m.succs[x] if (x, y) not in back)
        return False
    stale_fields = set()
    for bi, si, st in m.stmts():
        if st["k"] != "assign" or not st["place"]["p"]:
            continue
        fld_names = [x.get("name") for x in st["place"]["p"] if isinstance(x, dict) and "f" in x]
        if not fld_names:
            continue
        rhs_root = mir.root_local_expr(m.expand_vars(strip_sites(m.rvalue_expr(st["rv"]))))
        for wb, r in rewrites:
            if rhs_root == r and after(wb, bi):
                stale_fields.add(fld_names[-1])
    typed = None
    for a, v in facts:
        ea = m.expand_vars(a)
        if ea[0] == "call" and last_seg(ea[1]) == "starts_with" and v is False and \
                (mir.const_char(ea[2][1]) == " " or const_str(ea[2][1]) == " "):
            space = True
            r = mir.root_local_expr(ea[2][0])
            typed = r is not None and r not in rewritten
            recv = mir.peel(strip_sites(ea[2][0]))
            while recv[0] == "call" and recv[2]:
                recv = mir.peel(recv[2][0])
            if recv[0] == "field" and mir.field_name(recv) in stale_fields:
                typed = False
        if ea[0] == "call" and last_seg(ea[1]) in ("ne", "eq") and any(flow.is_field_named(s, "previous_cmd") for s in mir.subexprs(ea)):
            if (last_seg(ea[1]) == "ne") == bool(v):
                repeat = True
    ctx.ob("R18-2", "main", "history::add is guarded by !starts_with(' ') and line != previous_cmd", space and repeat,
           key="R18-2|main|guard", where=m.loc(adds[0]), crate=crate.kind,
           detail="guards: " + "; ".join("%s=%s" % (render(a)[:50], v) for a, v in facts[-4:]))
    ctx.ob("R18-2", "main", "the leading-space test looks at the line as typed, not at a string a callee rewrites in place "
                            "(`!!` expansion rebuilds the line without its leading blank)", bool(space and typed),
           key="R18-2|main|typed-line", where=m.loc(adds[0]), crate=crate.kind,
           detail=None if (space and typed) else "` echo !!` would be recorded although it was typed with a leading space")
    upd = [(bi, si) for bi, si, rhs in flow.assignments_to_field(m, "previous_cmd")]
    ok = bool(upd) and all(m.dominates(adds[0], bi) or set(dom_facts(m, bi)) >= set(facts) for bi, si in upd)
    ctx.ob("R18-2", "main", "previous_cmd is updated under the same guard as the recording", ok,
           key="R18-2|main|previous_cmd", crate=crate.kind)


def like_escape_rule(ctx, crate):
    import re as _re
    n = 0
    for b in crate.fns():
        if not (b.path.startswith("history::") or b.path.startswith("builtins::history::")):
            continue
        # string constants of the function (format pieces are promoted string arrays)
        lits = set()
        for bi, si, s_ in b.stmts():
            if s_["k"] == "assign":
                e = b.rvalue_expr(s_["rv"])
                for sub in mir.subexprs(e):
                    cs = const_str(sub)
                    if cs:
                        lits.add(cs)
                    cb = mir.const_bytes(sub)
                    if cb:
                        lits.add(cb.decode("latin-1"))
        for bb, t, c in b.calls():
            for a in b.call_args(bb):
                for sub in mir.subexprs(a):
                    cs = const_str(sub)
                    if cs:
                        lits.add(cs)
                    cb = mir.const_bytes(sub)
                    if cb:
                        lits.add(cb.decode("latin-1"))
        escs = set()
        for l in lits:
            for m in _re.finditer(r"(?i)escape\s+'(.)'", l):
                escs.add(m.group(1))
        for ch in sorted(escs):
            n += 1
            # some replace(<ch>, <ch><ch>) must be applied to the value
            ok = False
            for bb, t, c in b.calls():
                if last_seg(c) == "replace" and "str" in c:
                    a = b.call_args(bb)
                    if len(a) >= 3:
                        frm = const_str(a[1]) or mir.const_char(a[1])
                        to = const_str(a[2])
                        if frm == ch and to == ch + ch:
                            ok = True
            ctx.ob("R18-4", b.path, "LIKE ... ESCAPE %r: the escape character itself is escaped in the bound value" % ch, ok,
                   key="R18-4|%s|escape|%s" % (b.path, ch), crate=crate.kind,
                   detail=None if ok else "a directory / pattern containing %r makes the LIKE match nothing: rows silently vanish from the listing" % ch)
    if n == 0:
        ctx.ob("R18-4", "history", "no LIKE ... ESCAPE clause is used", True, crate=crate.kind, nontrivial=False)


def insert_failure_rule(ctx, crate):
    b = crate.fn("history::add_raw")
    if not ctx.require(b is not None, "R18-5", "R18-5|anchor", "history::add_raw not found"):
        return
    ctx.analysed(b)
    ex = [bb for bb, t, c in b.calls() if last_seg(c) == "execute" and "usqlite" in c]
    if not ctx.require(len(ex) == 1, "R18-5", "R18-5|%s|execute" % b.path, "expected one Connection::execute in add_raw", b.path):
        return
    res = strip_sites(b.call_expr(ex[0]))
    stderr_blocks = {bb for bb, t, c in b.calls() if mir.short(c) in ("std::io::stderr", "std::io::Stderr::write_fmt") or
                     last_seg(c) in ("eprintln", "_eprint")}
    err_targets = []
    for bb in sorted(b.reachable):
        for tgt, atom, val in b.switch_edges(bb):
            if atom[0] == "discr" and strip_sites(atom[1]) == res and val == "Err":
                err_targets.append(tgt)
    rets = {bb for bb in b.reachable if b.term(bb)["k"] == "return"}
    ok = bool(err_targets) and bool(stderr_blocks) and all(flow.must_pass(b, t_, stderr_blocks, rets) for t_ in err_targets)
    ctx.ob("R18-5", b.path, "every failure of the INSERT is reported on stderr", ok,
           key="R18-5|%s|silent-failure" % b.path, where=b.loc(ex[0]), crate=crate.kind,
           detail=None if ok else "some Err path returns without writing to stderr: the line is lost (it stays only in this "
           "shell's in-memory history) and nothing tells the user")
    tuned = [(bb, last_seg(c)) for p2, b2 in crate.bodies.items() if p2.startswith("history::") for bb, t, c in b2.calls()
             if last_seg(c) in ("busy_timeout", "busy_handler") or (last_seg(c) in ("pragma_update", "execute_batch") and any(
                 "busy_timeout" in (mir.const_str(x) or "") for a in b2.call_args(bb) for x in mir.subexprs(strip_sites(a))
                 if x[0] == "const"))]
    ctx.ob("R18-5", "history", "the history connections keep the default busy timeout", not tuned,
           key="R18-5|history|busy-timeout", crate=crate.kind,
           detail=None if not tuned else "%s: while another shell holds the write lock longer than the new timeout the "
           "INSERT fails with SQLITE_BUSY" % tuned[0][1])


RENUMBERING = [r"\bvacuum\b", r"\breplace\s+into\b", r"\binsert\s+or\s+replace\b", r"\bdrop\s+table\b",
               r"\bcreate\s+table\b[^;]*\bas\s+select\b", r"\bset\s+rowid\b", r"\bauto_vacuum\b",
               r"\balter\s+table\b[^;]*\brename\b"]


def stable_rowid_rule(ctx, crate):
    import re as _re
    n_fn = 0
    declared_pk = False
    hits = []
    for b in crate.fns():
        if not any(last_seg(c) in SINKS and "rusqlite" in c for bb, t, c in b.calls()):
            continue
        n_fn += 1
        lits = set()
        for bi, si, s_ in b.stmts():
            if s_["k"] == "assign":
                for sub in mir.subexprs(b.rvalue_expr(s_["rv"])):
                    cs = const_str(sub)
                    if cs:
                        lits.add(cs)
                    cb = mir.const_bytes(sub)
                    if cb:
                        lits.add(cb.decode("latin-1"))
        for bb, t, c in b.calls():
            for a in b.call_args(bb):
                for sub in mir.subexprs(b.expand_vars(strip_sites(a))):
                    cs = const_str(sub)
                    if cs:
                        lits.add(cs)
                    cb = mir.const_bytes(sub)
                    if cb:
                        lits.add(cb.decode("latin-1"))
        for l in lits:
            low = l.lower()
            if _re.search(r"integer\s+primary\s+key", low):
                declared_pk = True
            for pat in RENUMBERING:
                m = _re.search(pat, low)
                if m:
                    hits.append((b, m.group(0)))
    if not ctx.require(n_fn >= 4, "R18-6", "R18-6|anchor", "expected at least 4 functions handing SQL to rusqlite, found %d" % n_fn):
        return
    if declared_pk:
        # an explicit INTEGER PRIMARY KEY is an alias of the rowid and survives VACUUM
        hits = [(b, k) for b, k in hits if k != "vacuum"]
    seen = set()
    for b, kw in hits:
        if (b.path, kw) in seen:
            continue
        seen.add((b.path, kw))
        ctx.ob("R18-6", b.path, "SQL text contains `%s`" % kw.upper(), False,
               key="R18-6|%s|renumbers|%s" % (b.path, " ".join(kw.split())), crate=crate.kind,
               detail="row ids are the table's implicit rowids: after this statement a number from an earlier listing (or "
                      "another shell's) names a different line - `history delete 2 5` removes the wrong rows")
    if not hits:
        ctx.ob("R18-6", "(crate)", "no renumbering statement in the SQL text of %d functions" % n_fn, True,
               key="R18-6|crate|stable-rowids", crate=crate.kind, nontrivial=True)
