"""C01 - quoted and escaped arguments reach the program verbatim.

R01-1 (E-TAG): every pass after tokenizing consults the quote tag of a token
before treating its text as an operator or expanding it.
R01-2 (E-FLOW): execve's argv is built from cmd.tokens[*].1 by a lossless chain.
"""
from .. import etag, mir

EXPLANATION = ("C01: tag-guard discipline (E-TAG) over every token-text inspection in the planning "
               "pipeline, on all CFG paths of both crates; plus the argv construction chain at execve. "
               "Decides the structural clause 'no pass acts on quoted text'; does not decide that the "
               "tokenizer assigns the right tag to every input.")

FLOOR_SITES = 20


def run(ctx):
    ctx.rule("R01-1", "every effect that depends on a positive inspection of token text for shell syntax "
                      "is controlled, on every path, by a test of the same token's quote tag "
                      "(OP/STRICT: tag empty; DQ: tag != single quote; DQB: also != backslash)")
    ctx.rule("R01-2", "the argv operand of execve derives from cmd.tokens by iter().map(field 1) with no "
                      "lossy adaptor (filter/skip/take/step_by/rev/dedup/...)")
    for crate in ctx.crates:
        res = etag.run_sites(ctx, "R01-1", crate)
        ctx.floor("R01-1", crate, "token-text inspections", len(res), FLOOR_SITES)
        argv_rule(ctx, crate)


LOSSY = {"filter", "skip", "take", "step_by", "rev", "dedup", "retain", "truncate", "pop", "remove",
         "sort", "skip_while", "take_while", "filter_map", "swap_remove", "drain", "split_off", "clear",
         "dedup_by_key", "sort_by", "reverse", "chain", "zip"}


def argv_rule(ctx, crate):
    body = crate.fn("core::run_single_program")
    if not ctx.require(body is not None, "R01-2", "R01-2|anchor|run_single_program",
                       "core::run_single_program not found"):
        return
    ctx.analysed(body)
    sites = [(bb, t) for bb, t, c in body.calls() if mir.last_seg(c) == "execve"]
    if not ctx.require(len(sites) >= 1, "R01-2", "R01-2|anchor|execve", "no execve call in run_single_program",
                       body.path):
        return
    for bb, t in sites:
        args = body.call_args(bb)
        ok, why = lossless_from_tokens(crate, body, args[1] if len(args) > 1 else ("unknown", "argv"))
        ctx.ob("R01-2", body.path, "execve argv = cmd.tokens[*].1, in order, lossless", ok,
               key="R01-2|%s|execve-argv" % body.path, where=body.loc(bb), detail=why, crate=crate.kind)


ALLOWED = {"deref", "iter", "map", "collect", "into_iter", "as_slice", "cloned", "copied", "clone",
           "to_vec", "as_ref", "borrow", "to_owned"}


def spine(e):
    """walk the first-argument spine: returns list of ('call', name, expr) / ('field', name) items, and the root"""
    items = []
    while True:
        if e[0] == "call":
            items.append(("call", mir.last_seg(e[1]), e))
            if not e[2]:
                return items, e
            e = e[2][0]
        elif e[0] == "field":
            nm = mir.field_name(e) or str(e[1])
            items.append(("field", nm, e))
            e = e[2]
        elif e[0] == "downcast":
            e = e[2]
        elif e[0] == "index":
            items.append(("index", "", e))
            e = e[1]
        else:
            return items, e


def lossless_from_tokens(crate, body, e, depth=0):
    """e must be built from `<cmd>.tokens` by iter/map/collect only, the map closures reading field 1"""
    items, root = spine(e)
    upto = None
    for i, it in enumerate(items):
        if it[0] == "field" and it[1] == "tokens":
            upto = i
            break
    if upto is None:
        if root[0] == "var" and depth < 4:
            for bi, t, c in body.calls():
                ls = mir.last_seg(c)
                if ls in LOSSY or ls in ("push", "insert", "extend", "append"):
                    a = body.call_args(bi)
                    if a and a[0] == root:
                        return False, "argv vector `%s` is modified by `%s`" % (root[2], ls)
            defs = body.defs.get(root[1], [])
            if len(defs) != 1:
                return False, "argv source `%s` has %d definitions" % (root[2], len(defs))
            for it in items:
                if it[0] == "call" and it[1] not in ALLOWED:
                    return False, "adaptor `%s` in the argv chain" % it[1]
            return lossless_from_tokens(crate, body, body.def_expr(defs[0][0], defs[0][1]), depth + 1)
        return False, "argv does not derive from a `tokens` field (root %s)" % mir.render(root)
    names = []
    for it in items[:upto]:
        if it[0] == "index":
            return False, "argv chain indexes into the token list"
        if it[0] == "field":
            return False, "argv chain projects field %s" % it[1]
        names.append(it[1])
        if it[1] in LOSSY:
            return False, "lossy adaptor `%s` in the argv chain" % it[1]
        if it[1] not in ALLOWED:
            return False, "unknown adaptor `%s` in the argv chain (cannot establish losslessness)" % it[1]
        if it[1] == "map":
            c = it[2]
            cl = c[2][1] if len(c[2]) > 1 else None
            cpath = None
            if cl is not None and cl[0] == "agg" and cl[1].startswith("closure:"):
                cpath = cl[1][len("closure:"):]
            elif cl is not None and cl[0] == "const" and isinstance(cl[1], tuple) and cl[1][0] == "fn":
                cpath = cl[1][1]
            cb = crate.fn(cpath) if cpath else None
            if cb is None:
                return False, "cannot resolve map closure"
            r = cb.return_expr()
            fields = [s for s in mir.subexprs(r) if s[0] == "field" and mir.field_bty(s) == mir.TOKEN_TY]
            if any(f[1] != 1 for f in fields):
                return False, "map closure %s reads a token field other than the text" % cpath
            calls_in = [mir.last_seg(s[1]) for s in mir.subexprs(r) if s[0] == "call"]
            bad = [n for n in calls_in if n in ("trim", "trim_start", "trim_end", "to_lowercase", "to_uppercase",
                                                "replace", "replacen", "trim_matches", "split_at", "truncate")]
            if bad:
                return False, "map closure %s rewrites the text with `%s`" % (cpath, bad[0])
    return True, "chain %s over %s" % ("->".join(reversed(names)), mir.render(items[upto][2]))
