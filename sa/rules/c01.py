"""C01 - quoted and escaped arguments reach the program verbatim.

R01-1 (E-TAG): every pass after tokenizing consults the quote tag of a token
before treating its text as an operator or expanding it.
R01-2 (E-FLOW): execve's argv is built from cmd.tokens[*].1 by a lossless chain.
"""
from .. import etag, mir

EXPLANATION = ("C01: tag-guard discipline (E-TAG) over every token-text inspection in the planning "
               "pipeline, on all CFG paths of both crates; plus the argv construction chain at execve. "
               "Decides the structural clause 'no pass acts on quoted text'; does not decide that the "
               "tokenizer assigns the right tag to every input.")

FLOOR_SITES = 20


def run(ctx):
    ctx.rule("R01-1", "every effect that depends on a positive inspection of token text for shell syntax "
                      "is controlled, on every path, by a test of the same token's quote tag "
                      "(OP/STRICT: tag empty; DQ: tag != single quote; DQB: also != backslash)")
    ctx.rule("R01-2", "the argv operand of execve derives from cmd.tokens by iter().map(field 1) with no "
                      "lossy adaptor (filter/skip/take/step_by/rev/dedup/...)")
    ctx.rule("R01-4", "the tokenizer and the list splitter look characters up in the index space their cursor counts in: "
                      "the counter of chars().enumerate() is never used as a byte offset (as_bytes()[i], &line[i..]), so a "
                      "multi-byte character in an argument cannot shift the look-ahead that recognises operators")
    ctx.rule("R01-3", "tokenizer: when a backslash escapes a character that a later pass acts on inside an untagged word "
                      "($ * ~ { } , & ` !), the escape is remembered (a quote tag is set, or the backslash is kept); "
                      "otherwise the escaped character is indistinguishable from an unescaped one and is acted on")
    ctx.rule("R01-5", "an argument is split only where the user separated words: every character-class test or word-splitting "
                      "call the tokenizer (and the helpers that build its token list) applies accepts nothing but the ASCII "
                      "blanks a shell splits at (space, TAB, newline) - `split_whitespace` / `is_whitespace` also split "
                      "at U+3000, U+00A0, U+2003 ..., cutting a multi-byte argument in two")
    ctx.rule("R01-6", "a complete command line is never refused on the tokenizer's say-so: the `is_complete` flag of LineInfo "
                      "answers `should the prompt ask for another line` (it is false for every word tagged with a backslash, "
                      "e.g. a last argument `\\$HOME`), so it is read only by the prompt's Enter handler - not by the "
                      "planner or anything else on the way to execve")
    for crate in ctx.crates:
        escape_rule(ctx, crate)
        blank_class_rule(ctx, crate)
        completeness_readers_rule(ctx, crate)
        from .. import ispace
        n = ispace.rule(ctx, crate, "R01-4", ["parsers::parser_line::parse_line", "parsers::parser_line::line_to_cmds"])
        ctx.require(crate.fn("parsers::parser_line::parse_line") is not None and
                    crate.fn("parsers::parser_line::line_to_cmds") is not None, "R01-4", "R01-4|anchor",
                    "parse_line / line_to_cmds not found")
        res = etag.run_sites(ctx, "R01-1", crate)
        ctx.floor("R01-1", crate, "token-text inspections", len(res), FLOOR_SITES)
        argv_rule(ctx, crate)


LOSSY = {"filter", "skip", "take", "step_by", "rev", "dedup", "retain", "truncate", "pop", "remove",
         "sort", "skip_while", "take_while", "filter_map", "swap_remove", "drain", "split_off", "clear",
         "dedup_by_key", "sort_by", "reverse", "chain", "zip"}


def argv_rule(ctx, crate):
    body = crate.fn("core::run_single_program")
    if not ctx.require(body is not None, "R01-2", "R01-2|anchor|run_single_program",
                       "core::run_single_program not found"):
        return
    ctx.analysed(body)
    sites = [(bb, t) for bb, t, c in body.calls() if mir.last_seg(c) == "execve"]
    if not ctx.require(len(sites) >= 1, "R01-2", "R01-2|anchor|execve", "no execve call in run_single_program",
                       body.path):
        return
    for bb, t in sites:
        args = body.call_args(bb)
        ok, why = lossless_from_tokens(crate, body, args[1] if len(args) > 1 else ("unknown", "argv"))
        ctx.ob("R01-2", body.path, "execve argv = cmd.tokens[*].1, in order, lossless", ok,
               key="R01-2|%s|execve-argv" % body.path, where=body.loc(bb), detail=why, crate=crate.kind)


ALLOWED = {"deref", "iter", "map", "collect", "into_iter", "as_slice", "cloned", "copied", "clone",
           "to_vec", "as_ref", "borrow", "to_owned"}


def spine(e):
    """walk the first-argument spine: returns list of ('call', name, expr) / ('field', name) items, and the root"""
    items = []
    while True:
        if e[0] == "call":
            items.append(("call", mir.last_seg(e[1]), e))
            if not e[2]:
                return items, e
            e = e[2][0]
        elif e[0] == "field":
            nm = mir.field_name(e) or str(e[1])
            items.append(("field", nm, e))
            e = e[2]
        elif e[0] == "downcast":
            e = e[2]
        elif e[0] == "index":
            items.append(("index", "", e))
            e = e[1]
        else:
            return items, e


def lossless_from_tokens(crate, body, e, depth=0):
    """e must be built from `<cmd>.tokens` by iter/map/collect only, the map closures reading field 1"""
    items, root = spine(e)
    upto = None
    for i, it in enumerate(items):
        if it[0] == "field" and it[1] == "tokens":
            upto = i
            break
    if upto is None:
        if root[0] == "var" and depth < 4:
            for bi, t, c in body.calls():
                ls = mir.last_seg(c)
                if ls in LOSSY or ls in ("push", "insert", "extend", "append"):
                    a = body.call_args(bi)
                    if a and a[0] == root:
                        return False, "argv vector `%s` is modified by `%s`" % (root[2], ls)
            defs = body.defs.get(root[1], [])
            if len(defs) != 1:
                return False, "argv source `%s` has %d definitions" % (root[2], len(defs))
            for it in items:
                if it[0] == "call" and it[1] not in ALLOWED:
                    return False, "adaptor `%s` in the argv chain" % it[1]
            return lossless_from_tokens(crate, body, body.def_expr(defs[0][0], defs[0][1]), depth + 1)
        return False, "argv does not derive from a `tokens` field (root %s)" % mir.render(root)
    names = []
    for it in items[:upto]:
        if it[0] == "index":
            return False, "argv chain indexes into the token list"
        if it[0] == "field":
            return False, "argv chain projects field %s" % it[1]
        names.append(it[1])
        if it[1] in LOSSY:
            return False, "lossy adaptor `%s` in the argv chain" % it[1]
        if it[1] not in ALLOWED:
            return False, "unknown adaptor `%s` in the argv chain (cannot establish losslessness)" % it[1]
        if it[1] == "map":
            c = it[2]
            cl = c[2][1] if len(c[2]) > 1 else None
            cpath = None
            if cl is not None and cl[0] == "agg" and cl[1].startswith("closure:"):
                cpath = cl[1][len("closure:"):]
            elif cl is not None and cl[0] == "const" and isinstance(cl[1], tuple) and cl[1][0] == "fn":
                cpath = cl[1][1]
            cb = crate.fn(cpath) if cpath else None
            if cb is None:
                return False, "cannot resolve map closure"
            r = cb.return_expr()
            fields = [s for s in mir.subexprs(r) if s[0] == "field" and mir.field_bty(s) == mir.TOKEN_TY]
            if any(f[1] != 1 for f in fields):
                return False, "map closure %s reads a token field other than the text" % cpath
            calls_in = [mir.last_seg(s[1]) for s in mir.subexprs(r) if s[0] == "call"]
            bad = [n for n in calls_in if n in ("trim", "trim_start", "trim_end", "to_lowercase", "to_uppercase",
                                                "replace", "replacen", "trim_matches", "split_at", "truncate")]
            if bad:
                return False, "map closure %s rewrites the text with `%s`" % (cpath, bad[0])
    return True, "chain %s over %s" % ("->".join(reversed(names)), mir.render(items[upto][2]))


# characters a later pass acts on inside / at the start of an untagged word (pass named per character)
ESC_T = {"$": "expand_env / $( )", "*": "expand_glob", "~": "expand_home", "{": "expand_brace", "}": "expand_brace",
         ",": "expand_brace", "&": "background marker when it is the last word", "`": "backquote substitution",
         "!": "!! history expansion"}


class TokenizerModel:
    """what the character loop of parse_line does with the character after a backslash"""

    def __init__(self, b):
        from ..mir import const_char, const_str, strip_sites
        self.b = b
        self.ok = False
        self.why = ""
        loop = None
        for h, blocks in b.loops().items():
            for bb in blocks:
                t = b.term(bb)
                if t["k"] == "call" and mir.last_seg(b.callee(t)) == "next" and "Enumerate" in b.callee(t):
                    if loop is None or len(blocks) > len(loop[1]):
                        loop = (h, blocks, bb)
        if loop is None:
            self.why = "character loop not found"
            return
        self.h, self.blocks, self.nb = loop
        h, blocks, nb = loop
        nx = strip_sites(b.call_expr(nb))
        self.cexpr = cexpr = mir.fld(1, mir.fld(0, ("downcast", "Some", nx), "0"))
        flag = None
        for bi, si, st in b.stmts():
            if bi in blocks and st["k"] == "assign" and not st["place"]["p"] and b.locals[st["place"]["l"]]["ty"] == "bool":
                if mir.const_bool(b.rvalue_expr(st["rv"])) is True:
                    from .c02 import dom_facts
                    for a, v in dom_facts(b, bi, within=blocks):
                        if a[0] == "bin" and a[1] == "Eq" and v is True and const_char(a[3]) == "\\" and a[2] == cexpr:
                            flag = ("var", st["place"]["l"], b.names.get(st["place"]["l"]))
        if flag is None:
            self.why = "escape flag not identified"
            return
        self.flag = flag
        pushes_c = {}
        for bb, t, c in b.calls():
            if bb in blocks and mir.last_seg(c) == "push" and "String" in c:
                a = b.call_args(bb)
                if len(a) == 2 and strip_sites(a[1]) == cexpr:
                    pushes_c[bb] = mir.root_local_expr(a[0])
        self.pushes_c = pushes_c
        marks = set()
        for bb, t, c in b.calls():
            if bb in blocks and mir.last_seg(c) == "push" and "String" in c:
                a = b.call_args(bb)
                if len(a) == 2 and const_char(a[1]) == "\\":
                    marks.add(bb)
        for bi, si, st in b.stmts():
            if bi in blocks and st["k"] == "assign" and not st["place"]["p"] and \
                    b.locals[st["place"]["l"]]["ty"] == "std::string::String" and st["place"]["l"] not in pushes_c.values():
                e = b.expand_vars(strip_sites(b.rvalue_expr(st["rv"])))
                s_ = const_str(e)
                if s_ is None:
                    for sub in mir.subexprs(e):
                        if sub[0] == "call" and mir.last_seg(sub[1]) in ("from", "to_string", "format", "must_use") and sub[2]:
                            cs = const_str(sub[2][0])
                            if cs:
                                s_ = cs
                if s_:
                    marks.add(bi)
        self.marks = marks
        self.back = {(x, y) for x, y in b.back_edges() if y == h}
        self.some_t = [tgt for tgt, atom, val in b.switch_edges(b.succs[nb][0]) if val == "Some"]
        if not self.some_t or not pushes_c:
            self.why = "loop shape not recognised"
            return
        self.ok = True

    def constants(self):
        """characters the loop compares the cursor with"""
        from ..mir import const_char, strip_sites
        out = set()
        for bb in self.blocks:
            for tgt, atom, val in self.b.switch_edges(bb):
                a = strip_sites(atom)
                if a[0] == "bin" and a[1] in ("Eq", "Ne") and a[2] == self.cexpr and const_char(a[3]):
                    out.add(const_char(a[3]))
        return out

    def erased(self, X, quote=""):
        """blocks at which an iteration that started with the escape flag set, reading character X inside the quote
        context `quote` ("" = unquoted word), ends having pushed X without a backslash and without tagging the
        word; returns (list of such blocks, number of states)"""
        from ..mir import FactWalker, const_char, strip_sites
        from ..etag import norm_guard
        b, blocks, cexpr, flag = self.b, self.blocks, self.cexpr, self.flag
        w = FactWalker(b, lambda a: True, cut_back_edges=False)
        bad = []
        pushes_c, marks, back = self.pushes_c, self.marks, self.back
        quotes = ("'", "\"", "`")

        def step(bb, st):
            facts, marked, pushed = st
            if bb in marks:
                marked = True
            if bb in pushes_c:
                pushed = True
            out = []
            for nb2, atom, val in w.edges(bb):
                if nb2 not in blocks:
                    continue
                if (bb, nb2) in back:
                    if pushed and not marked:
                        bad.append(bb)
                    continue
                if atom is not None:
                    if atom[0] == "bin" and atom[1] in ("Eq", "Ne") and atom[2] == cexpr and const_char(atom[3]) is not None:
                        truth = (const_char(atom[3]) == X) if atom[1] == "Eq" else (const_char(atom[3]) != X)
                        if truth != val:
                            continue
                    g = norm_guard(atom, val)
                    if g is not None and g[0] == "is_empty" and g[1][0] == "var" and \
                            b.locals[g[1][1]]["ty"] == "std::string::String" and g[1][1] not in pushes_c.values() and not marked:
                        # g[2]: the tag variable is empty
                        if quote == "" and g[2] is False:
                            continue
                        if quote != "" and g[2] is True and _is_tag_var(b, g[1][1]):
                            continue
                    if g is not None and g[0] == "eq" and g[1][0] == "var" and not marked and g[2] in quotes and \
                            _is_tag_var(b, g[1][1]):
                        if g[3] is not (g[2] == quote):
                            continue
                f2 = w.apply_block(bb, facts)
                if atom is not None:
                    okc = True
                    for a2, v2 in f2:
                        if a2 == atom and not mir._consistent(v2, val):
                            okc = False
                    if not okc:
                        continue
                    f2 = f2 | {(atom, val)} if atom == flag else f2
                out.append((nb2, (f2, marked, pushed)))
            return out

        init = frozenset({(flag, True)})
        seen = mir.explore(b, self.some_t[0], (init, False, False), step, limit=400000)
        return bad, len(seen)


def _is_tag_var(b, l):
    """the String local that ends up as the token's tag: it is the first component of a pushed (tag, text) tuple"""
    cache = b.__dict__.setdefault("_tagvars", None)
    if cache is None:
        cache = set()
        from ..mir import strip_sites
        for bb, t, c in b.calls():
            if mir.last_seg(c) == "push" and "Vec" in c:
                a = b.call_args(bb)
                if len(a) == 2:
                    v = strip_sites(a[1])
                    if v[0] == "agg" and v[1] == "tuple" and len(v[2]) == 2:
                        for sub in mir.subexprs(v[2][0]):
                            if sub[0] == "var":
                                cache.add(sub[1])
        b.__dict__["_tagvars"] = cache
    return l in cache


def escape_rule(ctx, crate):
    b = crate.fn("parsers::parser_line::parse_line")
    if not ctx.require(b is not None, "R01-3", "R01-3|anchor", "parsers::parser_line::parse_line not found"):
        return
    ctx.analysed(b)
    M = TokenizerModel(b)
    if not ctx.require(M.ok, "R01-3", "R01-3|%s|model" % b.path, M.why or "tokenizer loop not recognised", b.path):
        return
    for X, who in sorted(ESC_T.items()):
        bad, n = M.erased(X, "")
        ctx.paths_enumerated += n
        name = {"`": "backquote", ",": "comma"}.get(X, X)
        ok = not bad
        ctx.ob("R01-3", b.path, "escaped %s keeps a trace of the escape (later: %s)" % (X, who), ok,
               key="R01-3|%s|escape-erased|%s" % (b.path, name), where=b.loc(bad[0]) if bad else "", crate=crate.kind,
               detail=None if ok else "`\\%s` inside an unquoted word becomes a plain untagged %s, so %s still acts on it" % (X, X, who))


def blank_class_rule(ctx, crate):
    from .c20 import char_tests, splitter_preds, PRED_SETS, TOKENIZERS
    n = 0
    for p in TOKENIZERS:
        b = crate.fn(p)
        if b is None:
            continue
        eqs, preds = char_tests(b)
        preds = dict(preds)
        preds.update({k: v for k, v in splitter_preds(crate, b).items() if k not in preds})
        n += len(eqs)
        for name, where in sorted(preds.items()):
            accepted = PRED_SETS.get(name.split(" (via")[0])
            if accepted is None:
                continue
            extra = [c for c in accepted if c not in " \t\n\r"]
            ctx.ob("R01-5", p, "class test %s accepts only ASCII blanks" % name, not extra,
                   key="R01-5|%s|pred|%s" % (p, name), where=where, crate=crate.kind,
                   detail=None if not extra else "an unquoted argument containing %s is cut in two (a shell splits at space, TAB "
                   "and newline only)" % ", ".join("U+%04X" % ord(c) for c in extra[:5]))
    ctx.ob("R01-5", "tokenizers", "%d equality tests, no wider character class in the tokenizers" % n, True, crate=crate.kind,
           nontrivial=False)


COMPLETENESS_READERS = ("prompt::",)


def completeness_readers_rule(ctx, crate):
    readers = []
    for b in crate.fns():
        if "::tests::" in b.path:
            continue
        hit = None
        for bi, si, st in b.stmts():
            if st["k"] != "assign":
                continue
            for sub in mir.subexprs(b.rvalue_expr(st["rv"])):
                if sub[0] == "field" and mir.field_name(sub) == "is_complete":
                    hit = bi
        for x in sorted(b.reachable):
            for tgt, atom, val in b.switch_edges(x):
                for sub in mir.subexprs(atom):
                    if sub[0] == "field" and mir.field_name(sub) == "is_complete":
                        hit = x
        for bb, t, c in b.calls():
            for a in b.call_args(bb):
                for sub in mir.subexprs(a):
                    if sub[0] == "field" and mir.field_name(sub) == "is_complete":
                        hit = bb
        if hit is not None:
            readers.append((b, hit))
    bad = [(b, bb) for b, bb in readers if not any(k in b.path for k in COMPLETENESS_READERS)]
    for b, bb in bad:
        ctx.ob("R01-6", b.path, "LineInfo.is_complete is read outside the prompt", False,
               key="R01-6|%s|reads-is_complete" % b.path, where=b.loc(bb), crate=crate.kind,
               detail="the flag is false for a finished line whose last word carries the backslash tag (`echo \\$HOME`, `echo \\|`): "
                      "a decision taken on it on the way to execution refuses or alters a complete command")
    if not bad:
        ctx.ob("R01-6", "(crate)", "LineInfo.is_complete is read by the prompt only (%d reader(s))" % len(readers), True,
               key="R01-6|crate|prompt-only", crate=crate.kind, nontrivial=True)
