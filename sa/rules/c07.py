"""C07 - the terminal belongs to the foreground job while it runs, else to the shell."""
from .. import etag, flow, mir, plumb
from ..mir import const_int, last_seg, render, strip_sites
from .c02 import dom_facts

EXPLANATION = ("C07: pairing rules on all paths: every site that may hand the terminal to a job gives it back to the "
               "shell's own group before returning; the hand-over is guarded by (has_terminal, isatty, not "
               "background, first stage); every child joins its pipeline's process group before exec; the signal "
               "mask bracket inside give_terminal_to; background jobs are polled after every input line.  Real "
               "process groups and signal delivery are not decided.")

FLOOR_PIPELINE_SITES = 5


def from_getpgid0(body, e):
    return flow.backward(body, e, lambda x: x[0] == "call" and last_seg(x[1]) == "getpgid" and x[2]
                         and const_int(x[2][0]) == 0) is not None


def run(ctx):
    ctx.rule("R07-1", "after run_pipeline returns with the terminal-given flag set, give_terminal_to(getpgid(0)) is on "
                      "every path to the caller's return / next iteration; in fg, after a successful "
                      "give_terminal_to(job.gid): wait_fg_job, then give_terminal_to(getpgid(0)) on every path")
    ctx.rule("R07-11", "Ctrl-Z and Ctrl-\\ reach the job: SIGTSTP / SIGQUIT (and anything else the shell ignores) are set back to "
                       "SIG_DFL in the child before exec on every path - an ignored disposition is inherited through "
                       "execve and the job could never be stopped from the keyboard (the analysis of C02 R02-9)")
    ctx.rule("R07-12", "`jobs` lists the true state also for events that arrive while another command is in the foreground: "
                       "parked events are taken per pid, never wiped (the analysis of C06 R06-8)")
    ctx.rule("R07-2", "give_terminal_to(child) in the parent is guarded by has_terminal, isatty, !background and only "
                      "for stage 0; its result is stored through the term_given out-parameter")
    ctx.rule("R07-3", "child: setpgid(0, getpid()) in stage 0, setpgid(0, *pgid) otherwise, before exec on every path; "
                      "parent stores the first child's pid into *pgid")
    ctx.rule("R07-4", "give_terminal_to: SIGTSTP, SIGTTIN, SIGTTOU, SIGCHLD blocked before tcsetpgrp and the old mask "
                      "restored after it on every path")
    ctx.rule("R07-6", "fg and bg resume the whole job: killpg(job.gid, SIGCONT) is on every path to the wait (fg) / to "
                      "marking the job running (bg), not conditional on the recorded job status (which can be stale)")
    ctx.rule("R07-7", "the parent also calls setpgid(child, *pgid) after every fork: a later stage may run its own "
                      "setpgid(0, pgid) before the first stage has created the group (both sides must set it)")
    ctx.rule("R07-8", "`jobs` shows the true state: a stop / continue / exit of a process that is not the awaited foreground "
                      "child is parked in the event maps by wait_fg_job exactly as handle_sigchld does, and popped by "
                      "try_wait_bg_jobs (the analysis of C06 R06-2)")
    ctx.rule("R07-9", "a job is shown Stopped exactly when every live member is stopped: all_members_stopped walks pids "
                      "(the analysis of C06 R06-5)")
    ctx.rule("R07-13", "the shell takes the terminal back only when the foreground job is done: wait_fg_job counts a reported "
                       "child only if it is a member of the job it waits for and was not merely continued, and leaves its loop "
                       "only on ECHILD, a wait error, or all members counted (the analysis of C02 R02-5)")
    ctx.rule("R07-10", "every job can be found by its group id (the analysis of C06 R06-7: id scans are not bounded by jobs.len())")
    ctx.rule("R07-5", "main: every path of the Input(line) arm reaches try_wait_bg_jobs before the next read_line")
    for crate in ctx.crates:
        pairing_rule(ctx, crate)
        fg_rule(ctx, crate)
        resume_rule(ctx, crate)
        handover_rule(ctx, crate)
        mask_rule(ctx, crate)
        if crate.kind == "bin":
            main_rule(ctx, crate)
    # the job-state clauses of this property are decided by the C06 analyses; relabel their results
    from . import c06
    n0 = len(ctx.obligations)
    v0 = set(ctx.violations)
    for crate in ctx.crates:
        c06.routing_rule(ctx, crate)
        c06.stopped_rule(ctx, crate)
        c06.id_scan_rule(ctx, crate, "R07-10")
    ren = {"R06-2": "R07-8", "R06-5": "R07-9"}
    for o in ctx.obligations[n0:]:
        if o["rule"] in ren:
            if o.get("key", "").startswith(o["rule"]):
                o["key"] = ren[o["rule"]] + o["key"][5:]
            o["rule"] = ren[o["rule"]]
    for k in [k for k in ctx.violations if k not in v0]:
        v = ctx.violations.pop(k)
        if v["rule"] in ren:
            v["key"] = ren[v["rule"]] + v["key"][5:]
            v["rule"] = ren[v["rule"]]
        ctx.violations[v["key"]] = v
    # the terminal is taken back when wait_fg_job returns: it must return only once the foreground job's own members
    # are done (the wait-loop analysis of C02 R02-5: what is counted, what ends the loop)
    from . import c02
    n1 = len(ctx.obligations)
    v1 = set(ctx.violations)
    for crate in ctx.crates:
        wj = crate.fn("jobc::wait_fg_job")
        if wj is not None:
            ctx.analysed(wj)
            c02.wait_fg_rules(ctx, crate, wj)
    for o in ctx.obligations[n1:]:
        if o["rule"] == "R02-5":
            if o.get("key", "").startswith("R02-5"):
                o["key"] = "R07-13" + o["key"][5:]
            o["rule"] = "R07-13"
    for k in [k for k in ctx.violations if k not in v1]:
        v = ctx.violations.pop(k)
        if v["rule"] == "R02-5":
            v["key"] = "R07-13" + v["key"][5:]
            v["rule"] = "R07-13"
        ctx.violations[v["key"]] = v
    from .c02 import inherited_dispositions_rule
    inherited_dispositions_rule(ctx, "R07-11")
    from .c06 import map_mutation_rule
    for crate in ctx.crates:
        map_mutation_rule(ctx, crate, "R07-12")


def pairing_rule(ctx, crate):
    nsites = 0
    for body in crate.fns():
        sites = [bb for bb, t, c in body.calls() if last_seg(c) == "run_pipeline" and c.endswith("core::run_pipeline")]
        if not sites:
            continue
        ctx.analysed(body)
        counts = 0
        for cb in sites:
            nsites += 1
            res = strip_sites(body.call_expr(cb))
            flag = lambda a: (mir.peel(a)[0] == "field" and mir.peel(a)[1] == 0 and
                              body.expand_vars(strip_sites(mir.peel(a)[2])) == body.expand_vars(res))
            gives = set()
            for bb, t, c in body.calls():
                if last_seg(c) == "give_terminal_to" and from_getpgid0(body, body.call_args(bb)[0]):
                    gives.add(bb)

            def step(bb, sat):
                if bb in gives:
                    sat = True
                out = []
                edges = body.switch_edges(bb) if body.term(bb)["k"] == "switch" else []
                cond = {}
                for tgt, atom, val in edges:
                    cond.setdefault(tgt, []).append((atom, val))
                for s in body.succs[bb]:
                    s2 = sat
                    for atom, val in cond.get(s, []):
                        a = body.expand_vars(atom)
                        if flag(a) and val is False:
                            s2 = True
                    if s == cb:
                        # next loop iteration reaches the call again: treat as an exit
                        out.append((-1, s2))
                    else:
                        out.append((s, s2))
                return out

            def step_wrap(bb, sat):
                if bb == -1:
                    return []
                return step(bb, sat)

            start = body.succs[cb][0]
            seen = mir.explore(body, start, False, step_wrap)
            ctx.paths_enumerated += len(seen)
            bad = [bb for bb, sat in seen if not sat and (bb == -1 or body.term(bb)["k"] == "return")]
            ok = not bad
            ctx.ob("R07-1", body.path, "terminal given back after run_pipeline when its flag is set", ok,
                   key="R07-1|%s|run_pipeline#%d" % (body.path, counts), where=body.loc(cb), crate=crate.kind,
                   detail=None if ok else "a path reaches %s without give_terminal_to(getpgid(0)) and without "
                                          "knowing the flag is false" % ("the next iteration" if -1 in bad else "return"))
            counts += 1
    ctx.floor("R07-1", crate, "run_pipeline call sites", nsites, FLOOR_PIPELINE_SITES)


def fg_rule(ctx, crate):
    body = crate.fn("builtins::fg::run")
    if body is None:
        ctx.require(crate.kind != "bin", "R07-1", "R07-1|fg|anchor", "builtins::fg::run not found")
        return
    ctx.analysed(body)
    gives_job = []
    gives_shell = set()
    waits = set()
    for bb, t, c in body.calls():
        if last_seg(c) == "give_terminal_to":
            if from_getpgid0(body, body.call_args(bb)[0]):
                gives_shell.add(bb)
            else:
                gives_job.append(bb)
        if last_seg(c) == "wait_fg_job":
            waits.add(bb)
    if not ctx.require(len(gives_job) == 1, "R07-1", "R07-1|fg|give-anchor",
                       "expected one give_terminal_to(job.gid) in fg, found %d" % len(gives_job), body.path):
        return
    gb = gives_job[0]
    res = strip_sites(body.call_expr(gb))
    # the true edge
    starts = []
    for bb in sorted(body.reachable):
        for tgt, atom, val in body.switch_edges(bb):
            if atom == res and val is True:
                starts.append(tgt)
    if not ctx.require(len(starts) >= 1, "R07-1", "R07-1|fg|result-tested",
                       "the result of give_terminal_to(job.gid) is not tested in fg", body.path):
        return

    def step(bb, st):
        waited, gave = st
        if bb in waits:
            waited = True
        if bb in gives_shell and waited:
            gave = True
        return [(s, (waited, gave)) for s in body.succs[bb]]

    seen = mir.explore(body, starts[0], (False, False), step)
    bad = [bb for bb, (w, g) in seen if body.term(bb)["k"] == "return" and not (w and g)]
    ctx.ob("R07-1", body.path, "fg: wait_fg_job then give_terminal_to(getpgid(0)) on every path after the hand-over",
           not bad, key="R07-1|%s|fg-pairing" % body.path, where=body.loc(gb), crate=crate.kind)


def handover_rule(ctx, crate):
    body = crate.fn("core::run_single_program")
    if not ctx.require(body is not None, "R07-2", "R07-2|anchor", "core::run_single_program not found"):
        return
    ctx.analysed(body)
    m = plumb.Model(crate, body)
    if not ctx.require(m.s.ok(), "R07-2", "R07-2|slots", "cannot identify plumbing parameters by type", body.path):
        return
    gives = [bb for bb, t, c in body.calls() if last_seg(c) == "give_terminal_to"]
    ctx.require(len(gives) >= 1, "R07-2", "R07-2|%s|give-anchor" % body.path,
                "no give_terminal_to in run_single_program", body.path)
    for n, gb in enumerate(gives):
        facts = etag.derived_facts(body, [(strip_sites(a), v) for a, v in dom_facts(body, gb)], with_dom=True)
        names = {}
        for a, v in facts:
            p = mir.peel(a)
            if p[0] == "field":
                names[mir.field_name(p)] = v
        parent = any(a[0] == "discr" and v == "Parent" for a, v in facts)
        stage0 = any(plumb.eval_linear(m.s, a, {"rel": "LT", "zero": "Z"}) is True and
                     plumb.eval_linear(m.s, a, {"rel": "LT", "zero": "P"}) is False and v is True
                     or (plumb.eval_linear(m.s, a, {"rel": "LT", "zero": "Z"}) is False and
                         plumb.eval_linear(m.s, a, {"rel": "LT", "zero": "P"}) is True and v is False)
                     for a, v in facts)
        ok = parent and names.get("has_terminal") is True and names.get("isatty") is True and \
            names.get("background") is False and stage0
        ctx.ob("R07-2", body.path, "give_terminal_to(child) guarded by has_terminal, isatty, !background, stage 0, in the parent",
               ok, key="R07-2|%s|guard#%d" % (body.path, n), where=body.loc(gb), crate=crate.kind,
               detail="guards: " + "; ".join("%s=%s" % (render(a)[:50], v) for a, v in facts if a[0] != "discr" or v in ("Parent", "Child")))
        # result stored through the &mut bool parameter
        stored = False
        t = body.term(gb)
        res = strip_sites(body.call_expr(gb))
        dl = t["dest"]
        if dl["p"] and dl["p"][0] == "deref" and body.locals[dl["l"]]["ty"] == "&mut bool":
            stored = True
        for bi, si, s in body.stmts():
            if s["k"] == "assign" and s["place"]["p"] and s["place"]["p"][0] == "deref" and \
                    body.locals[s["place"]["l"]]["ty"] == "&mut bool":
                if strip_sites(body.rvalue_expr(s["rv"])) == res:
                    stored = True
        ctx.ob("R07-2", body.path, "result of give_terminal_to(child) stored through the term_given out-parameter", stored,
               key="R07-2|%s|flag-store#%d" % (body.path, n), where=body.loc(gb), crate=crate.kind)
    # R07-3
    obs = m.obligations()
    ex = lambda bb: body.term(bb)["k"] == "call" and last_seg(body.callee(body.term(bb))) in (
        "execve", "try_run_builtin_in_subprocess")
    fails, nst = m.explore(ex, "child")
    ctx.paths_enumerated += nst
    for o in obs:
        if o["id"] not in ("K1z", "K1p"):
            continue
        bad = [bb for f, cls, bb in fails if f["id"] == o["id"]]
        ctx.ob("R07-3", body.path, "%s %s before exec" % (o["id"], o["desc"]), not bad,
               key="R07-3|%s|%s" % (body.path, o["id"]), crate=crate.kind)
    # parent side setpgid(child, *pgid) on every parent path to return
    fails_sh, n2 = m.explore(lambda bb: body.term(bb)["k"] == "return", "shell")
    pset = []
    for bb, t, c in body.calls():
        if last_seg(c) == "setpgid":
            a = [body.expand_vars(strip_sites(x)) for x in body.call_args(bb)]
            from_child = any(sub[0] == "downcast" and sub[1] == "Parent" for sub in mir.subexprs(a[0]))
            grp = len(a) > 1 and (a[1] == strip_sites(m.s.pgid) or any(
                sub[0] == "downcast" and sub[1] == "Parent" for sub in mir.subexprs(a[1])))
            if from_child and grp:
                pset.append(bb)
    parent_entry = None
    for bb in sorted(body.reachable):
        for tgt, atom, val in body.switch_edges(bb):
            if atom[0] == "discr" and val == "Parent":
                parent_entry = tgt
    ok7 = bool(pset) and parent_entry is not None and flow.must_pass(body, parent_entry, set(pset), set(body.exits()))
    ctx.ob("R07-7", body.path, "parent calls setpgid(child, *pgid) on every path after fork", ok7,
           key="R07-7|%s|parent-setpgid" % body.path, crate=crate.kind,
           detail=None if ok7 else "race: stage i+1 can call setpgid(0, pgid) before stage 0 has made itself group leader; "
                                   "the call fails and that stage stays in the shell's process group")
    # parent: *pgid = child pid for stage 0
    ok = False
    for bi, si, s in body.stmts():
        if s["k"] == "assign" and s["place"]["p"] == ["deref"] and body.locals[s["place"]["l"]]["ty"] == "&mut i32":
            e = body.expand_vars(strip_sites(body.rvalue_expr(s["rv"])))
            from_child = any(sub[0] == "downcast" and sub[1] == "Parent" for sub in mir.subexprs(e))
            facts = dom_facts(body, bi)
            z = any(plumb.eval_linear(m.s, a, {"rel": "LT", "zero": "Z"}) is v and
                    plumb.eval_linear(m.s, a, {"rel": "LT", "zero": "P"}) is (not v) for a, v in facts
                    if isinstance(v, bool) and plumb.eval_linear(m.s, a, {"rel": "LT", "zero": "Z"}) is not None)
            if from_child and z:
                ok = True
    ctx.ob("R07-3", body.path, "parent stores the first stage's pid into *pgid (the pipeline's group)", ok,
           key="R07-3|%s|pgid-store" % body.path, crate=crate.kind)


def mask_rule(ctx, crate):
    body = crate.fn("shell::give_terminal_to")
    if not ctx.require(body is not None, "R07-4", "R07-4|anchor", "shell::give_terminal_to not found"):
        return
    ctx.analysed(body)
    tc = flow.find_calls(body, "tcsetpgrp")
    sm = [(bb, const_int(body.call_args(bb)[0])) for bb in flow.find_calls(body, "pthread_sigmask", "sigprocmask")]
    adds = {}
    for bb in flow.find_calls(body, "sigaddset"):
        a = body.call_args(bb)
        if len(a) == 2 and const_int(a[1]) is not None:
            adds[const_int(a[1])] = bb
    if not ctx.require(len(tc) == 1 and len(sm) >= 2, "R07-4", "R07-4|%s|anchor2" % body.path,
                       "expected one tcsetpgrp and two sigmask calls", body.path):
        return
    t = tc[0]
    blocks = [bb for bb, how in sm if how == 0]     # SIG_BLOCK = 0 on linux
    restores = [bb for bb, how in sm if how == 2]   # SIG_SETMASK = 2
    need = {20: "SIGTSTP", 21: "SIGTTIN", 22: "SIGTTOU", 17: "SIGCHLD"}
    blocked = bool(blocks) and all(body.dominates(b, t) for b in blocks[:1])
    allsigs = all(sig in adds and blocks and body.dominates(adds[sig], blocks[0]) for sig in need)
    ctx.ob("R07-4", body.path, "SIG_BLOCK of {SIGTSTP, SIGTTIN, SIGTTOU, SIGCHLD} dominates tcsetpgrp", blocked and allsigs,
           key="R07-4|%s|block" % body.path, where=body.loc(t), crate=crate.kind,
           detail="signals added: %s" % sorted(adds))
    restored = bool(restores) and flow.must_pass(body, body.succs[t][0], set(restores), set(body.exits()))
    # the restore uses the mask saved by the block call
    same = False
    if blocks and restores:
        a_blk = body.call_args(blocks[0])
        a_res = body.call_args(restores[0])
        if len(a_blk) == 3 and len(a_res) == 3:
            same = mir.root_local_expr(a_blk[2]) is not None and mir.root_local_expr(a_blk[2]) == mir.root_local_expr(a_res[1])
    ctx.ob("R07-4", body.path, "SIG_SETMASK(saved mask) on every path after tcsetpgrp", restored and same,
           key="R07-4|%s|restore" % body.path, where=body.loc(t), crate=crate.kind)


def main_rule(ctx, crate):
    m = crate.fn("main")
    if not ctx.require(m is not None, "R07-5", "R07-5|anchor", "main not found"):
        return
    ctx.analysed(m)
    reads = flow.find_calls(m, "read_line")
    polls = set(flow.find_calls(m, "try_wait_bg_jobs"))
    if not ctx.require(len(reads) == 1 and polls, "R07-5", "R07-5|main|anchor2",
                       "expected one read_line call and at least one try_wait_bg_jobs call in main", "main"):
        return
    starts = []
    for bb in sorted(m.reachable):
        for tgt, atom, val in m.switch_edges(bb):
            if atom[0] == "discr" and val == "Input":
                starts.append(tgt)
    if not ctx.require(len(starts) == 1, "R07-5", "R07-5|main|input-arm", "no Input(line) arm in main", "main"):
        return
    ok = flow.must_pass(m, starts[0], polls, {reads[0]})
    ctx.ob("R07-5", "main", "try_wait_bg_jobs before the next read_line on every path of the Input arm", ok,
           key="R07-5|main|poll", where=m.loc(starts[0]), crate=crate.kind)


def resume_rule(ctx, crate):
    for fn_, target in (("builtins::fg::run", "wait_fg_job"), ("builtins::bg::run", "mark_job_as_running")):
        b = crate.fn(fn_)
        if b is None:
            ctx.require(crate.kind != "bin", "R07-6", "R07-6|anchor|%s" % fn_, "%s not found" % fn_)
            continue
        ctx.analysed(b)
        tg = [bb for bb, t, c in b.calls() if last_seg(c) == target]
        kills = []
        for bb, t, c in b.calls():
            if last_seg(c) in ("killpg", "kill"):
                a = b.call_args(bb)
                if len(a) == 2 and const_int(a[1]) == 18:      # SIGCONT
                    kills.append(bb)
        if not ctx.require(len(tg) >= 1, "R07-6", "R07-6|%s|target" % fn_, "no %s call in %s" % (target, fn_), fn_):
            continue
        # every path from entry to the target passes a SIGCONT killpg
        ok = bool(kills) and flow.must_pass(b, 0, set(kills), set(tg))
        # and the signalled group is the job's gid (field gid of the looked-up job)
        gid_ok = all(any(flow.is_field_named(s, "gid") for s in mir.subexprs(b.expand_vars(strip_sites(b.call_args(k)[0]))))
                     for k in kills) if kills else False
        # ... and not only on the way to the target: once the job has been found, no path leaves the builtin
        # without the signal (an `already running` shortcut in front of it trusts a status that can be stale)
        found_edges = []
        for bb in sorted(b.reachable):
            for tgt, atom, val in b.switch_edges(bb):
                if val == "Some" and atom[0] == "discr":
                    if flow.backward(b, atom[1], lambda z: z[0] == "call" and last_seg(z[1]).startswith("get_job"),
                                     through_containers=False) is not None:
                        found_edges.append(tgt)
        rets = {bb for bb in b.reachable if b.term(bb)["k"] == "return"}
        if found_edges and kills:
            # blocks reachable from `job found` without passing the signal; a branch on the job's recorded status in
            # there decides whether the signal is sent at all (a failing system call may still leave early)
            reach, todo = set(), list(found_edges)
            while todo:
                x = todo.pop()
                if x in reach or x in kills:
                    continue
                reach.add(x)
                todo.extend(b.succs[x])
            status_branch = False
            for x in reach:
                for tgt, atom, val in b.switch_edges(x):
                    if any(flow.is_field_named(sub, "status") for sub in mir.subexprs(b.expand_vars(strip_sites(atom)))):
                        status_branch = True
            always = not (status_branch and any(r in reach for r in rets))
            ctx.ob("R07-6", fn_, "once the job is found, every path out of %s passes killpg(.., SIGCONT)" % last_seg(fn_.rsplit("::", 1)[0]),
                   always, key="R07-6|%s|sigcont-before-any-return" % fn_, where=b.loc(found_edges[0]), crate=crate.kind,
                   detail=None if always else "a return is reachable before the signal (an early `already in background` / "
                   "status test): a member stopped from outside while the table still says Running is never continued")
        ctx.ob("R07-6", fn_, "killpg(job.gid, SIGCONT) on every path to %s" % target, ok and gid_ok,
               key="R07-6|%s|sigcont" % fn_, where=b.loc(tg[0]), crate=crate.kind,
               detail=None if ok else "a member stopped from outside stays stopped while its job is (fore)ground: the recorded "
                                      "job status is only updated at the next prompt-time poll")
