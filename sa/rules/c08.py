"""C08 - no descriptor leaks, in the shell or into children."""
from .. import fdstate, mir, plumb
from ..mir import last_seg

EXPLANATION = ("C08: descriptor ownership decided on every return path (including pipe()/fork failure paths "
               "that no test drives) and before every exec: scalar descriptors by a typestate per creation "
               "site, vector-held pipes and the optional capture / here-string pipes by must-call obligations "
               "with guards evaluated over abstract worlds (index vs pipe count, capture flag, presence).")

FD_SCOPE = [
    "builtins::utils::_get_std_fds", "builtins::utils::_get_dupped_stdout_fd",
    "builtins::utils::_get_dupped_stderr_fd", "builtins::utils::print_stdout",
    "builtins::utils::print_stderr", "builtins::minfd::run",
]
FLOOR_SOURCES = 9


def run(ctx):
    ctx.rule("R08-1", "every descriptor a source call hands out (dup, open, create_raw_fd_from_file, "
                      "_get_std_fds components, ...) is closed, wrapped in a File, returned, or proven absent "
                      "on every path to a return of its function")
    ctx.rule("R08-2", "on every shell-process return of run_single_program: close(pipes[idx].1) unless last "
                      "stage; close(pipes[idx-1].0) unless first; capture pipes (close .1, wrap .0) when last "
                      "stage and capturing; here-string pipe (close .0, wrap .1) when present")
    ctx.rule("R08-3", "after creation, every return of run_pipeline either releases all of `pipes` or goes "
                      "through the complete stage loop; capture pipes created there are released or delegated")
    ctx.rule("R08-4", "at execve / builtin-in-subprocess no non-CLOEXEC descriptor is still owned by the child: "
                      "adjacent pipe ends closed after dup2, later pipes closed, capture pipes closed in every "
                      "stage, here-string ends closed, every dup() result used as a dup2 source closed")
    ctx.rule("R08-6", "descriptors a redirection helper hands to the child are close-on-exec: create_raw_fd_from_file returns "
                      "only descriptors obtained from std's File (opened with O_CLOEXEC), never a dup / dup2 / fcntl / pipe "
                      "result - the child dup2()s the value onto 1 or 2 and does not close the original")
    ctx.rule("R08-5", "no operation names a pipe end the shell already released at an earlier stage "
                      "(pipes[idx-1].1, closed by P1 of the previous stage) while a descriptor created since - the "
                      "here-string pipe - is live: the number may have been reused, and the operation hits the newer "
                      "descriptor (the child loses its here-string; the shell then writes into a pipe without reader "
                      "and is killed by SIGPIPE)")
    for crate in ctx.crates:
        cloexec_rule(ctx, crate)
        scalar_rule(ctx, crate)
        body = crate.fn("core::run_single_program")
        pl = crate.fn("core::run_pipeline")
        if not ctx.require(body is not None and pl is not None, "R08-2", "R08-2|anchor",
                           "core::run_single_program / core::run_pipeline not found"):
            continue
        ctx.analysed(body)
        ctx.analysed(pl)
        pm = plumb.PipelineModel(crate, pl)
        if not ctx.require(pm.ok(), "R08-3", "R08-3|anchor|model",
                           "cannot identify the pipe vector / capture pipes / creation and stage loops in run_pipeline"
                           + ("" if pm.creation_loop is not None or pm.pipes is None else
                              ": the stage pipes are not created by a loop whose failure path closes the pipes already "
                              "created, so a pipe() failing part-way (descriptor exhaustion) may leak the earlier ones"),
                           pl.path):
            continue
        lem = pm.verify_lemmas()
        ctx.ob("R08-3", pl.path, "lemma L3: capture pipes are created only under the capture flag, which is "
                                 "what options.capture_output carries", lem["L3"],
               key="R08-3|%s|lemma-L3" % pl.path, crate=crate.kind)
        shapes = {sid: ok for sid, ok, d, w in pm.check_shapes()}
        ctx.ob("R08-3", pl.path, "lemma: pipes.len()+1 == length whenever creation did not fail "
                                 "(creation loop bound and push shape)",
               shapes.get("creation-bound", False) and shapes.get("creation-push", False),
               key="R08-3|%s|lemma-count" % pl.path, crate=crate.kind)
        ctx.ob("R08-3", pl.path, "stage loop complete: 0..length, single exit, run_single_program on every iteration",
               all(shapes.get(k, False) for k in ("stage-bound", "stage-single-exit", "stage-call")),
               key="R08-3|%s|stage-loop" % pl.path, crate=crate.kind)
        fails, n = pm.explore()
        ctx.paths_enumerated += n
        seen = set()
        for res, state, cls, bb in fails:
            k = (res, cls)
            if k in seen:
                continue
            seen.add(k)
            ctx.ob("R08-3", pl.path, "%s released on return [%s]" % (res, cls), False,
                   key="R08-3|%s|%s|%s" % (pl.path, res, cls), where=pl.loc(bb), crate=crate.kind,
                   detail="state %s at return" % state)
        if not fails:
            ctx.ob("R08-3", pl.path, "pipes / capture pipes released or delegated at every return", True,
                   crate=crate.kind)

        m = plumb.Model(crate, body)
        if not ctx.require(m.s.ok(), "R08-2", "R08-2|anchor|slots",
                           "cannot identify the plumbing parameters of run_single_program by type", body.path):
            continue
        m.single_builtin_has_no_capture_pipes = lem["L4"]
        obs = m.obligations()
        fails, n = m.explore(lambda bb: body.term(bb)["k"] == "return", "shell")
        ctx.paths_enumerated += n
        report(ctx, crate, body, "R08-2", [o for o in obs if o["region"] == "shell"], fails)
        ex = lambda bb: body.term(bb)["k"] == "call" and last_seg(body.callee(body.term(bb))) in (
            "execve", "try_run_builtin_in_subprocess")
        fails, n = m.explore(ex, "child")
        ctx.paths_enumerated += n
        child_obs = [o for o in obs if o["region"] == "child" and o["id"] in
                     ("K2b", "K3b", "K3c", "K4", "K5a", "K5b", "K5c", "K5d", "K6a", "K6c")]
        report(ctx, crate, body, "R08-4", child_obs, [f for f in fails if f[0]["id"] in {o["id"] for o in child_obs}],
               exitname=lambda bb: last_seg(body.callee(body.term(bb))))
        dup_rule(ctx, crate, body)
        stale_rule(ctx, crate, body, m, "R08-5")


def stale_rule(ctx, crate, body, m, rule):
    """shared with C04 (R04-7)"""
    uses = m.stale_uses()
    if not uses:
        ctx.ob(rule, body.path, "no operation on a pipe end released at an earlier stage", True, crate=crate.kind)
    for bb, op, region, live in uses:
        ctx.ob(rule, body.path, "%s(pipes[idx-1].1) in the %s cannot hit the here-string pipe" % (op, region), not live,
               key="%s|%s|stale %s(pipes[idx-1].1)|%s|here-string live" % (rule, body.path, op, region),
               where=body.loc(bb), crate=crate.kind,
               detail=None if not live else
               "pipes[idx-1].1 was closed by the shell at the previous stage; pipe() for the here-string runs after "
               "that and returns the lowest free numbers, so this call closes here_string.0 before dup2(here_string.0, 0)")


def report(ctx, crate, body, rule, obs, fails, exitname=None):
    bad = {}
    for o, cls, bb in fails:
        k = (o["id"], cls if exitname is None else exitname(bb))
        bad.setdefault(k, bb)
    classes = sorted({k[1] for k in bad}) or []
    for o in obs:
        mine = [(k, bb) for k, bb in bad.items() if k[0] == o["id"]]
        if not mine:
            ctx.ob(rule, body.path, "%s %s on every path" % (o["id"], o["desc"]), True, crate=crate.kind)
        for (oid, cls), bb in sorted(mine):
            ctx.ob(rule, body.path, "%s %s [%s]" % (o["id"], o["desc"], cls), False,
                   key="%s|%s|%s %s|%s" % (rule, body.path, o["id"], o["desc"], cls), where=body.loc(bb),
                   crate=crate.kind)


def scalar_rule(ctx, crate):
    nsrc = 0
    for p in FD_SCOPE:
        b = crate.fn(p)
        if b is None:
            continue
        ctx.analysed(b)
        exits = lambda x, b=b: "return" if b.term(x)["k"] == "return" else None
        counts = {}
        for bb, t, callee in list(b.calls()):
            if not fdstate.is_source(callee):
                continue
            for res in fdstate.analyse_site(b, bb, exits):
                nsrc += 1
                ctx.paths_enumerated += res.states
                d = res.desc()
                n = counts.get(d, 0)
                counts[d] = n + 1
                ok = not res.leaks
                detail = None
                if res.leaks:
                    detail = "still owned at return %s" % b.loc(res.leaks[0][0])
                if ok and res.escapes_to:
                    ok = fdstate.variable_reaches_sink(b, res.escapes_to)
                    detail = "stored in `%s`, which %s a close / File / return" % (
                        res.escapes_to, "reaches" if ok else "never reaches")
                ctx.ob("R08-1", b.path, "%s released on every return path" % d, ok,
                       key="R08-1|%s|%s#%d" % (b.path, d, n), where=b.loc(bb), detail=detail, crate=crate.kind)
    ctx.floor("R08-1", crate, "descriptor source components", nsrc, FLOOR_SOURCES)


def dup_rule(ctx, crate, body):
    """K7: in the child, every dup() result (not close-on-exec) is closed before exec"""
    exits = lambda x: "exec" if (body.term(x)["k"] == "call" and last_seg(body.callee(body.term(x))) in (
        "execve", "try_run_builtin_in_subprocess")) else None
    counts = {}
    for bb, t, callee in list(body.calls()):
        if last_seg(callee) != "dup" or not fdstate.is_source(callee):
            continue
        for res in fdstate.analyse_site(body, bb, exits):
            ctx.paths_enumerated += res.states
            arg = mir.render(body.call_args(bb)[0])
            d = "dup(%s)" % arg
            n = counts.get(d, 0)
            counts[d] = n + 1
            ctx.ob("R08-4", body.path, "K7 %s result closed before exec" % d, not res.leaks,
                   key="R08-4|%s|K7 %s#%d" % (body.path, d, n), where=body.loc(bb), crate=crate.kind,
                   detail=("descriptor survives into the program (exec at %s)" % body.loc(res.leaks[0][0]))
                   if res.leaks else None)


def cloexec_rule(ctx, crate):
    from .. import flow
    b = crate.fn("tools::create_raw_fd_from_file")
    if not ctx.require(b is not None, "R08-6", "R08-6|anchor", "tools::create_raw_fd_from_file not found"):
        return
    ctx.analysed(b)
    NOT_CLOEXEC = ("dup", "dup2", "dup3", "fcntl", "pipe", "pipe2", "socketpair", "open", "openat", "creat")
    bad = None
    n = 0
    for bi, si in b.defs.get(0, []):
        e = b.def_expr(bi, si)
        n += 1
        hit = flow.backward(b, e, lambda z: z[0] == "call" and last_seg(z[1]) in NOT_CLOEXEC and
                            ("libc" in z[1] or "nix" in z[1] or "libs::" in z[1]))
        if hit is not None:
            bad = (bi, mir.short(hit[1]))
    ok = bad is None and n >= 1
    ctx.ob("R08-6", b.path, "every descriptor create_raw_fd_from_file returns comes from a std File (O_CLOEXEC)", ok,
           key="R08-6|%s|not-cloexec" % b.path, where=b.loc(bad[0]) if bad else "", crate=crate.kind,
           detail=None if ok else "%s yields a descriptor without FD_CLOEXEC: after dup2(fd, 1|2) in the child the original "
           "stays open across execve and the program starts with an extra descriptor" % bad[1])
