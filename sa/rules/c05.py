"""C05 - no input crashes or hangs the shell: panic-site inventory with discharge rules (E-PANIC)
and loop progress (E-LOOP)."""
import os
import re

from .. import bounds, flow, mir, refacts
from ..bounds import ZERO, lin
from ..mir import FactWalker, const_int, const_str, last_seg, render, strip_sites
from .c04 import child_region

EXPLANATION = ("C05: every panic-capable site (MIR overflow/bounds/division asserts; unwrap/expect; indexing; "
               "remove/insert/truncate/drain; pow; unreachable!/panic!) in the functions reachable from the "
               "line / script / keystroke entry points inside the anchored files is discharged by a dominating "
               "guard (difference constraints over branch facts), a fact about the regex literal involved, or an "
               "audited table entry with its reason; every loop that is not driven by a finite iterator has a "
               "machine-checked progress argument (no cycle path leaves the exit condition's inputs unchanged). "
               "An undischarged site is a crash on the input that reaches it.")

FILES = {"src/parsers/parser_line.rs", "src/shell.rs", "src/types.rs", "src/calculator/mod.rs", "src/core.rs",
         "src/scripting.rs", "src/highlight.rs", "src/completers/mod.rs", "src/prompt/multilines.rs",
         "src/tools.rs", "src/libs/re.rs", "src/execute.rs"}
ENTRY = ["execute::run_command_line", "scripting::run_script", "scripting::run_lines", "core::run_calculator",
         "tools::extend_bangbang", "shell::trim_multiline_prompts",
         "<completers::CicadaCompleter as lineread::Completer<Term>>::word_start",
         "<completers::CicadaCompleter as lineread::Completer<Term>>::complete",
         "<highlight::CicadaHighlighter as lineread::highlighting::Highlighter>::highlight",
         "<prompt::multilines::EnterFunction as lineread::Function<T>>::execute"]
LIB_ENTRY = ["execute::run_command_line", "scripting::run_script", "scripting::run_lines", "core::run_calculator",
             "tools::extend_bangbang", "shell::trim_multiline_prompts"]

PANIC_CALLS = {"unwrap", "expect", "index", "index_mut", "remove", "insert", "truncate", "drain", "swap_remove",
               "split_at", "pow", "panic", "panic_fmt", "unreachable_display", "panic_explicit", "split_off",
               "unwrap_err", "expect_err", "copy_from_slice", "panic_display", "assert_failed", "insert_str",
               "panic_nounwind", "panic_cannot_unwind", "swap", "split_at_mut", "get_unchecked", "unwrap_unchecked",
               "abs", "div_euclid", "rem_euclid", "next_power_of_two", "next_multiple_of"}

# ---------------------------------------------------------------------------------------------
# audited table: (function path, site description, ordinal) -> reason.  One line each.
# Keys are position-free; a new site in scope that is neither discharged nor listed is reported.
AUDIT = {}


def audit(fn, desc, n, reason, guard=None):
    """guard: optional machine-checked part, callable(body, bb) -> bool"""
    AUDIT[(fn, desc, n)] = (reason, guard)


def guard_len_mirror_gt_index(body, bb):
    """must-fact `v > <index argument>` (or `<index> < v`) for some variable v at the site"""
    args = body.call_args(bb)
    if len(args) < 2:
        return False
    idx = body.expand_vars(strip_sites(args[1]))

    def rel(atom):
        a = body.expand_vars(strip_sites(atom))
        return a[0] == "bin" and a[1] in ("Gt", "Lt", "Ge", "Le") and (a[2] == idx or a[3] == idx)

    facts, n = must_facts(body, bb, (), relevant=rel, cache_key=("mirror", idx))
    for atom, val in facts or ():
        a = body.expand_vars(strip_sites(atom))
        if a[1] == "Gt" and a[3] == idx and a[2][0] == "var" and val is True:
            return True
        if a[1] == "Lt" and a[2] == idx and a[3][0] == "var" and val is True:
            return True
    return False


FLOOR_SITES = 150
FLOOR_LOOPS = 30


def run(ctx):
    ctx.rule("R05-1", "every panic-capable site in scope is discharged: (a) Regex::new(literal) compiles; (b) capture "
                      "group exists and always participates, or is tested; (c) unwrap dominated by is_some/is_ok/"
                      "is_match on the same value; (d) index / remove / slice bound derivable from dominating "
                      "comparisons or the loop range; (e) subtraction dominated by the needed lower bound; (f) small "
                      "constant increments of usize counters; (g) divisor known non-zero; (h) audited table entry")
    ctx.rule("R05-2", "every natural loop in scope is driven by a finite iterator, or is listed with its progress "
                      "argument and no cycle path leaves every variable of its exit conditions unmodified")
    ctx.rule("R05-3", "index spaces: a character count (counter of chars().enumerate(), chars().count()) is never used as "
                      "a byte offset (indexing as_bytes(), slicing a str, String::insert/remove/truncate, the word "
                      "start handed to the line editor) unless a running correction adds len_utf8()-1 for every "
                      "character that is not a known ASCII constant - otherwise the offset lands inside a multi-byte "
                      "character and the slice panics")
    ctx.rule("R05-5", "the audited unwrap of parse::<f64>() in the float evaluator rests on the grammar: every literal the "
                      "rule `num` accepts parses as f64 (bounded exhaustive evaluation of the grammar, see C19 R19-5)")
    ctx.rule("R05-4", "self-referential variable values: text read from the environment inside expand_env is not fed "
                      "back into the pass's own `$` scanner (same analysis as C10 R10-1)")
    for crate in ctx.crates:
        entry = ENTRY if crate.kind == "bin" else LIB_ENTRY
        present = [e for e in entry if e in crate.bodies]
        ctx.require(len(present) >= len(LIB_ENTRY), "R05-1", "R05-1|%s|entries" % crate.kind,
                    "entry points missing: %s" % sorted(set(entry) - set(present)))
        reach = crate.reachable_from(present)
        scope = [crate.bodies[p] for p in sorted(reach)
                 if crate.bodies[p].file() in FILES and crate.bodies[p].kind in ("fn", "closure")]
        nsites = panic_rule(ctx, crate, scope)
        ctx.floor("R05-1", crate, "panic-capable sites inventoried", nsites, FLOOR_SITES if crate.kind == "bin" else 120)
        nloops = loop_rule(ctx, crate, scope)
        ctx.floor("R05-2", crate, "loops classified", nloops, FLOOR_LOOPS)
        from .. import ispace, taint
        ni = ispace.rule(ctx, crate, "R05-3", sorted(p for p, b in crate.bodies.items() if b.kind in ("fn", "closure")),
                         panicking_only=True)
        ctx.floor("R05-3", crate, "index-space obligations", ni, 1 if crate.kind == "bin" else 0)
        try:
            from .. import pest as _pest
            from .c19 import num_syntax_rule
            _g = _pest.Grammar(os.path.join(ctx.root, "src", "calculator", "grammar.pest"))
            num_syntax_rule(ctx, crate, _g, "R05-5")
        except Exception as _e:   # fail closed
            ctx.require(False, "R05-5", "R05-5|grammar", "cannot evaluate the calculator grammar: %s" % str(_e)[:120])
        from .c10 import rescan_rule
        ee = crate.fn("shell::expand_env")
        if ctx.require(ee is not None, "R05-4", "R05-4|anchor", "shell::expand_env not found"):
            rescan_rule(ctx, crate, ee, taint.dollar_scanners(crate), rule="R05-4")


# =============================================================================================
def site_desc(body, bb):
    t = body.term(bb)
    tb = {}
    if t["k"] == "assert":
        ops = [mir.render_key(body.expand_vars(strip_sites(body.operand_expr(o))), tb) for o in t["ops"]]
        return "assert %s(%s)" % (t["kind"], ", ".join(o[:60] for o in ops))
    callee = body.callee(t)
    args = [mir.render_key(strip_sites(a), tb)[:60] for a in body.call_args(bb)]
    return "%s(%s)" % (mir.short(callee), ", ".join(args))


def must_facts(body, bb, key_exprs, relevant=None, cache_key=None):
    """facts that hold on every path from the function entry to block bb, restricted to relevant atoms
    (default: atoms that mention one of key_exprs)"""
    keys = set(key_exprs)
    _MF_CACHE = body.crate.__dict__.setdefault("_c05_mf", {})
    ck = (body.path, cache_key if cache_key is not None else frozenset(keys))
    cached = _MF_CACHE.get(ck)
    if cached is not None:
        r = cached.get(bb)
        return (set(r[0]) if r is not None else set()), (r[1] if r is not None else 0)

    if relevant is None:
        def relevant(atom):
            for sub in mir.subexprs(atom):
                if sub in keys:
                    return True
            return False

    w = FactWalker(body, relevant)
    try:
        states = w.run(0)
    except OverflowError:
        return None, 0
    table = {}
    for x, facts in states:
        r = table.get(x)
        if r is None:
            table[x] = [set(facts), 1]
        else:
            r[0] &= facts
            r[1] += 1
    _MF_CACHE[ck] = table
    r = table.get(bb)
    return (set(r[0]) if r is not None else set()), (r[1] if r is not None else 0)



def term_component(body, goal_terms):
    """terms connected to the goal terms through the comparison atoms the function branches on"""
    _TG_CACHE = body.crate.__dict__.setdefault("_c05_tg", {})
    k = body.path
    g = _TG_CACHE.get(k)
    if g is None:
        g = []
        for bb in sorted(body.reachable):
            for tgt, atom, val in body.switch_edges(bb):
                ea = body.expand_vars(atom)
                ts = bounds.atom_terms(atom) | bounds.atom_terms(ea)
                ia = inline_pred(body.crate, ea)
                if ia is not None:
                    ts |= bounds.atom_terms(ia)
                if ts:
                    g.append(frozenset(ts))
        _TG_CACHE[k] = g
    comp = set(goal_terms)
    changed = True
    while changed:
        changed = False
        for ts in g:
            if ts & comp and not ts <= comp:
                comp |= ts
                changed = True
    return comp




def key_subexprs(*exprs):
    out = set()
    for e in exprs:
        for sub in mir.subexprs(strip_sites(e)):
            if sub[0] in ("var", "param", "capture"):
                out.add(sub)
            elif sub[0] == "call" and len(sub) > 3:
                out.add(sub)
    return out


def mutated_between(body, src_bb, dst_bb, local):
    """may `local` be assigned / mutably borrowed on a path src_bb -> ... -> dst_bb (both exclusive)?"""
    fwd = set()
    st = list(body.succs[src_bb])
    while st:
        x = st.pop()
        if x in fwd:
            continue
        fwd.add(x)
        if x != dst_bb:
            st.extend(body.succs[x])
    bwd = set()
    st = list(body.preds[dst_bb])
    while st:
        x = st.pop()
        if x in bwd:
            continue
        bwd.add(x)
        if x != src_bb:
            st.extend(body.preds[x])
    for x in (fwd & bwd) - {src_bb, dst_bb}:
        if local in body.assigned_vars_in_block(x):
            return True
    return False


def range_facts(body, e, at_bb=None):
    """implicit constraints of loop variables: i from a..b  =>  a <= i < b ;
    enumerate() index  =>  0 <= i < len(seq).  returns list of (x, y, k) meaning x <= y + k"""
    out = []
    e = strip_sites(e)
    for sub in mir.subexprs(e):
        # (next(iter) as Some).0  [ .0 for enumerate ]
        if sub[0] == "field" and sub[2][0] == "downcast" and sub[2][1] == "Some":
            nx = sub[2][2]
            if nx[0] == "call" and last_seg(nx[1]) == "next" and nx[2]:
                it = nx[2][0]
                src = body.expand_vars(it)
                rng = flow.backward(body, src, lambda z: z[0] == "agg" and z[1].endswith("Range::Range"))
                if rng is not None and not _mentions_call(src, ("enumerate", "rev", "map", "skip", "step_by")):
                    lo, hi = lin(rng[2][0]), lin(rng[2][1])
                    x = lin(sub)
                    stale = False
                    if hi and hi[0] != ZERO and hi[0][0] in ("len", "chars") and len(nx) > 3:
                        # `0..v.len()` is evaluated once: v must not change inside the loop
                        rl = mir.root_local_expr(hi[0][1])
                        for h2, blocks2 in body.loops().items():
                            if nx[3] in blocks2 and rl is not None and any(
                                    rl in body.assigned_vars_in_block(x2) for x2 in blocks2):
                                stale = True
                    if lo and hi and not stale:
                        out.append((lo, x, 0))
                        out.append((x, hi, -1))
        if sub[0] == "field" and sub[1] == 0 and sub[2][0] == "field" and sub[2][2][0] == "downcast" and \
                sub[2][2][1] == "Some":
            nx = sub[2][2][2]
            if nx[0] == "call" and last_seg(nx[1]) == "next" and nx[2]:
                src = body.expand_vars(nx[2][0])
                en = flow.backward(body, src, lambda z: z[0] == "call" and last_seg(z[1]) == "enumerate")
                if en is not None and en[2]:
                    seq = en[2][0]
                    x = lin(sub)
                    if seq[0] == "call" and last_seg(seq[1]) == "chars" and seq[2]:
                        out.append((x, (("chars", bounds._peel(strip_sites(seq[2][0]))), 0), -1))
                    elif seq[0] == "call" and last_seg(seq[1]) in ("iter", "into_iter", "iter_mut") and seq[2]:
                        out.append((x, (("len", bounds._peel(strip_sites(seq[2][0]))), 0), -1))
        # binary_search() Ok payload
        if sub[0] == "field" and sub[2][0] == "downcast" and sub[2][1] == "Ok":
            ps = sub[2][2]
            if ps[0] == "call" and last_seg(ps[1]) == "binary_search" and ps[2]:
                seqe = bounds._peel(strip_sites(body.expand_vars(ps[2][0])))
                rl = mir.root_local_expr(seqe)
                if at_bb is None or len(ps) < 4 or rl is None or not mutated_between(body, ps[3], at_bb, rl):
                    out.append((lin(sub), (("len", seqe), 0), -1))
        # position() result
        if sub[0] == "field" and sub[2][0] == "downcast" and sub[2][1] == "Some":
            ps = sub[2][2]
            if ps[0] == "call" and last_seg(ps[1]) in ("position", "rposition") and ps[2]:
                seq = body.expand_vars(ps[2][0])
                if seq[0] == "call" and last_seg(seq[1]) in ("iter", "into_iter", "chars") and seq[2]:
                    kind = "chars" if last_seg(seq[1]) == "chars" else "len"
                    seqe = bounds._peel(strip_sites(seq[2][0]))
                    rl = mir.root_local_expr(seqe)
                    # the bound holds for the sequence as it was when position() ran
                    if at_bb is None or len(ps) < 4 or rl is None or not mutated_between(body, ps[3], at_bb, rl):
                        out.append((lin(sub), ((kind, seqe), 0), -1))
    return out


def inline_pred(crate, atom):
    """a call to a local one-argument predicate whose body is `<arg>.field.is_empty()` (e.g.
    CommandLine::is_empty) -> the is_empty atom on the caller's expression"""
    if atom[0] != "call" or len(atom[2]) != 1:
        return None
    b = crate.fn(atom[1])
    if b is None or b.arg_count != 1:
        return None
    r = strip_sites(b.return_expr())
    if r[0] == "call" and last_seg(r[1]) == "is_empty" and len(r[2]) == 1:
        inner = bounds._peel(r[2][0])
        if inner[0] == "field" and inner[2][0] == "param":
            return ("call", r[1], (("field", inner[1], bounds._peel(atom[2][0]), inner[3]),))
    return None


def _mentions_call(e, names):
    return any(s[0] == "call" and last_seg(s[1]) in names for s in mir.subexprs(e))


def prove(body, bb, goal_x, goal_y, k, extra_exprs=()):
    """goal: x <= y + k at block bb.  x, y are raw expressions or (term, off) pairs"""
    def as_lin(g):
        if isinstance(g, tuple) and len(g) == 2 and isinstance(g[1], int) and not isinstance(g[0], str):
            t = g[0]
            if t != ZERO and t[0] in ("len", "chars"):
                t = (t[0], bounds._peel(body.expand_vars(t[1])))
            return (t, g[1])
        return lin(body.expand_vars(strip_sites(g)))
    X = as_lin(goal_x)
    Y = as_lin(goal_y)
    if X is None or Y is None:
        return False, 0
    if X[0] == Y[0]:
        return X[1] <= Y[1] + k, 0
    goal_terms = {t for t in (X[0], Y[0]) if t != ZERO}
    # terms the loop-range facts talk about are goal terms too
    for t in list(goal_terms):
        for (a, b, kk) in range_facts(body, t if t[0] not in ("len", "chars") else t[1], bb) + range_facts(body, t, bb):
            for tt in (a[0], b[0]):
                if tt != ZERO:
                    goal_terms.add(tt)
    comp = frozenset(term_component(body, goal_terms))

    def relevant(atom):
        ea = body.expand_vars(atom)
        ts = bounds.atom_terms(atom) | bounds.atom_terms(ea)
        ia = inline_pred(body.crate, ea)
        if ia is not None:
            ts |= bounds.atom_terms(ia)
        return bool(ts & comp)

    facts, n = must_facts(body, bb, (), relevant=relevant, cache_key=("terms", comp))
    if facts is None:
        return False, 0
    c = bounds.Constraints()
    for atom, val in facts:
        c.add_fact(body.expand_vars(atom), val)
        c.add_fact(atom, val)
        ia = inline_pred(body.crate, body.expand_vars(atom))
        if ia is not None:
            c.add_fact(ia, val)
    for t in (X[0], Y[0]):
        if t != ZERO:
            for (a, b, kk) in range_facts(body, t if t[0] not in ("len", "chars") else t[1], bb):
                c.add(a, b, kk)
            for (a, b, kk) in range_facts(body, t, bb):
                c.add(a, b, kk)
    for t in [X[0], Y[0]] + list(c.nodes):
        if bounds._is_len_term(t):
            c.nonneg(t)
        if isinstance(t, tuple) and t and t[0] == "chars":
            c.add((t, 0), (("len", t[1]), 0), 0)
        if isinstance(t, tuple) and t and t[0] == "call" and last_seg(t[1]) == "len_utf8":
            c.add((ZERO, 1), (t, 0), 0)       # a char encodes to 1..=4 bytes
            c.add((t, 0), (ZERO, 4), 0)
    c.close()
    return c.holds(X, Y, k), n


def regex_literal_of(body, e):
    """the literal a Regex value was compiled from, following variables"""
    hit = flow.backward(body, e, lambda z: z[0] == "call" and last_seg(z[1]) in ("new",) and "egex" in z[1]
                        and z[2] and const_str(z[2][0]) is not None)
    if hit is not None:
        return const_str(hit[2][0])
    return None


def caps_regex(body, e):
    """for a Captures value: (regex literal, haystack expr) if derivable"""
    hit = flow.backward(body, e, lambda z: z[0] == "call" and last_seg(z[1]) in ("captures", "captures_iter", "next")
                        and "egex" in z[1])
    if hit is None:
        hit = flow.backward(body, e, lambda z: z[0] == "call" and last_seg(z[1]) in ("captures", "captures_iter"))
    if hit is None or not hit[2]:
        return None
    return regex_literal_of(body, hit[2][0])


def panic_rule(ctx, crate, scope):
    n = 0
    child_closures = set()
    rsp = crate.fn("core::run_single_program")
    if rsp is not None:
        cr = child_region(rsp)
        for bi, si, st in rsp.stmts():
            if bi in cr and st["k"] == "assign" and st["rv"]["k"] == "agg" and st["rv"].get("agg") == "closure":
                child_closures.add(st["rv"]["path"])
    for body in scope:
        if body.path in child_closures:
            continue   # only ever runs in the forked child
        ctx.analysed(body)
        child = child_region(body) if body.path == "core::run_single_program" else set()
        counts = {}
        for bb in sorted(body.reachable):
            if bb in child:
                continue   # a panic after fork() does not take the shell down
            t = body.term(bb)
            kind = None
            if t["k"] == "assert":
                kind = "assert"
            elif t["k"] == "call":
                callee = body.callee(t)
                ls = last_seg(callee)
                if ls in PANIC_CALLS and not callee.startswith(("std::collections::HashMap::<K, V, S, A>::insert",
                                                                "std::collections::HashSet", "lineread::")) \
                        and "HashMap::insert" not in mir.short(callee) and "HashSet::insert" not in mir.short(callee) \
                        and "HashMap::remove" not in mir.short(callee) and "HashSet::remove" not in mir.short(callee) \
                        and "OpenOptions::truncate" not in mir.short(callee):
                    kind = "call"
            if kind is None:
                continue
            n += 1
            desc = site_desc(body, bb)
            k = counts.get(desc, 0)
            counts[desc] = k + 1
            ok, why, npaths = discharge(ctx, crate, body, bb)
            ctx.paths_enumerated += npaths
            if not ok:
                ent = AUDIT.get((body.path, desc, k))
                if ent is not None:
                    reason, guard = ent
                    if guard is None or guard(body, bb):
                        ok, why = True, "audited: " + reason
                    else:
                        why = "audited entry's machine-checked guard no longer holds: " + reason
            ctx.ob("R05-1", body.path, desc, ok, key="R05-1|%s|%s#%d" % (body.path, desc, k), where=body.loc(bb),
                   detail=why, crate=crate.kind, nontrivial=not why.startswith("audited"))
    return n


def discharge(ctx, crate, body, bb):
    t = body.term(bb)
    if t["k"] == "assert":
        return discharge_assert(body, bb, t)
    callee = body.callee(t)
    ls = last_seg(callee)
    args = body.call_args(bb)
    sc = mir.short(callee)
    if ls in ("unwrap", "expect", "unwrap_err", "expect_err"):
        return discharge_unwrap(body, bb, args[0], callee)
    if ls in ("index", "index_mut"):
        return discharge_index(body, bb, args, callee)
    if ls == "remove" and ("Vec" in sc or "String" in sc):
        x = args[0]
        kind = "chars" if "String" in sc else "len"
        L = ((kind if kind == "len" else "len", bounds._peel(strip_sites(x))), 0)
        ok, n = prove(body, bb, args[1], L, -1)
        if not ok and "Vec" in sc:
            ok2, why2 = scan_recorded_index(body, x, args[1], need_rev=True)
            if ok2:
                return True, why2, n
        return ok, ("index < len derivable" if ok else "cannot derive index < len for remove"), n
    if ls == "insert" and "Vec" in sc:
        L = (("len", bounds._peel(strip_sites(args[0]))), 0)
        ok, n = prove(body, bb, args[1], L, 0)
        if not ok:
            ie = strip_sites(args[1])
            basei = ie[2] if (ie[0] == "bin" and ie[1] == "Add") else ie
            ok2, why2 = scan_recorded_index(body, args[0], basei, need_rev=True)
            if ok2:
                return True, why2 + "; inserted right after the element at that index was removed", n
        return ok, ("index <= len derivable" if ok else "cannot derive index <= len for insert"), n
    if ls == "truncate" and "String" in sc:
        L = (("len", bounds._peel(strip_sites(args[0]))), 0)
        ok, n = prove(body, bb, args[1], L, 0)
        return ok, ("new_len <= len derivable" if ok else "cannot derive new_len <= len for truncate"), n
    if ls == "drain" and "Vec" in sc:
        rng = strip_sites(args[1])
        if rng[0] == "agg" and rng[1].endswith("Range::Range"):
            L = (("len", bounds._peel(strip_sites(args[0]))), 0)
            ok, n = prove(body, bb, rng[2][1], L, 0)
            ok2, n2 = prove(body, bb, rng[2][0], rng[2][1], 0)
            return ok and ok2, ("range within len derivable" if ok and ok2 else "cannot derive drain range <= len"), n + n2
        return False, "drain with a non-literal range", 0
    if ls == "pow":
        return False, "integer pow overflows (debug profile) for large operands", 0
    if ls in ("abs", "div_euclid", "rem_euclid", "next_power_of_two", "next_multiple_of"):
        if any(k in sc for k in ("f64", "f32")):
            return True, "floating point", 0
        return False, "integer %s inherits the overflow checks of the build: it panics for the minimum value (debug profile); " \
                      "use the checked_ / wrapping_ / unsigned_ form" % ls, 0
    if ls in ("panic", "panic_fmt", "panic_explicit", "unreachable_display", "panic_display", "assert_failed",
              "panic_nounwind", "panic_cannot_unwind"):
        return False, "explicit panic / unreachable! / assert!", 0
    return False, "no discharge rule for %s" % sc, 0


def discharge_assert(body, bb, t):
    kind = t["kind"]
    ops = [body.operand_expr(o) for o in t["ops"]]
    if kind.startswith("other"):
        return True, "pointer alignment / null check on a reference (debug instrumentation)", 0
    if kind == "bounds":
        ok, n = prove(body, bb, ops[1], ops[0], -1)
        return ok, ("index < len derivable" if ok else "cannot derive index < len"), n
    if kind in ("div_zero", "rem_zero"):
        # the assert carries the dividend; the divisor is the right operand of the Div / Rem that follows
        dv = None
        x = bb
        for _ in range(4):
            for st in body.blocks[x]["stmts"]:
                if st["k"] == "assign" and st["rv"]["k"] == "bin" and st["rv"]["op"] in ("Div", "Rem") and dv is None:
                    dv = body.operand_expr(st["rv"]["b"])
            nx = body.succs[x]
            if dv is not None or len(nx) != 1:
                break
            x = nx[0]
        if dv is not None:
            ops = [dv]
        c = const_int(ops[0])
        if c is not None and c != 0:
            return True, "constant non-zero divisor", 0
        d0 = strip_sites(ops[0])
        facts, n = must_facts(body, bb, (), relevant=lambda at: at[0] == "bin" and at[1] in ("Eq", "Ne") and at[2] == d0,
                              cache_key=("div", d0))
        for atom, val in facts or ():
            a = strip_sites(atom)
            if a[0] == "bin" and a[1] in ("Eq", "Ne") and const_int(a[3]) == 0 and strip_sites(a[2]) == strip_sites(ops[0]):
                if (a[1] == "Eq") != bool(val):
                    return True, "divisor tested non-zero", n
        return False, "divisor not known non-zero", n
    if kind.startswith("overflow:"):
        op = kind.split(":")[1]
        a, b = (ops + [None, None])[:2]
        ty = _operand_ty(body, t["ops"][0])
        if op == "Add":
            ca, cb = const_int(a), const_int(b)
            small = (cb is not None and 0 <= cb <= 4) or (ca is not None and 0 <= ca <= 4)
            if small and ty in ("usize", "u64"):
                return True, "small constant increment of a usize counter/length (bounded by memory)", 0
            if small and ty == "i32":
                v = a if cb is not None else b
                if _bounded_counter(body, bb, v):
                    return True, "i32 counter incremented by a small constant inside a loop that leaves at a constant bound", 0
            if ty in ("usize", "u64"):
                # sums of in-memory lengths / byte offsets / indexes: cannot approach 2^64 unless an operand is
                # a number parsed from user text
                if not any(_from_parse(body, x) for x in (a, b)):
                    return True, "sum of lengths/offsets of in-memory data (no operand parsed from text)", 0
            return False, "addition may overflow (%s)" % ty, 0
        if op == "Sub":
            ok, n = prove(body, bb, b, a, 0)
            if not ok and const_int(b) == 1 and _len_inside_own_loop(body, bb, a):
                return True, "len() - 1 inside a loop over the same vector's elements (an element is in hand: len >= 1)", n
            return ok, ("minuend >= subtrahend derivable" if ok else "cannot derive minuend >= subtrahend (usize underflow)"
                        if ty.startswith("u") else "subtraction may overflow (%s)" % ty), n
        if op == "Mul":
            cb = const_int(b)
            if ty in ("usize", "u64") and cb is not None and 0 <= cb <= 8 and not _from_parse(body, a):
                return True, "in-memory length times a small constant", 0
            return False, "multiplication may overflow (%s)" % ty, 0
        if op == "Neg":
            return False, "negation may overflow", 0
        return False, "arithmetic may overflow (%s)" % op, 0
    return False, "unknown assert kind %s" % kind, 0


def _len_inside_own_loop(body, bb, e):
    """e is len(V) and bb lies in the body of a loop that iterates V's elements (after the `Some` edge of its next()),
    V not changed inside that loop"""
    e = body.expand_vars(strip_sites(e))
    if not (e[0] == "call" and last_seg(e[1]) == "len" and e[2]):
        return False
    vexpr = bounds._peel(e[2][0])
    v = mir.root_local_expr(vexpr)
    if v is None:
        # a single-definition local was expanded to its defining expression (`let chars: Vec<char> = line.chars().collect()`)
        for l, loc in enumerate(body.locals):
            if loc["ty"].startswith("std::vec::Vec<") and len(body.defs.get(l, [])) == 1:
                bi, si = body.defs[l][0]
                if si != "T" or True:
                    try:
                        de = bounds._peel(body.expand_vars(strip_sites(body.def_expr(bi, si))))
                    except Exception:
                        continue
                    if de == vexpr:
                        v = l
        if v is None:
            return False
    for h, blocks in body.loops().items():
        if bb not in blocks:
            continue
        for x in blocks:
            t = body.term(x)
            if t["k"] == "call" and last_seg(body.callee(t)) == "next" and body.succs[x]:
                it = body.call_args(x)[0]
                if flow.backward(body, it, lambda z: (z[0] in ("var", "param") and z[1] == v) or
                                 bounds._peel(body.expand_vars(strip_sites(z))) == vexpr, through_containers=False) is None:
                    continue
                if flow.backward(body, it, lambda z: z[0] == "call" and last_seg(z[1]) in ("chain", "once", "repeat", "zip"),
                                 through_containers=False) is not None:
                    continue
                some = [tgt for tgt, atom, val in body.switch_edges(body.succs[x][0]) if val == "Some"]
                if not some or not body.dominates(some[0], bb):
                    continue
                muts = [y for y in blocks if body.term(y)["k"] == "call" and last_seg(body.callee(body.term(y))) in (
                    "clear", "truncate", "pop", "remove", "drain", "retain", "swap_remove", "split_off") and body.call_args(y) and
                    mir.root_local_expr(bounds._peel(body.expand_vars(strip_sites(body.call_args(y)[0])))) == v]
                if not muts:
                    return True
    return False


def _operand_ty(body, op):
    pl = op.get("copy") or op.get("move")
    if pl is not None:
        return pl["ty"]
    c = op.get("const")
    if c is not None:
        return c.get("ty", "")
    return ""


def _from_parse(body, e):
    return flow.backward(body, e, lambda z: z[0] == "call" and last_seg(z[1]) in ("parse", "from_str", "from_str_radix"),
                         through_containers=False) is not None


def _lengthish(body, e):
    e = strip_sites(e)
    for sub in mir.subexprs(e):
        if sub[0] == "call" and last_seg(sub[1]) in ("len", "count", "width"):
            return True
    return e[0] in ("var", "param") or const_int(e) is not None


def _bounded_counter(body, bb, v):
    v = strip_sites(v)
    if v[0] != "var":
        return False
    for h, blocks in body.loops().items():
        if bb not in blocks:
            continue
        for x in blocks:
            for tgt, atom, val in body.switch_edges(x):
                a = strip_sites(atom)
                if tgt not in blocks and a[0] == "bin" and a[1] in ("Ge", "Gt", "Eq") and a[2] == v and \
                        const_int(a[3]) is not None and val is True:
                    return True
    return False


def discharge_unwrap(body, bb, x, callee):
    xs = body.expand_vars(strip_sites(x))
    is_result = "Result" in callee
    # (a) Regex::new(lit).unwrap()
    if xs[0] == "call" and last_seg(xs[1]) == "new" and "egex" in xs[1] and xs[2]:
        lit = const_str(xs[2][0])
        if lit is None:
            lit2 = flow.backward(body, xs[2][0], lambda z: const_str(z) is not None)
            lit = const_str(lit2) if lit2 is not None else None
        if lit is not None:
            info = refacts.info(lit)
            return bool(info.get("ok")), ("regex literal compiles" if info.get("ok") else
                                          "regex literal does not compile: %s" % info.get("error", "")[:80]), 0
        # pattern is a parameter: every caller must pass a literal that compiles
        arg0 = xs[2][0]
        if arg0[0] == "param":
            pidx = arg0[1] - 1
            callers = 0
            for b2 in body.crate.fns():
                for cb, t2, c2 in b2.calls():
                    if c2 == body.path:
                        callers += 1
                        a2 = b2.call_args(cb)
                        l2 = const_str(b2.expand_vars(strip_sites(a2[pidx]))) if pidx < len(a2) else None
                        if l2 is None or not refacts.info(l2).get("ok"):
                            return False, "Regex::new(param): caller %s passes a non-literal or invalid pattern" % b2.path, 0
            if callers:
                return True, "Regex::new(param): all %d callers pass literals that compile" % callers, 0
        return False, "Regex::new of a non-literal pattern", 0
    if xs[0] == "call" and last_seg(xs[1]) == "build" and "egex" in xs[1]:
        lit = flow.backward(body, xs, lambda z: z[0] == "call" and last_seg(z[1]) == "new" and "RegexBuilder" in z[1]
                            and z[2] and const_str(z[2][0]) is not None)
        if lit is not None:
            info = refacts.info(const_str(lit[2][0]))
            return bool(info.get("ok")), "regex literal compiles (builder)", 0
    # (b) caps.get(i).unwrap()
    if xs[0] == "call" and last_seg(xs[1]) == "get" and "Captures" in xs[1] and len(xs[2]) == 2:
        i = const_int(xs[2][1])
        lit = caps_regex(body, xs[2][0])
        if i is not None and lit is not None:
            info = refacts.info(lit)
            al = info.get("always", [])
            if info.get("ok") and i < len(al) and al[i]:
                return True, "group %d of the literal regex participates in every match" % i, 0
    # chars().nth(k).unwrap() with k < chars().count()
    if xs[0] == "call" and last_seg(xs[1]) == "nth" and len(xs[2]) == 2:
        seq = xs[2][0]
        if seq[0] == "call" and last_seg(seq[1]) == "chars" and seq[2]:
            L = (("chars", bounds._peel(seq[2][0])), 0)
            ok, n2 = prove(body, bb, xs[2][1], L, -1)
            if ok:
                return True, "nth(k) with k < chars().count() derivable", n2
    # (c) dominated by a test on the same value

    xp = bounds._peel(xs)

    def rel(atom):
        a = body.expand_vars(strip_sites(atom))
        if a[0] == "discr":
            return a[1] == xs
        if a[0] == "call" and a[2]:
            ls = last_seg(a[1])
            if ls in ("is_some", "is_ok", "is_none", "is_err"):
                return bounds._peel(a[2][0]) == xp
            if ls == "is_match" and xs[0] == "call" and last_seg(xs[1]) == "captures":
                return a[2] == xs[2]
        return False

    facts, n = must_facts(body, bb, (), relevant=rel, cache_key=("unwrap", xs))
    for atom, val in facts or ():
        a = body.expand_vars(strip_sites(atom))
        if a[0] == "call" and a[2] and bounds._peel(a[2][0]) == xp:
            ls = last_seg(a[1])
            if (ls in ("is_some", "is_ok") and val is True) or (ls in ("is_none", "is_err") and val is False):
                return True, "dominated by %s() on the same value" % ls, n
        if a[0] == "discr" and a[1] == xs and val in ("Some", "Ok"):
            return True, "dominated by a match on the same value", n
        # re.captures(s).unwrap() under re.is_match(s)
        if a[0] == "call" and last_seg(a[1]) == "is_match" and val is True and xs[0] == "call" and \
                last_seg(xs[1]) == "captures" and a[2] == xs[2]:
            return True, "captures() under is_match() of the same regex on the same text", n
    # parse::<T>() of text matched by a digit-only regex group is handled by the audit table
    return False, "unwrap/expect of a value not known to be Some/Ok", n


def discharge_index(body, bb, args, callee):
    sc = mir.short(callee)
    base = args[0]
    idx = args[1] if len(args) > 1 else None
    bs = body.expand_vars(strip_sites(base))
    if "Captures" in callee:
        i = const_int(idx)
        lit = caps_regex(body, base)
        if i is not None and lit is not None:
            info = refacts.info(lit)
            al = info.get("always", [])
            if info.get("ok") and i < len(al) and al[i]:
                return True, "group %d of the literal regex participates in every match" % i, 0
            if info.get("ok") and i < info.get("groups", 0):
                # optional group: must be under get(i).is_some / is_none false
                def rel(atom):
                    a = body.expand_vars(strip_sites(atom))
                    return a[0] == "call" and last_seg(a[1]) in ("is_none", "is_some") and a[2] and \
                        a[2][0][0] == "call" and last_seg(a[2][0][1]) == "get"
                facts, n = must_facts(body, bb, (), relevant=rel, cache_key=("capsget",))
                for atom, val in facts or ():
                    a = body.expand_vars(strip_sites(atom))
                    if a[0] == "call" and last_seg(a[1]) in ("is_none", "is_some") and a[2] and a[2][0][0] == "call" \
                            and last_seg(a[2][0][1]) == "get" and const_int(a[2][0][2][1]) == i:
                        if (last_seg(a[1]) == "is_some") == bool(val):
                            return True, "optional group %d tested with get(%d)" % (i, i), n
                return False, "capture group %d does not participate in every match and is not tested" % i, n
        return False, "capture index on a regex that is not a known literal", 0
    if "HashMap" in callee:
        facts, n = must_facts(body, bb, (), relevant=lambda at: at[0] == "call" and last_seg(at[1]) == "contains_key",
                              cache_key=("contains_key",))
        for atom, val in facts or ():
            a = strip_sites(atom)
            if a[0] == "call" and last_seg(a[1]) == "contains_key" and val is True and \
                    body.expand_vars(a[2][0]) == bs:
                return True, "HashMap index under contains_key on the same map", n
        return False, "HashMap index without contains_key", n
    ix = strip_sites(idx)
    kind = "len"
    L = (("len", bounds._peel(strip_sites(base))), 0)
    if ix[0] == "agg" and "Range" in ix[1]:
        # slicing: a..b / a.. / ..b
        nm = ix[1]
        ops = ix[2]
        n_tot = 0
        ok = True
        if nm.endswith("RangeFrom::RangeFrom"):
            r, n1 = prove(body, bb, ops[0], L, 0)
            ok, n_tot = r, n1
        elif nm.endswith("RangeTo::RangeTo"):
            r, n1 = prove(body, bb, ops[0], L, 0)
            ok, n_tot = r, n1
        elif nm.endswith("Range::Range"):
            r1, n1 = prove(body, bb, ops[0], ops[1], 0)
            r2, n2 = prove(body, bb, ops[1], L, 0)
            ok, n_tot = r1 and r2, n1 + n2
        elif nm.endswith("RangeFull::RangeFull"):
            return True, "full range", 0
        else:
            ok = False
        if "str" in sc or "String" in sc or _is_strish(body, base):
            return False, "string slice by byte offsets (char boundary not derivable)%s" % ("" if ok else "; bound not derivable"), n_tot
        return ok, ("slice bounds derivable" if ok else "cannot derive slice bounds"), n_tot
    ok, n = prove(body, bb, idx, L, -1)
    if not ok:
        ok2, why2 = scan_recorded_index(body, base, idx, need_rev=False)
        if ok2:
            return True, why2, n
        if const_int(idx) == 0:
            be = bounds._peel(body.expand_vars(strip_sites(base)))
            if be[0] == "field" and mir.field_name(be) == "tokens":
                inv, nsites = command_tokens_nonempty(body.crate)
                if inv:
                    return True, "Command.tokens is non-empty by construction (all %d Command literals are built " \
                                 "under !tokens.is_empty())" % nsites, n
    return ok, ("index < len derivable" if ok else "cannot derive index < len"), n


def scan_recorded_index(body, vec_expr, idx_expr, need_rev):
    """idx_expr is an index recorded by this function's own scan over the same vector:
    a counter starting at 0, incremented once per scanned element, stored (before the increment) into an
    edit list that the current loop walks (in reverse when the loop changes the vector's length)."""
    ie = body.expand_vars(strip_sites(idx_expr))
    nexts = [sub for sub in mir.subexprs(ie) if sub[0] == "call" and last_seg(sub[1]) == "next" and sub[2]]
    vroot = mir.root_local_expr(bounds._peel(body.expand_vars(strip_sites(vec_expr))))
    if vroot is None:
        return False, "indexed value is not a variable"
    for nx in nexts:
        src = nx[2][0]
        cont = flow.backward(body, src, lambda z: z[0] == "var" and body.locals[z[1]]["ty"].startswith(
            ("std::vec::Vec<(usize", "std::collections::HashMap<usize")), through_containers=False)
        if cont is None:
            continue
        if need_rev and flow.backward(body, src, lambda z: z[0] == "call" and last_seg(z[1]) == "rev",
                                      through_containers=False) is None:
            return False, "edits that change the length are not applied in descending index order (no .rev())"
        keys = []
        for bb2, t2, c2 in body.calls():
            ls = last_seg(c2)
            if ls in ("push", "insert"):
                a = body.call_args(bb2)
                if a and mir.root_local_expr(a[0]) == cont[1]:
                    if ls == "push" and len(a) == 2:
                        v = strip_sites(a[1])
                        keys.append((bb2, v[2][0] if v[0] == "agg" and v[1] == "tuple" and v[2] else v))
                    elif ls == "insert" and len(a) == 3:
                        keys.append((bb2, strip_sites(a[1])))
        if not keys:
            return False, "nothing is recorded into the edit list"
        from ..editlist import enumerate_position
        if all(enumerate_position(body, k, vroot) == "exact" for bb2, k in keys):
            return True, "index is the position enumerate() reported for an element of the same vector, applied %s" % (
                "in descending order" if need_rev else "without length change")
        cvars = {k[1] for bb2, k in keys if k[0] == "var"}
        if len(cvars) != 1 or any(k[0] != "var" for bb2, k in keys):
            return False, "recorded index is not a single counter variable"
        cv = cvars.pop()
        incs = []
        for bi, si in body.defs.get(cv, []):
            e = strip_sites(body.def_expr(bi, si))
            if const_int(e) == 0:
                continue
            if e[0] == "bin" and e[1] == "Add" and e[2][0] == "var" and e[2][1] == cv and const_int(e[3]) == 1:
                incs.append(bi)
            else:
                return False, "counter has an assignment other than 0 / += 1"
        # the scan loop
        for h, blocks in body.loops().items():
            if not incs or not all(i in blocks for i in incs) or not all(kb in blocks for kb, k in keys):
                continue
            # the step of THIS loop: a next() over the scanned vector that no inner loop contains
            nb = None
            for x in sorted(blocks):
                tx = body.term(x)
                if tx["k"] == "call" and last_seg(body.callee(tx)) == "next" and not any(
                        x in bl2 and len(bl2) < len(blocks) for bl2 in body.loops().values()):
                    it = body.expand_vars(strip_sites(body.call_args(x)[0]))
                    if flow.backward(body, it, lambda z: z[0] in ("var", "param") and z[1] == vroot,
                                     through_containers=False) is not None:
                        nb = x
            if nb is None:
                continue
            some_t = [tgt for tgt, atom, val in body.switch_edges(body.succs[nb][0]) if val == "Some"]
            if not some_t:
                continue
            if not flow.must_pass(body, some_t[0], set(incs), {h}, within=blocks):
                return False, "a path through the scan loop does not increment the counter"
            back = set(body.back_edges())
            for i in incs:
                seen = set()
                st = [x for x in body.succs[i] if (i, x) not in back]
                while st:
                    x = st.pop()
                    if x in seen or x not in blocks:
                        continue
                    seen.add(x)
                    st.extend(y for y in body.succs[x] if (x, y) not in back)
                if seen & set(incs):
                    return False, "counter may be incremented twice for one element"
                if seen & {kb for kb, k in keys}:
                    return False, "index is recorded after the counter was incremented"
            return True, "index recorded by the scan over the same vector (counter `%s`), applied %s" % (
                body.names.get(cv, "_%d" % cv), "in descending order" if need_rev else "without length change")
    return False, "index does not come from an edit list filled by a scan of the same vector"


def _enumerate_position(body, k, vroot):
    """k is `(it.next() as Some).0.0` of an Enumerate over the vector `vroot`: the position of the element in hand"""
    k = body.expand_vars(strip_sites(k))
    if not (k[0] == "field" and k[1] == 0 and k[2][0] == "field" and k[2][1] == 0):
        return False
    d = k[2][2]
    if not (d[0] == "downcast" and d[1] == "Some"):
        return False
    c = d[2]
    while c[0] == "field" and c[1] == 0:
        c = c[2]
    if not (c[0] == "call" and last_seg(c[1]) == "next" and "Enumerate" in c[1] and c[2]):
        return False
    it = c[2][0]
    if flow.backward(body, it, lambda z: z[0] == "call" and last_seg(z[1]) in (
            "skip", "rev", "step_by", "filter", "skip_while", "zip", "chain", "filter_map", "flat_map", "peekable"),
            through_containers=False) is not None:
        return False                # positions of a shifted / thinned view are not positions in the vector
    return flow.backward(body, it, lambda z: z[0] in ("var", "param") and z[1] == vroot, through_containers=False) is not None


def command_tokens_nonempty(crate):
    """constructor invariant: every Command { tokens, .. } literal is built from a token list known non-empty"""
    r = crate.__dict__.get("_c05_cmdinv")
    if r is not None:
        return r
    sites = 0
    ok = True
    for b in crate.fns():
        for bi, si, st in b.stmts():
            if st["k"] == "assign" and st["rv"]["k"] == "agg" and st["rv"].get("adt", "").endswith("types::Command"):
                sites += 1
                fields = st["rv"]["fields"]
                tv = strip_sites(b.operand_expr(st["rv"]["ops"][fields.index("tokens")]))

                def rel(atom, tv=tv, b=b):
                    a = b.expand_vars(strip_sites(atom))
                    return a[0] == "call" and last_seg(a[1]) == "is_empty" and a[2] and bounds._peel(a[2][0]) == bounds._peel(b.expand_vars(tv))
                facts, n = must_facts(b, bi, (), relevant=rel, cache_key=("cmdinv", tv))
                if not any(v is False for a, v in facts or ()):
                    ok = False
    r = (ok and sites >= 1, sites)
    crate.__dict__["_c05_cmdinv"] = r
    return r


def _is_strish(body, e):
    e = strip_sites(e)
    l = mir.root_local_expr(e)
    if l is None:
        return False
    ty = body.locals[l]["ty"].replace("&mut ", "").replace("&", "").strip()
    return ty in ("str", "std::string::String")


# =============================================================================================
FINITE_ITER = ("next", "next_back")


def _both_positions_none(facts):
    n = sum(1 for a, v in facts if a[0] == "discr" and v == "None" and a[1][0] == "call"
            and last_seg(a[1][1]) == "position")
    return n >= 2


def _no_capture_iteration(facts):
    # re.is_match(text) held on this path, so re.captures_iter(text) cannot be empty
    # (the is_match=False exit is part of the loop's table key; the fact itself is killed by `_token = _tail`)
    return any(a[0] == "discr" and v == "None" and a[1][0] == "call" and "CaptureMatches" in a[1][1] for a, v in facts)


ALLOW = {"stutter-unless-no-match": _both_positions_none, "stutter-unless-no-capture": _no_capture_iteration}
LOOP_TABLE = {}


def loop_entry(fn, desc, reason, check="stutter"):
    LOOP_TABLE[(fn, desc)] = (reason, check)


def loop_rule(ctx, crate, scope):
    n = 0
    for body in scope:
        child = child_region(body) if body.path == "core::run_single_program" else set()
        k = 0
        for h, blocks in sorted(body.loops().items()):
            if h in child:
                continue
            n += 1
            exits = [(a, b) for a in sorted(blocks) for b in body.succs[a] if b not in blocks]
            # iterator-driven: an exit edge on next() == None
            it_exit = None
            for a, b in exits:
                for tgt, atom, val in body.switch_edges(a):
                    if tgt == b and atom[0] == "discr" and val == "None" and atom[1][0] == "call" and \
                            last_seg(atom[1][1]) in FINITE_ITER:
                        it_exit = atom[1]
            if it_exit is not None:
                src = body.expand_vars(it_exit[2][0]) if it_exit[2] else ("unknown", "")
                inf = flow.backward(body, src, lambda z: z[0] == "call" and last_seg(z[1]) in ("repeat", "cycle", "repeat_with", "from_fn", "successors"))
                ps = bounds._peel(strip_sites(src))
                rf = ps if (ps[0] == "agg" and ps[1].endswith("RangeFrom::RangeFrom")) else None
                ok = inf is None and rf is None
                ctx.ob("R05-2", body.path, "loop driven by a finite iterator (%s)" % render(src)[:70], ok,
                       key="R05-2|%s|iter-loop#%d" % (body.path, k), where=body.loc(h), crate=crate.kind, nontrivial=False)
                k += 1
                continue
            desc = loop_desc(body, h, blocks, exits)
            ent = LOOP_TABLE.get((body.path, desc))
            if ent is None:
                # the function's loop was audited, but its exit tests are spelled differently now (a flag removed, a
                # condition inverted): the audited reason still names the variant; re-check mechanically that no cycle
                # leaves the inputs of the (new) exit conditions untouched
                same_fn = [(d2, e2) for (f2, d2), e2 in LOOP_TABLE.items() if f2 == body.path and e2[1] == "stutter"]
                n_loops_fn = sum(1 for h2, bl2 in body.loops().items() if not any(
                    atom[0] == "discr" and val == "None" and atom[1][0] == "call" and last_seg(atom[1][1]) in FINITE_ITER
                    for a2 in bl2 for tgt, atom, val in body.switch_edges(a2) if tgt not in bl2))
                if same_fn and n_loops_fn <= len(same_fn):
                    ok, detail, np = stutter_free(body, h, blocks, exits)
                    ctx.paths_enumerated += np
                    if ok:
                        ctx.ob("R05-2", body.path, "loop [%s]: exit tests differ from the audited form, progress re-checked "
                                                   "(%s)" % (desc, same_fn[0][1][0]), True, where=body.loc(h), crate=crate.kind)
                        continue
                ctx.ob("R05-2", body.path, "non-iterator loop [%s] has a listed progress argument" % desc, False,
                       key="R05-2|%s|loop|%s" % (body.path, desc), where=body.loc(h), crate=crate.kind,
                       detail="loop is neither iterator-driven nor in the variant table")
                continue
            reason, check = ent
            if check == "exempt":
                ctx.ob("R05-2", body.path, "loop [%s]: %s" % (desc, reason), True, where=body.loc(h), crate=crate.kind,
                       nontrivial=False)
                continue
            ok, detail, np = stutter_free(body, h, blocks, exits, allow=ALLOW.get(check))
            ctx.paths_enumerated += np
            if ok and check == "fixpoint-guard":
                ok, detail = fixpoint_guarded(body, h, blocks, exits)
            ctx.ob("R05-2", body.path, "loop [%s] cannot stutter (%s)" % (desc, reason), ok,
                   key="R05-2|%s|stutter|%s" % (body.path, desc), where=body.loc(h), crate=crate.kind, detail=detail)
    return n


def fixpoint_guarded(body, h, blocks, exits):
    """rewrite-until-nothing-changes loops (`while gate(x) { x = rewrite(x) }`): the stutter rule takes the result
    of a call for a change, which a rewriter that returns its argument unchanged is not.  Demand the explicit
    test: every in-loop assignment `x = v` to a local the exit conditions read is dominated, inside the loop,
    by the fact `v == x` is false (so a cycle that changes nothing leaves the loop instead)."""
    from .c02 import dom_facts
    locs = {l for l in exit_condition_locals(body, blocks, exits) if l in body.names}
    n = 0
    for bi, si, st in body.stmts():
        if bi not in blocks or st["k"] != "assign" or st["place"]["p"] or st["place"]["l"] not in locs:
            continue
        l = st["place"]["l"]
        v = body.expand_vars(strip_sites(body.rvalue_expr(st["rv"])))
        if v[0] == "var" and v[1] == l:
            continue
        n += 1
        guarded = False
        for a, val in dom_facts(body, bi, within=blocks):
            a2 = strip_sites(a)
            if a2[0] == "call" and last_seg(a2[1]) in ("eq", "ne") and len(a2[2]) == 2:
                want = last_seg(a2[1]) == "ne"
                if val is not want:
                    continue
                x, y = (body.expand_vars(mir.peel(z)) for z in a2[2])
                olds = [z for z in (x, y) if mir.root_local_expr(z) == l and z[0] == "var"]
                news = [z for z in (x, y) if z == v]
                if olds and news:
                    guarded = True
        if not guarded:
            return False, "assignment to `%s` at %s is not guarded by a test that the new value differs from the old" % (
                body.names.get(l), body.loc(bi))
    if n == 0:
        return False, "no assignment to an exit-condition local found in the loop"
    return True, None


_NEG = {"Lt": "Ge", "Ge": "Lt", "Gt": "Le", "Le": "Gt", "Eq": "Ne", "Ne": "Eq"}


def _positive(atom, val):
    """the same condition with a canonical polarity: comparisons are stated positively (`a > b` for `!(a <= b)`),
    `ne(..)` becomes `eq(..)` with the value flipped, whatever trait path the call resolved to"""
    if atom[0] == "bin" and atom[1] in _NEG and val is False:
        return ("bin", _NEG[atom[1]]) + tuple(atom[2:]), True
    if atom[0] == "call" and last_seg(atom[1]) == "ne" and isinstance(val, bool):
        return ("call", "eq") + tuple(atom[2:]), (not val)
    if atom[0] == "call" and last_seg(atom[1]) == "eq":
        return ("call", "eq") + tuple(atom[2:]), val
    return atom, val


def loop_desc(body, h, blocks, exits):
    """position-free description of a loop: its exit conditions"""
    conds = []
    for a, b in exits:
        cs = ["%s=%s" % (mir.render_key(at)[:70], v) for at, v in
              (_positive(strip_sites(atom), val) for tgt, atom, val in body.switch_edges(a) if tgt == b)]
        conds.append(" & ".join(cs) if cs else "always")
    return " | ".join(sorted(set(conds)))[:400]


def exit_condition_locals(body, blocks, exits):
    """locals the loop's exit conditions (and the conditions guarding paths to exits) read"""
    locs = set()
    atoms = []
    for a in blocks:
        for tgt, atom, val in body.switch_edges(a):
            atoms.append(atom)
    for a, b in exits:
        for tgt, atom, val in body.switch_edges(a):
            if tgt == b:
                locs |= mir.locals_in(body.expand_vars(atom)) | mir.locals_in(atom)
    return locs


STUTTER_PURE = mir.PURE_LAST | {"get_mut", "iter", "iter_mut", "any", "all", "position", "as_mut", "first_mut",
                                 "last_mut", "values", "keys", "map", "filter", "rev", "enumerate", "into_iter",
                                 "collect", "format", "must_use", "new", "new_v1", "default", "lock", "try_lock"}


def loop_slice(body, blocks, exits):
    """locals the exit conditions depend on, transitively through assignments inside the loop"""
    dep = {}
    for bb in blocks:
        for st in body.blocks[bb]["stmts"]:
            if st["k"] == "assign":
                l = st["place"]["l"]
                dep.setdefault(l, set()).update(mir.locals_in(strip_sites(body.rvalue_expr(st["rv"]))))
        t = body.term(bb)
        if t["k"] == "call":
            l = t["dest"]["l"]
            for a in body.call_args(bb):
                dep.setdefault(l, set()).update(mir.locals_in(strip_sites(a)))
    S = set(exit_condition_locals(body, blocks, exits))
    work = list(S)
    while work:
        x = work.pop()
        for y in dep.get(x, ()):
            if y not in S:
                S.add(y)
                work.append(y)
    return S


def block_effects(body, bb, S):
    """ordered effects of a block on the tracked locals S:
    ('assign', l, rhs_locals, self_ref_or_impure) / ('mutate', locals)"""
    out = []
    for st in body.blocks[bb]["stmts"]:
        if st["k"] != "assign":
            continue
        l = st["place"]["l"]
        e = strip_sites(body.rvalue_expr(st["rv"]))
        ls = mir.locals_in(e)
        rv = st["rv"]
        if rv["k"] in ("ref", "rawptr") and (rv.get("mut") or rv["k"] == "rawptr"):
            continue
        impure = any(sub[0] == "call" and last_seg(sub[1]) not in STUTTER_PURE for sub in mir.subexprs(e))
        selfref = l in ls and not (e[0] == "var" and e[1] == l)
        if st["place"]["p"]:
            # write into a field / through a reference: the base local changes if the value does
            out.append(("assign", l, ls - {l}, impure))
        else:
            out.append(("assign", l, ls - {l}, impure or selfref))
    t = body.term(bb)
    if t["k"] == "call":
        ls = last_seg(body.callee(t))
        argl = set()
        mutl = set()
        for a in t["args"]:
            e = strip_sites(body.operand_expr(a))
            argl |= mir.locals_in(e)
            pl = a.get("move") or a.get("copy")
            if pl is not None and pl["ty"].startswith("&mut"):
                mutl |= mir.locals_in(body.expand_vars(e)) | mir.locals_in(e)
        impure = ls not in STUTTER_PURE
        out.append(("assign", t["dest"]["l"], argl, impure))
        if impure and mutl:
            out.append(("mutate", mutl))
    return out


def stutter_free(body, h, blocks, exits, allow=None):
    """no cycle path h -> ... -> h leaves every direct input of the exit conditions without a real change.
    A local really changes when it is assigned a value that depends on itself, on the result of a non-pure
    call, or on a local that really changed earlier on the path, or when a non-pure callee gets it by &mut.
    Paths are enumerated with propositional consistency pruning."""
    D = set(exit_condition_locals(body, blocks, exits))
    S = loop_slice(body, blocks, exits)
    if not D:
        return False, "exit conditions read no variable", 0
    back = {(a, b) for a, b in body.back_edges() if b == h}
    w = FactWalker(body, lambda a: True, cut_back_edges=False)
    eff = {}
    bad = []

    def step(bb, st):
        facts, R = st
        e = eff.get(bb)
        if e is None:
            e = block_effects(body, bb, S)
            eff[bb] = e
        if e:
            R2 = set(R)
            for x in e:
                if x[0] == "assign":
                    _, l, deps, strong = x
                    if strong or (deps & R2):
                        R2.add(l)
                    elif not body.blocks[bb]["stmts"] and False:
                        pass
                else:
                    R2 |= x[1]
            R = frozenset(R2 & S) if len(R2) != len(R) else R
        out = []
        for nb, f2 in w.step(bb, facts):
            if nb not in blocks:
                continue
            if (bb, nb) in back:
                if not (R & D) and not (allow is not None and allow(f2)):
                    bad.append((bb, f2))
                continue
            out.append((nb, (f2, R)))
        return out

    try:
        seen = mir.explore(body, h, (frozenset(), frozenset()), step, limit=300000)
    except OverflowError:
        return False, "path limit exceeded (fail closed)", 0
    names = ", ".join(sorted(str(body.names.get(l, "_%d" % l)) for l in D if l in body.names))
    if bad:
        bb, facts = bad[0]
        fs = "; ".join("%s=%s" % (render(a)[:50], v) for a, v in sorted(facts, key=str)[:6])
        return False, "a cycle through %s really changes none of the exit condition's inputs {%s} (path facts: %s)" % (
            body.loc(bb), names, fs), len(seen)
    return True, "every cycle path really changes an input of the exit condition {%s}" % names, len(seen)


from . import c05_tables  # noqa: E402,F401  (fills AUDIT and LOOP_TABLE)
