"""C17 - aliases replace exactly the command word, once."""
from .. import etag, flow, mir
from ..mir import FactWalker, last_seg, render, strip_sites
from .c02 import dom_facts

EXPLANATION = ("C17: decided structurally on all paths of expand_alias: the alias table is consulted only while the "
               "head-of-stage flag is set; the flag is set only initially and after an untagged `|`, and is cleared on "
               "every path that consumes another word (documented exemption: xargs); the words produced from an alias "
               "value are inserted after the scan and never looked up again; unalias removes by exact key and `alias` "
               "lists the table.  Re-creatability of the printed form for values with quotes is not decided.")


def run(ctx):
    ctx.rule("R17-1", "is_alias / get_alias_content are consulted only under is_head; is_head is true only initially and "
                      "after an untagged `|`; every path that consumes another word clears it (exemption: xargs)")
    ctx.rule("R17-2", "tokens produced from an alias value never flow back into the alias lookup; expand_alias runs once per line")
    ctx.rule("R17-3", "unalias removes by exact key; `alias` listing iterates the whole table")
    ctx.rule("R17-4", "`alias n='v'` stores v whatever n looks like: for every name shape the alias builtin accepts, the "
                      "tokenizer treats `n=` as an assignment head (keeps the outer quotes in the token), which is what the "
                      "builtin's `starts with a quote -> unquote once` logic assumes; otherwise a value that begins with a "
                      "quoted word is unquoted twice and truncated.  Both patterns are read from the code and evaluated on "
                      "representative names with the program's regex engine")
    ctx.rule("R17-5", "the alias value replaces the word it was looked up for: expand_alias's position counter advances exactly "
                      "once per token and recorded positions are applied to the vector as scanned (E-EDITLIST)")
    ctx.rule("R17-6", "`alias n=v2` after `alias n=v1` replaces the value: Shell::add_alias stores with an unconditional "
                      "HashMap::insert")
    ctx.rule("R17-7", "the value runs as if it had been typed there: text taken from the alias table reaches the token vector "
                      "only as the tokens parse_line makes of it (operators, quotes and several words inside the value "
                      "act) - never assigned or inserted as one ready-made word, on no path (a `simple value` shortcut "
                      "turns `alias su='sort|uniq'` into a command named sort|uniq)")
    ctx.rule("R17-9", "every head-of-stage word that names an alias is replaced: the place where expand_alias records a "
                      "replacement is guarded by exactly {head position, is_alias / get_alias_content of the word} (and the "
                      "operator / xargs tests) - one more condition (a `being expanded` set, a length or a state test) "
                      "leaves some uses of an alias unexpanded, e.g. `g $(g 1)`")
    ctx.rule("R17-8", "`alias` prints a definition in a form that recreates it: wherever the alias builtin wraps a value in a "
                      "fixed quote character (a format template `q{}q`), the choice of q depends on the value - the place is "
                      "dominated by a test of the value for a quote character.  `alias n='{}'` for every value turns "
                      "`echo 'q s'` into `alias n='echo 'q s''`, which defines something else when fed back")
    for crate in ctx.crates:
        from .c15 import overwrite_rule
        overwrite_rule(ctx, crate, "R17-6", "shell::Shell::add_alias", "aliases")
        from .. import editlist
        n_ = editlist.rule(ctx, crate, "R17-5", ["shell::expand_alias"])
        ctx.floor("R17-5", crate, "alias pass with a token vector", n_, 1)
        name_agreement_rule(ctx, crate)
        b = crate.fn("shell::expand_alias")
        if not ctx.require(b is not None, "R17-1", "R17-1|anchor", "shell::expand_alias not found"):
            continue
        ctx.analysed(b)
        head_rule(ctx, crate, b)
        once_rule(ctx, crate, b)
        retokenized_rule(ctx, crate, b)
        exact_guard_rule(ctx, crate, b)
        printed_form_rule(ctx, crate)
        table_rule(ctx, crate)
        res = etag.run_sites(ctx, "R17-1", crate, fn_filter=lambda p: p == "shell::expand_alias")
        ctx.floor("R17-1", crate, "operator inspections in expand_alias", len(res), 1)


def head_rule(ctx, crate, b):
    lookups = [(bb, last_seg(c)) for bb, t, c in b.calls() if last_seg(c) in ("is_alias", "get_alias_content")]
    if not ctx.require(len(lookups) >= 2, "R17-1", "R17-1|%s|lookups" % b.path, "alias lookups not found", b.path):
        return
    # the flag: a bool variable that dominates the lookup with value True
    flag = None
    for bb, name in lookups:
        facts = dom_facts(b, bb)
        flags = [a for a, v in facts if a[0] == "var" and b.locals[a[1]]["ty"] == "bool" and v is True]
        ctx.ob("R17-1", b.path, "%s is consulted only under the head-of-stage flag" % name, bool(flags),
               key="R17-1|%s|guard|%s" % (b.path, name), where=b.loc(bb), crate=crate.kind,
               detail="guards: " + "; ".join("%s=%s" % (render(a)[:40], v) for a, v in facts if a[0] != "discr"))
        if flags:
            flag = flags[0]
    if flag is None:
        return
    # assignments of the flag
    n_true = 0
    for bi, si in b.defs.get(flag[1], []):
        v = mir.const_bool(b.def_expr(bi, si))
        if v is True:
            from ..etag import derived_facts
            facts = derived_facts(b, [(strip_sites(a_), v_) for a_, v_ in dom_facts(b, bi)], with_dom=True)
            in_loop = any(bi in blocks for h, blocks in b.loops().items())
            if not in_loop:
                ctx.ob("R17-1", b.path, "flag initially true (first word is a command word)", True, crate=crate.kind,
                       nontrivial=False)
                continue
            from ..etag import norm_guard
            pipe = False
            untag = False
            for a, val in facts:
                g = norm_guard(a, val)
                if g is None:
                    continue
                if g[0] == "eq" and g[2] == "|" and g[3] is True:
                    pipe = True
                if g[0] == "is_empty" and g[2] is True:
                    untag = True
            ctx.ob("R17-1", b.path, "flag set again only after an untagged `|`", pipe and untag,
                   key="R17-1|%s|set-true#%d" % (b.path, n_true), where=b.loc(bi, si), crate=crate.kind)
            n_true += 1
        elif v is None:
            ctx.ob("R17-1", b.path, "flag is only assigned constants", False,
                   key="R17-1|%s|flag-nonconst" % b.path, where=b.loc(bi, si), crate=crate.kind)
    # every path through one scan iteration ends with the flag false, unless it went through `|` or the xargs exemption
    scan = None
    for h, blocks in b.loops().items():
        if any(bb in blocks for bb, nm in lookups):
            scan = (h, blocks)
    if not ctx.require(scan is not None, "R17-1", "R17-1|%s|scan-loop" % b.path, "scan loop not found", b.path):
        return
    h, blocks = scan
    from ..etag import norm_guard
    back = {(x, y) for x, y in b.back_edges() if y == h}

    def relevant(atom, depth=0):
        if atom == flag:
            return True
        g = norm_guard(atom, True)
        if g is not None and g[0] == "eq" and g[2] in ("|", "xargs"):
            return True
        # a bool computed from such a test (`is_stage_separator(sep, text)` spliced in, `let is_pipe = ..`)
        a_ = strip_sites(atom)
        return depth < 2 and a_[0] == "var" and b.locals[a_[1]]["ty"] == "bool" and a_[1] != flag[1] and any(
            relevant(e, depth + 1) for e in mir.bool_sources(b, a_[1]))

    w = FactWalker(b, relevant, cut_back_edges=False)
    bad = []

    def step(bb, facts):
        out = []
        for nb, f2 in w.step(bb, facts):
            if nb not in blocks:
                continue
            if (bb, nb) in back:
                fd = {}
                from ..etag import derived_facts
                for a, v in derived_facts(b, [x_ for x_ in f2 if isinstance(x_, tuple) and len(x_) == 2], with_dom=True):
                    if a == flag:
                        fd["flag"] = v
                    else:
                        g = norm_guard(a, v)
                        if g and g[0] == "eq":
                            fd[g[2]] = g[3]
                if fd.get("flag") is not False and not fd.get("|") and not fd.get("xargs"):
                    bad.append((bb, fd))
                continue
            out.append((nb, f2))
        return out

    # start after the iterator yielded an element, flag unknown
    seen = mir.explore(b, h, frozenset(), step)
    ctx.paths_enumerated += len(seen)
    ctx.ob("R17-1", b.path, "every path that consumes a word other than `|` (or xargs at head) leaves the flag false",
           not bad, key="R17-1|%s|cleared" % b.path, crate=crate.kind,
           detail=("a path reaches the next word with %s" % bad[0][1]) if bad else None)


def once_rule(ctx, crate, b):
    lookups = {bb for bb, t, c in b.calls() if last_seg(c) in ("is_alias", "get_alias_content")}
    inserts = [bb for bb, t, c in b.calls() if last_seg(c) == "insert" and "Vec" in c]
    reach = set()
    for ib in inserts:
        reach |= flow.blocks_between(b, ib, set())
    ctx.ob("R17-2", b.path, "no alias lookup is reachable after words of an alias value were inserted", not (reach & lookups),
           key="R17-2|%s|no-relookup" % b.path, crate=crate.kind)
    de = crate.fn("shell::do_expansion")
    if de is not None:
        calls = [bb for bb, t, c in de.calls() if c == b.path]
        in_loop = any(bb in blocks for bb in calls for h, blocks in de.loops().items())
        ctx.ob("R17-2", de.path, "expand_alias is called once per line (not in a loop)", len(calls) == 1 and not in_loop,
               key="R17-2|%s|once" % de.path, crate=crate.kind)
    # the value is re-tokenized, not re-expanded for aliases: parse_line result is inserted verbatim
    ok = any(last_seg(c) == "parse_line" for bb, t, c in b.calls())
    ctx.ob("R17-2", b.path, "the alias value is tokenized with parse_line and its tokens inserted as they are", ok,
           key="R17-2|%s|parse" % b.path, crate=crate.kind, nontrivial=False)


def table_rule(ctx, crate):
    ra = crate.fn("shell::Shell::remove_alias")
    if ctx.require(ra is not None, "R17-3", "R17-3|anchor", "Shell::remove_alias not found"):
        ctx.analysed(ra)
        ok = False
        for bb, t, c in ra.calls():
            if last_seg(c) == "remove" and "HashMap" in c:
                a = ra.call_args(bb)
                ok = len(a) == 2 and flow.is_field_named(mir.peel(strip_sites(a[0])), "aliases") and \
                    mir.peel(strip_sites(a[1]))[0] == "param"
        ctx.ob("R17-3", ra.path, "remove_alias removes exactly the given key from the alias table", ok,
               key="R17-3|%s|exact" % ra.path, crate=crate.kind)
    u = crate.fn("builtins::unalias::run")
    if u is not None:
        ctx.analysed(u)
        ok = False
        for bb, t, c in u.calls():
            if last_seg(c) == "remove_alias":
                a = u.call_args(bb)
                e = u.expand_vars(strip_sites(a[1])) if len(a) > 1 else ("unknown", "")
                # tokens[1].1, unmodified
                # the word itself: field 1 of an element of the token list, through identity wrappers only
                pe = e
                while pe[0] == "call" and pe[2] and any(mir.short(pe[1]).endswith(x) for x in mir.IDENTITY_CALLS):
                    pe = pe[2][0]
                ok = pe[0] == "field" and pe[1] == 1
        ctx.ob("R17-3", u.path, "unalias passes its argument word unchanged to remove_alias", ok,
               key="R17-3|%s|arg" % u.path, crate=crate.kind)
    if u is not None:
        # unalias touches the table only through remove_alias(word): no clear / retain / drain / other key
        MUT = {"clear", "retain", "drain", "remove", "remove_entry", "insert", "extend", "entry", "get_mut", "iter_mut", "values_mut"}
        bad = []
        for bb, t, c in u.calls():
            if last_seg(c) in MUT and any(flow.is_field_named(x, "aliases") for a in u.call_args(bb)
                                           for x in mir.subexprs(u.expand_vars(strip_sites(a)))):
                bad.append((bb, last_seg(c)))
        n_rm = len([1 for bb, t, c in u.calls() if last_seg(c) == "remove_alias"])
        ctx.ob("R17-3", u.path, "unalias changes the alias table only through remove_alias(<its argument>)", not bad and n_rm == 1,
               key="R17-3|%s|only-remove-alias" % u.path, where=u.loc(bad[0][0]) if bad else "", crate=crate.kind,
               detail=None if not bad else "aliases.%s() in unalias: some argument value (an alias may be named `-a`) removes "
               "more than the alias it names" % bad[0][1])
    gl = crate.fn("shell::Shell::get_alias_list")
    if gl is not None:
        ctx.analysed(gl)
        ok = False
        for h, blocks in gl.loops().items():
            for bb in blocks:
                t = gl.term(bb)
                if t["k"] == "call" and last_seg(gl.callee(t)) == "next":
                    it = gl.call_args(bb)[0]
                    if flow.backward(gl, it, lambda e: flow.is_field_named(e, "aliases")) is not None:
                        ex = [(x, y) for x in blocks for y in gl.succs[x] if y not in blocks]
                        ok = len(ex) == 1
        if not ok and not gl.loops():
            # no loop at all: an iterator chain over the table, consumed by collect()
            r0 = gl.expand_vars(strip_sites(gl.return_expr()))
            calls0 = {last_seg(x[1]) for x in mir.subexprs(r0) if x[0] == "call"}
            ok = "collect" in calls0 and any(flow.is_field_named(x, "aliases") for x in mir.subexprs(r0)) and \
                not (calls0 & {"take", "take_while", "skip", "skip_while", "step_by", "nth", "find", "filter", "filter_map"})
        ctx.ob("R17-3", gl.path, "the alias listing iterates the whole table (single exit on exhaustion)", ok,
               key="R17-3|%s|all" % gl.path, crate=crate.kind)
        # every entry reaches the result: pushed into the returned Vec on every iteration, not funnelled through a
        # keyed container (two names may share a derived key)
        ret = mir.root_local_expr(gl.expand_vars(strip_sites(gl.return_expr()))) if hasattr(gl, "return_expr") else None
        kept = False
        for h, blocks in gl.loops().items():
            nb = [bb for bb in blocks if gl.term(bb)["k"] == "call" and last_seg(gl.callee(gl.term(bb))) == "next"]
            pushes = {bb for bb in blocks if gl.term(bb)["k"] == "call" and last_seg(gl.callee(gl.term(bb))) == "push"
                      and "Vec" in gl.callee(gl.term(bb))}
            if not nb or not pushes or not gl.succs[nb[0]]:
                continue
            some_t = [tgt for tgt, atom, val in gl.switch_edges(gl.succs[nb[0]][0]) if val == "Some"]
            pushed_vecs = {mir.root_local_expr(gl.expand_vars(strip_sites(gl.call_args(p)[0]))) for p in pushes}
            if some_t and flow.must_pass(gl, some_t[0], pushes, {h}, within=blocks):
                kept = ret in pushed_vecs or any(
                    flow.backward(gl, gl.return_expr(), lambda z, v=v: z[0] == "var" and z[1] == v) is not None
                    for v in pushed_vecs if v is not None)
        if not kept:
            # iterator form: aliases.iter().map(..).collect() without a lossy adaptor
            LOSSY = {"filter", "skip", "take", "step_by", "filter_map", "dedup", "dedup_by_key", "take_while", "skip_while"}
            r = gl.expand_vars(strip_sites(gl.return_expr()))
            calls = {last_seg(x[1]) for x in mir.subexprs(r) if x[0] == "call"}
            keyed = any(last_seg(x[1]) in ("insert", "entry", "into_values", "into_keys", "from_iter", "extend", "values")
                        and any(k in x[1] for k in ("BTreeMap", "HashMap", "BTreeSet", "HashSet"))
                        for x in mir.subexprs(r) if x[0] == "call")
            kept = "collect" in calls and not (calls & LOSSY) and not keyed and \
                any(flow.is_field_named(x, "aliases") for x in mir.subexprs(r))
        ctx.ob("R17-3", gl.path, "every alias of the table is an entry of the listing (none merged or dropped)", kept,
               key="R17-3|%s|every-entry" % gl.path, crate=crate.kind,
               detail=None if kept else "entries pass through a keyed container or a conditional push: two aliases whose "
               "derived keys coincide (names differing only in case) yield one line")


NAME_SHAPES = ["ab", "a7", "7a", "a_b", "_a", "A", "a.b", "a-b", ".a", "-a", "7", "a.7", "7-a"]


def _assignment_head_pattern(crate):
    b = crate.fn("parsers::parser_line::parse_line")
    if b is None:
        return None, None
    for bb, t, c in b.calls():
        if last_seg(c) == "re_contains":
            lit = mir.const_str(b.call_args(bb)[1]) if len(b.call_args(bb)) > 1 else None
            if lit and "=" in lit:
                return lit, "parse_line"
    for bb, t, c in b.calls():
        ci = b.callee_info(t)
        callee = (ci or {}).get("resolved") or c
        hb = crate.fn(callee)
        if hb is not None and hb.kind == "fn" and hb.arg_count == 1 and hb.locals[0]["ty"] == "bool":
            for b2, t2, c2 in hb.calls():
                if last_seg(c2) in ("re_contains", "is_match", "new") and hb.call_args(b2):
                    for a in hb.call_args(b2):
                        lit = mir.const_str(a)
                        if lit and "=" in lit:
                            return lit, callee
    return None, None


def name_agreement_rule(ctx, crate):
    from .. import refacts
    a = crate.fn("builtins::alias::run")
    if a is None:
        ctx.require(crate.kind != "bin", "R17-4", "R17-4|anchor", "builtins::alias::run not found")
        return
    add_pat = None
    for bb, t, c in a.calls():
        if last_seg(c) == "new" and "egex" in c:
            lit = mir.const_str(a.call_args(bb)[0])
            if lit and "=" in lit:
                add_pat = lit
    head_pat, where = _assignment_head_pattern(crate)
    if not ctx.require(add_pat is not None and head_pat is not None, "R17-4", "R17-4|patterns",
                       "cannot find the alias definition pattern (%r) / the tokenizer's assignment-head pattern (%r)"
                       % (add_pat, head_pat)):
        return
    ctx.analysed(a)
    texts = [n + "='x y' z" for n in NAME_SHAPES]
    acc = refacts.matches(add_pat, [n + "=v" for n in NAME_SHAPES])
    head = refacts.matches(head_pat, [n + "=" for n in NAME_SHAPES])
    for n, ok_a, ok_h in zip(NAME_SHAPES, acc, head):
        if not ok_a:
            ctx.ob("R17-4", a.path, "name shape %r is not an alias name" % n, True, crate=crate.kind, nontrivial=False)
            continue
        ctx.ob("R17-4", a.path, "alias name shape %r: the tokenizer keeps the quotes of its value" % n, bool(ok_h),
               key="R17-4|name-shape|%s" % n, crate=crate.kind,
               detail=None if ok_h else "`alias %s='\"a b\" c'` stores `a b`: the tokenizer (%s, %r) strips the outer quotes, "
               "the builtin sees a value starting with a quote and unquotes again" % (n, where, head_pat))


def retokenized_rule(ctx, crate, b):
    from .c13 import token_writes
    tok, writes = token_writes(b)
    if not ctx.require(tok is not None and writes, "R17-7", "R17-7|%s|writes" % b.path,
                       "no write to the token vector found in expand_alias", b.path):
        return
    is_src = lambda z: z[0] == "call" and last_seg(z[1]) in ("get_alias_content", "get") and \
        ("alias" in z[1] or "aliases" in render(z))
    is_tok = lambda z: z[0] == "call" and last_seg(z[1]) in ("parse_line", "line_to_plain_tokens")
    n_via, bad = 0, []
    for bb, kind, text_e, tag_e in writes:
        e = text_e
        raw = flow.backward(b, e, is_src, stop=is_tok)
        via = flow.backward(b, e, is_tok)
        if raw is not None:
            bad.append((bb, kind))
        elif via is not None:
            n_via += 1
    ok = not bad and n_via >= 1
    ctx.ob("R17-7", b.path, "alias values enter the token vector through parse_line only (%d write(s) of tokenized words, %d "
                            "write(s) in all)" % (n_via, len(writes)), ok,
           key="R17-7|%s|retokenized" % b.path, where=b.loc((bad or [(0, "")])[0][0]), crate=crate.kind,
           detail=None if ok else ("%s of text read from the alias table without tokenizing it: a value holding `|`, quotes or "
                                   "several words becomes one literal word" % ", ".join(sorted({k for _, k in bad}))
                                   if bad else "no write of parse_line's tokens found"))


def _template_pieces(bs):
    """rustc's compiled format template: length-prefixed literal pieces, 0xC0.. = placeholder; -> list of str / None"""
    out, i = [], 0
    while i < len(bs):
        n = bs[i]
        if n == 0:
            break
        if n >= 0xC0:
            out.append(None)
            i += 1
            # placeholder options bytes follow for non-trivial specs; the plain `{}` has none
            continue
        out.append(bs[i + 1:i + 1 + n].decode("latin-1"))
        i += 1 + n
    return out


def printed_form_rule(ctx, crate):
    from .c02 import dom_facts
    if crate.kind != "bin" and not any(p.startswith("builtins::alias::") for p in crate.bodies):
        return
    sites = []
    for f in crate.fns():
        if not f.path.startswith("builtins::alias::"):
            continue
        for bb, t, c in f.calls():
            if "Arguments" not in c:
                continue
            for a in f.call_args(bb):
                for sub in mir.subexprs(a):
                    cb = mir.const_bytes(sub)
                    if not cb:
                        continue
                    pcs = _template_pieces(cb)
                    for i, pc in enumerate(pcs):
                        if pc is None and i > 0 and i + 1 < len(pcs) and pcs[i - 1] and pcs[i + 1]:
                            q = pcs[i - 1][-1]
                            if q in "'\"" and pcs[i + 1][0] == q:
                                sites.append((f, bb, q))
    if not ctx.require(bool(sites), "R17-8", "R17-8|anchor", "no place where the alias builtin quotes a value was found"):
        return
    for f, bb, q in sites:
        tested = False
        for x in sorted(f.reachable):
            for tgt, a, v in f.switch_edges(x):
                a2 = strip_sites(a)
                if a2[0] == "call" and last_seg(a2[1]) in ("contains", "find", "starts_with", "matches") and len(a2[2]) >= 2:
                    lit = mir.const_char(a2[2][1]) or mir.const_str(f.expand_vars(a2[2][1]))
                    if lit in ("'", "\"") and f.dominates(x, bb):     # the test was made (either outcome) before quoting
                        tested = True
        ctx.ob("R17-8", f.path, "the value is wrapped in %s only after it was tested for a quote character" % q, tested,
               key="R17-8|%s|fixed-quote|%s" % (f.path, "single" if q == "'" else "double"), where=f.loc(bb), crate=crate.kind,
               detail=None if tested else "a value containing %s is printed as `alias n=%s..%s..%s`: fed back to the shell it "
               "defines a different value (the inner quotes are lost)" % (q, q, q, q))


def exact_guard_rule(ctx, crate, b):
    from .c02 import dom_facts
    recs = []
    for bb, t, c in b.calls():
        if last_seg(c) == "push" and "Vec" in c:
            a = b.call_args(bb)
            if len(a) == 2:
                v = strip_sites(a[1])
                if v[0] == "agg" and v[1] == "tuple":
                    recs.append(bb)
    if not ctx.require(bool(recs), "R17-9", "R17-9|%s|record" % b.path, "no recorded replacement found in expand_alias", b.path):
        return
    flag = None
    for l, n in b.names.items():
        if n == "is_head" or (b.locals[l]["ty"] == "bool" and flag is None and "head" in (n or "")):
            flag = l
    extra = []
    for bb in recs:
        for a, v in dom_facts(b, bb):
            a2 = strip_sites(a)
            txt = render(a2)
            if a2[0] == "discr" and ("Iter::next" in txt or "Enumerate::next" in txt or "get_alias_content" in txt or
                                     "Shell::get(" in txt):
                continue
            if a2[0] in ("var", "param") and b.locals[a2[1]]["ty"] == "bool" and v is True:
                continue                                        # the head-of-stage flag
            if a2[0] == "var" and b.locals[a2[1]]["ty"] == "bool" and a2[1] not in b.names and all(
                    mir.const_bool(e) is not None or (e[0] == "call" and last_seg(e[1]) in ("eq", "ne", "is_empty") and (
                        last_seg(e[1]) == "is_empty" or any(mir.const_str(x) in ("|", "xargs", "") for x in mir.subexprs(e))))
                    for e in mir.bool_sources(b, a2[1])):
                continue                                        # the `|` / xargs / tag tests, computed by a helper
            if a2[0] == "call" and last_seg(a2[1]) in ("is_alias", "get_alias_content", "contains_key") and v is True and \
                    "aliases" in txt or (a2[0] == "call" and last_seg(a2[1]) == "is_alias" and v is True):
                continue
            if a2[0] == "call" and last_seg(a2[1]) in ("eq", "ne", "is_empty") and any(
                    mir.const_str(x) in ("|", "xargs", "") for x in mir.subexprs(a2)):
                continue
            if a2[0] == "call" and last_seg(a2[1]) == "is_empty":
                continue                                        # tag test of the word
            extra.append("%s = %s" % (txt[:70], v))
    ctx.ob("R17-9", b.path, "a replacement is recorded under exactly: head position and the word names an alias", not extra,
           key="R17-9|%s|replacement-guard" % b.path, where=b.loc(recs[0]), crate=crate.kind,
           detail=None if not extra else "further condition(s) %s: some head-of-stage uses of an alias are left as they are "
           "(`alias g=..; g $(g 1)` runs the inner g as a command named g)" % "; ".join(sorted(set(extra))[:3]))
