"""C13 - results of expansions are data and are never re-read as shell syntax (E-RETAG)."""
import re
from .. import etag, flow, mir, taint
from ..mir import const_str, last_seg, render, strip_sites
from .c05 import must_facts

EXPLANATION = ("C13: the only barrier between expanded text and the operator recognisers is the quote tag, so the rule "
               "summarises every write an expansion pass makes to the token vector as (source class of the text, tag "
               "the token is left with) and compares it with what the recognisers accept: externally derived text "
               "(environment, command output, file names) left in a token whose tag may be empty reaches `|`, `&`, `<`, "
               "`>` recognition and later `$(`/backquote execution.  Also: every operator recogniser honours the tag, "
               "and list splitting happens on the typed line before any expansion.")

OP_SINKS = "operator recognisers (| & < <<< > >>)"
CMD_SINKS = "command substitution ($( ) / backquotes)"
CLASSES = [("ENV", taint.is_env_read), ("CMD", taint.is_cmd_output), ("FILE", taint.is_glob_result)]


def _bool_sources(b, l, depth=4):
    """definitions of a bool local, through plain copies of other locals"""
    out = []
    for bi, si in b.defs.get(l, []):
        e = strip_sites(b.def_expr(bi, si))
        if e[0] == "var" and depth > 0 and e[1] != l:
            out += _bool_sources(b, e[1], depth - 1)
        else:
            out.append(e)
    return out


def run(ctx):
    ctx.rule("R13-1", "every operator recogniser (| & < <<< > >>) acts only on tokens with an empty quote tag (E-TAG, class OP)")
    ctx.rule("R13-2", "no expansion pass leaves text derived from the environment, a command's output or a file name in "
                      "a token whose tag may be empty (such a token is accepted by the operator recognisers and by the "
                      "later substitution passes)")
    ctx.rule("R13-3", "line_to_cmds (; && || #) is applied to the line as typed: nothing derived from an expansion "
                      "flows into its argument")
    ctx.rule("R13-5", "a word that is entirely one command substitution is left to the substitution pass: env_in_token has a "
                      "guard (a pattern whose match makes it answer `no reference here`) of the shape ^ `$(` any-text+ `)` $, "
                      "where any-text excludes nothing but a newline - in particular not `)`, so nested substitutions are "
                      "covered (otherwise expand_env pastes variable values into the source text of the inner command)")
    ctx.rule("R13-6", "text that went through the expansion is never tokenized again: in the planner (CommandLine::from_line, "
                      "split_tokens_by_pipes, Command::from_tokens, tokens_to_redirections) the tokenizers parse_line / "
                      "line_to_plain_tokens / line_to_cmds are applied to the typed line parameter only, never to the text "
                      "of a token")
    ctx.rule("R13-7", "results of command substitution are not interpreted by a later pass (the order rule of C11 R11-11)")
    ctx.rule("R13-4", "an expansion result is written into the token it was computed for: positions recorded while a pass "
                      "scans the token vector are not used after the vector's length changed (E-EDITLIST), so text "
                      "produced under one quote tag cannot land in a neighbouring word with a different tag")
    for crate in ctx.crates:
        from .. import editlist
        de_, ps_ = passes_in_order(crate)
        n_ = editlist.rule(ctx, crate, "R13-4", ps_)
        ctx.floor("R13-4", crate, "passes with a token vector", n_, 7)
        res = etag.run_sites(ctx, "R13-1", crate, cls_filter=lambda i: i.cls == "OP")
        # not a count of comparisons (hoisting a repeated test into one closure lowers it): every function that
        # recognises operators today must still be seen recognising at least one
        seen_fns = {(i.body.parent if i.body.kind == "closure" else i.body.path) for i, ok_ in res}
        need = {"types::CommandLine::from_line", "types::Command::from_tokens", "types::split_tokens_by_pipes"}
        ctx.require(need <= seen_fns, "R13-1", "R13-1|floor|operator recognisers",
                    "operator recognisers not found in %s" % ", ".join(sorted(need - seen_fns)))
        ctx.floor("R13-1", crate, "operator recognisers", len(res), 5)
        retag_rule(ctx, crate)
        split_rule(ctx, crate)
        whole_subst_guard_rule(ctx, crate)
        retokenize_rule(ctx, crate)
        from .c11 import pass_order_rule
        pass_order_rule(ctx, crate, "R13-7")


def passes_in_order(crate):
    de = crate.fn("shell::do_expansion")
    if de is None:
        return None, []
    calls = []
    for bb, t, c in de.calls():
        ci = de.callee_info(t)
        if ci is not None and ci.get("local") and c.startswith("shell::") and any(
                "Vec<(std::string::String, std::string::String)>" in a.get("move", a.get("copy", {})).get("ty", "")
                for a in t["args"] if "const" not in a):
            calls.append((bb, c))
    # order: dominance (straight-line code)
    calls.sort(key=lambda x: sum(1 for y in calls if de.dominates(y[0], x[0])))
    out = []
    for bb, c in calls:
        sub = crate.fn(c)
        # a pass that only dispatches to other passes (do_command_substitution)
        inner = []
        if sub is not None:
            for b2, t2, c2 in sub.calls():
                ci = sub.callee_info(t2)
                if ci is not None and ci.get("local") and c2.startswith("shell::do_command_substitution_"):
                    inner.append(c2)
        if inner:
            inner.sort(key=lambda p: [b2 for b2, t2, c2 in sub.calls() if c2 == p][0])
            out.extend(inner)
        else:
            out.append(c)
    return de, out


def token_writes(b):
    """writes to the token vector parameter: list of (bb, kind, text_expr, tag_expr or None=preserved)"""
    tok = None
    for l in range(1, b.arg_count + 1):
        if "Vec<(std::string::String, std::string::String)>" in b.locals[l]["ty"]:
            tok = l
    if tok is None:
        return None, []
    out = []
    # tokens[i].1 = e
    for bi, si, s in b.stmts():
        if s["k"] != "assign":
            continue
        p = s["place"]["p"]
        fields = [x for x in p if isinstance(x, dict) and "f" in x]
        if not fields or fields[-1].get("bty") != mir.TOKEN_TY:
            continue
        base = b.local_expr(s["place"]["l"])
        if flow.backward(b, base, lambda z: z[0] == "call" and last_seg(z[1]) in ("index_mut", "get_mut", "iter_mut")
                         and z[2] and mir.root_local_expr(z[2][0]) == tok, through_containers=False) is None \
                and mir.root_local_expr(strip_sites(base)) != tok:
            continue
        rhs = b.rvalue_expr(s["rv"])
        if fields[-1]["f"] == 1:
            out.append((bi, "text-assign", rhs, None))
        else:
            out.append((bi, "tag-assign", rhs, "assigned"))
    for bb, t, c in b.calls():
        if last_seg(c) in ("insert", "push") and "Vec" in c:
            a = b.call_args(bb)
            if a and mir.root_local_expr(a[0]) == tok:
                v = strip_sites(a[-1])
                if v[0] == "agg" and v[1] == "tuple" and len(v[2]) == 2:
                    out.append((bb, "insert", a[-1], v[2][0]))
                else:
                    out.append((bb, "insert-other", a[-1], "unknown"))
    return tok, out


def tag_may_be_empty(b, bb, kind, tag_expr, crate):
    if kind == "text-assign":
        # tag preserved: what the token had.  Non-empty only if the path says so.
        return True, "preserved"
    if tag_expr is None:
        return True, "preserved"
    if isinstance(tag_expr, str):
        return True, tag_expr
    t = mir.peel(strip_sites(tag_expr))
    while t[0] == "call" and t[2] and last_seg(t[1]) in ("to_string", "clone", "from", "into", "to_owned"):
        t = mir.peel(t[2][0])
    s = const_str(t)
    if s is not None:
        return s == "", "const %r" % s
    if t[0] == "var":
        vals = []
        for bi, si in b.defs.get(t[1], []):
            cs = const_str(b.def_expr(bi, si))
            vals.append(cs)
        if vals and all(v is not None for v in vals):
            return "" in vals, "one of %s" % sorted(set(vals))
    return True, "expr %s" % render(t)[:40]


def retag_rule(ctx, crate):
    de, passes = passes_in_order(crate)
    if not ctx.require(de is not None and len(passes) >= 7, "R13-2", "R13-2|anchor",
                       "do_expansion / its passes not found (%d passes)" % len(passes)):
        return
    ctx.analysed(de)
    exposure = set()
    later_subst = {}
    for i, p in enumerate(passes):
        later_subst[p] = [q for q in passes[i + 1:] if "command_substitution" in q]
    for p in passes:
        b = crate.fn(p)
        if b is None:
            continue
        ctx.analysed(b)
        tok, writes = token_writes(b)
        if p == "shell::expand_alias":
            ctx.ob("R13-2", p, "alias values are re-tokenized on purpose (textual replacement of the command word)", True,
                   crate=crate.kind, nontrivial=False)
            continue
        if not ctx.require(tok is not None and writes, "R13-2", "R13-2|%s|writes" % p,
                           "pass %s: no writes to the token vector recognised" % p, p):
            continue
        found = set()
        # a pass that gives a token a new tag chosen from its (external) text: the tag may become empty
        writes_external = any(flow.backward(b, (strip_sites(tx)[2][1] if kd == "insert" else tx),
                                            taint.source_pred(crate, pred)) is not None
                              for bb_, kd, tx, tg in writes if kd != "tag-assign" for cname, pred in CLASSES)
        for bb, kind, text, tag in writes:
            if kind != "tag-assign":
                continue
            empty, tdesc = tag_may_be_empty(b, bb, "insert", text, crate)
            if empty and writes_external:
                ctx.ob("R13-2", p, "a token holding external text is not re-tagged with a possibly empty tag (%s)" % tdesc, False,
                       key="R13-2|%s|retag|%s" % (p, tdesc), where=b.loc(bb), crate=crate.kind,
                       detail="the operator recognisers act on every token whose tag is empty: output such as `|`, `a>b`, `x&` "
                              "becomes syntax")
        for bb, kind, text, tag in writes:
            if kind == "tag-assign":
                continue
            textx = text
            if kind == "insert":
                v = strip_sites(text)
                textx = v[2][1]
            for cname, pred in CLASSES:
                sp = taint.source_pred(crate, pred)
                hit = flow.backward(b, textx, sp)
                if hit is None:
                    continue
                empty, tdesc = tag_may_be_empty(b, bb, kind, tag, crate)
                if not empty:
                    ctx.ob("R13-2", p, "%s text is written with a non-empty tag (%s)" % (cname, tdesc), True,
                           where=b.loc(bb), crate=crate.kind)
                    continue
                sinks = [OP_SINKS] + ([CMD_SINKS] if later_subst[p] else [])
                for sk in sinks:
                    key = (cname, tdesc, sk)
                    if key in found:
                        continue
                    found.add(key)
                    ctx.ob("R13-2", p, "%s-derived text left with tag [%s] cannot reach %s" % (cname, tdesc, sk), False,
                           key="R13-2|%s|%s|tag:%s|-> %s" % (p, cname, tdesc, sk), where=b.loc(bb), crate=crate.kind,
                           detail="the recognisers only test `tag.is_empty()`; a value / output / file name such as `a>b` or `|` "
                                  "is acted on" if sk == OP_SINKS else
                                  "a later substitution pass executes `$(cmd)` / backquotes found in that text")
        if not found:
            ctx.ob("R13-2", p, "pass writes only text derived from the token itself (or with a non-empty tag)", True,
                   crate=crate.kind)
        for cname, tdesc, sk in found:
            if sk == OP_SINKS:
                exposure.add("%s via %s" % (cname, p.split("::")[-1]))
    exposed_sinks_rule(ctx, crate, exposure)


TOKEN_VEC = "Vec<(std::string::String, std::string::String)>"
POST_EXPANSION = ["types::CommandLine::from_line", "types::split_tokens_by_pipes", "types::Command::from_tokens",
                  "parsers::parser_line::tokens_to_redirections"]


def sink_signature(descs):
    sig = set()
    for x in descs:
        head = x.split("(", 1)[0].strip() if "(" in x and "==" not in x.split("(", 1)[0] else "=="
        kind = "eq" if head == "==" or head in ("eq", "ne") else "prefix" if head == "starts_with" else \
            "suffix" if head == "ends_with" else "match"
        for lit in re.findall(r'"((?:[^"\\]|\\.)*)"', x):
            for ch in lit:
                if ch in "|&<>;":
                    sig.add("%s:%s" % (kind, ch))
    return ";".join(sorted(sig))


def exposed_sinks_rule(ctx, crate, exposure):
    """While some pass leaves external text under an empty tag (exposure), every recogniser that runs after
    the expansion and accepts an empty tag is a place where that text becomes syntax.  One finding per
    function, keyed by the set of things it recognises: a new recogniser is a new finding."""
    for p in POST_EXPANSION:
        bodies = [crate.fn(p)] + crate.closures_of(p)
        descs = set()
        where = ""
        for b in bodies:
            if b is None:
                continue
            for insp in etag.find_inspections(crate, b, p):
                if insp.cls in ("OP", "STRICT"):
                    descs.add(insp.desc)
                    where = where or b.loc(insp.bb)
        if not ctx.require(bool(descs), "R13-2", "R13-2|sink-anchor|%s" % p, "no recogniser found in %s" % p, p):
            continue
        d = "; ".join(sorted(descs))
        # keyed by the operator characters the function recognises and the kind of test (equality / match anywhere /
        # prefix / suffix), not by how many times a test is spelled: `contains('>')` next to a regex for `>` is the same
        # recogniser; a test for a new operator, or a wider kind of test for a known one, is a new finding
        ops = sink_signature(descs)
        ctx.ob("R13-2", p, "recognisers {%s} never see expansion results carrying an empty tag" % d, not exposure,
               key="R13-2|sink|%s|%s" % (p, ops), where=where, crate=crate.kind,
               detail=None if not exposure else "exposed through: " + ", ".join(sorted(exposure)))


def split_rule(ctx, crate):
    b = crate.fn("execute::run_command_line")
    if not ctx.require(b is not None, "R13-3", "R13-3|anchor", "execute::run_command_line not found"):
        return
    calls = flow.find_calls(b, "line_to_cmds")
    if not ctx.require(len(calls) == 1, "R13-3", "R13-3|%s|call" % b.path, "expected one line_to_cmds call", b.path):
        return
    arg = b.call_args(calls[0])[0]
    ok = mir.peel(strip_sites(arg))[0] == "param"
    for cname, pred in CLASSES:
        if flow.backward(b, arg, taint.source_pred(crate, pred)) is not None:
            ok = False
    # expansion (from_line / do_expansion) happens only after the split
    later = True
    for bb, t, c in b.calls():
        if last_seg(c) in ("do_expansion", "from_line", "run_proc") and b.dominates(bb, calls[0]):
            later = False
    ctx.ob("R13-3", b.path, "line_to_cmds is applied to the typed line, before any expansion", ok and later,
           key="R13-3|%s|split-first" % b.path, where=b.loc(calls[0]), crate=crate.kind)


def whole_subst_guard_rule(ctx, crate):
    from .. import refacts
    b = crate.fn("shell::env_in_token")
    if not ctx.require(b is not None, "R13-5", "R13-5|anchor", "shell::env_in_token not found"):
        return
    ctx.analysed(b)
    false_blocks = {bi for bi, si in b.defs.get(0, []) if mir.const_bool(b.def_expr(bi, si)) is False}
    other_defs = {bi for bi, si in b.defs.get(0, [])} - false_blocks
    guards = []
    for bb in sorted(b.reachable):
        for tgt, atom, val in b.switch_edges(bb):
            a = strip_sites(atom)
            if val is not True:
                continue
            # `if helper(token)` with the helper spliced in, or `let sub = a || b || re_contains(..); if sub`: the tested
            # bool is true whenever one of its definitions - the scanner call - returned true
            cands = [a] if a[0] != "var" else _bool_sources(b, a[1])
            for a in cands:
                if not (a[0] == "call" and last_seg(a[1]) == "re_contains" and len(a[2]) >= 2):
                    continue
                lit = const_str(a[2][1])
                if lit is None:
                    continue
                # every path from the True target assigns the answer `false` first
                seen, todo, ok = set(), [tgt], True
                while todo:
                    x = todo.pop()
                    if x in seen:
                        continue
                    seen.add(x)
                    if x in false_blocks:
                        continue
                    if x in other_defs or b.term(x)["k"] == "return":
                        ok = False
                        break
                    todo.extend(b.succs[x])
                if ok:
                    guards.append((bb, lit))
    found = None
    for bb, lit in guards:
        sh = refacts.info(lit).get("shape") or {}
        items = sh.get("of") if sh.get("k") == "concat" else None
        if not items or len(items) != 5:
            continue
        a0, l1, r2, l3, a4 = items
        if a0.get("k") == "look" and a0.get("v") == "Start" and a4.get("k") == "look" and a4.get("v") == "End" and \
                l1.get("k") == "lit" and l1.get("v") == "$(" and l3.get("k") == "lit" and l3.get("v") == ")" and \
                r2.get("k") == "rep" and r2.get("min", 0) >= 1 and r2.get("max") is None and r2["of"].get("k") == "class":
            found = (bb, lit, r2["of"].get("excl", ""), r2["of"].get("non_ascii"))
    ok = found is not None and set(found[2]) <= {"\n"} and bool(found[3])
    ctx.ob("R13-5", b.path, "guard for a word that is one whole `$( ... )`: the body may contain any character", ok,
           key="R13-5|%s|whole-substitution-guard" % b.path, where=b.loc(found[0]) if found else "", crate=crate.kind,
           detail=None if ok else ("no such guard among %d `answer no` patterns" % len(guards) if found is None else
                                   "the body class of %r excludes %r: `$(echo $(echo $V))` is not recognised as one "
                                   "substitution, $V is expanded into the inner command's source and its value is parsed "
                                   "as syntax there" % (found[1], found[2])))


def retokenize_rule(ctx, crate):
    TOKENIZERS = ("parse_line", "line_to_plain_tokens", "line_to_cmds")
    n = 0
    for p in POST_EXPANSION:
        b = crate.fn(p)
        if b is None:
            continue
        for bb, t, c in b.calls():
            if last_seg(c) not in TOKENIZERS:
                continue
            n += 1
            arg = b.call_args(bb)[0]
            e = mir.peel(b.expand_vars(strip_sites(arg)))
            while e[0] == "call" and e[2] and last_seg(e[1]) in ("deref", "as_str", "as_ref", "borrow", "trim", "clone", "to_string"):
                e = mir.peel(e[2][0])
            ok = e[0] == "param" and TOKEN_VEC not in b.locals[e[1]]["ty"]
            ctx.ob("R13-6", p, "%s is applied to the typed line, not to a token's text" % last_seg(c), ok,
                   key="R13-6|%s|retokenized|%s" % (p, last_seg(c)), where=b.loc(bb), crate=crate.kind,
                   detail=None if ok else "the argument is %s: output of a substitution / a value / a file name is split and "
                   "its `|`, `>`, `&` become operators" % render(e)[:60])
    ctx.ob("R13-6", "planner", "%d tokenizer call(s) in the planner" % n, n >= 1, key="R13-6|anchor", nontrivial=False)
