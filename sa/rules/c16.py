"""C16 - a line means the same through every entry point."""
from .. import flow, mir
from ..mir import FactWalker, const_char, const_str, last_seg, render, strip_sites
from .c02 import dom_facts

EXPLANATION = ("C16: (1) call-graph funnel: prompt, -c, script, function, source and non-tty input all reach execution "
               "only through run_command_line; nothing else plans or runs a line.  (2) The script path re-renders every "
               "line (parse_line -> positional parameters -> tokens_to_line) before run_command_line tokenizes it again, "
               "so the renderer must re-escape every character that can be inside an untagged token only because it "
               "was backslash-escaped (S = | ; \\ space, and # at word start): the set of characters the renderer "
               "escapes is computed from its MIR and compared with S.  Pairwise equality of effects is not decided.")

# S: characters that appear inside an UNTAGGED token only when they were backslash-escaped in the source line;
# an unescaped occurrence would have split the word or the line.  One line of justification each.
S = {
    "|": "parse_line starts a new token at an unescaped | ; line_to_cmds splits at ||",
    ";": "line_to_cmds splits the line at an unescaped ;",
    "\\": "an unescaped backslash is consumed as the escape introducer by parse_line and line_to_cmds",
    " ": "parse_line ends the token at an unescaped space",
    "#": "parse_line / line_to_cmds stop at an unescaped # (comment) at word start",
}

ALLOWED_FROM_LINE = {"execute::run_proc", "execute::run_with_shell", "shell::do_command_substitution_for_dollar",
                     "shell::do_command_substitution_for_dot"}
ALLOWED_RUN_PIPELINE = ALLOWED_FROM_LINE


def run(ctx):
    ctx.rule("R16-1", "run_proc is called only from run_command_line; CommandLine::from_line and run_pipeline only from "
                      "run_proc, run_with_shell and the substitution passes; every entry point reaches run_command_line")
    ctx.rule("R16-2", "the renderer used on the script path (tokens_to_line) escapes every character of S inside "
                      "untagged tokens and renders tagged tokens through wrap_sep_string(tag, text), which escapes the tag character")
    ctx.rule("R16-3", "inside double quotes the renderer undoes exactly what the tokenizer did: every character X for which "
                      "parse_line turns `\\X` into X inside a double-quoted word (computed by exploring its character "
                      "loop) is a character wrap_sep_string(`\"`, text) puts a backslash in front of; otherwise the script "
                      "path, which tokenizes, re-renders and tokenizes again, unescapes twice")
    ctx.rule("R16-4", "the tokenizer of the script path reads the same characters as the splitter of the -c path: parse_line "
                      "(the only tokenizer that sees `||` / `&&` / `;`, and only on the script path) never uses its character "
                      "counter as a byte offset (E-ISPACE)")
    ctx.rule("R16-5", "a list operator right after a closing quote still separates commands on the script path: the script path "
                      "tokenizes the whole line before run_command_line splits it, and the tokenizer glues what follows a "
                      "closing quote onto the quoted word - so reading `;` or `&` in the `quote just closed` state must end "
                      "the word (explored over parse_line's character loop), otherwise `echo 'a'; echo b` is re-rendered as "
                      "`echo 'a; echo b'` and runs one command where -c runs two")
    ctx.rule("R16-6", "`||` written without blanks is one operator on the script path too: wherever the tokenizer emits the "
                      "untagged token `|`, it has looked one character ahead and found no second `|` (and emits `||` "
                      "otherwise) - a `|` token per character re-renders `echo a||echo b` as `echo a | | echo b`, which "
                      "runs nothing, while -c (where the list splitter runs first) prints a")
    ctx.rule("R16-7", "the renderer re-escapes only what the tokenizer unescaped: the tokenizer keeps a backslash verbatim in an "
                      "untagged word while it is inside embedded quotes (`NAME=\"a\\.b\"`, `x=`..\\..``) - a push of the "
                      "character under `c == '\\\\'` - so tokens_to_line must not double every backslash of an untagged token; "
                      "the two sides have to agree (today: neither doubles; the lost `a\\\\b` case is the open R16-2 finding)")
    for crate in ctx.crates:
        funnel_rule(ctx, crate)
        operator_after_quote_rule(ctx, crate)
        backslash_agreement_rule(ctx, crate)
        double_pipe_rule(ctx, crate, "R16-6")
        renderer_rule(ctx, crate)
        dq_roundtrip_rule(ctx, crate)
        from .. import ispace
        ispace.rule(ctx, crate, "R16-4", ["parsers::parser_line::parse_line", "parsers::parser_line::tokens_to_line",
                                           "scripting::expand_args"])


def funnel_rule(ctx, crate):
    g = crate.callgraph()
    callers = lambda p: set(crate.callers_of(p))
    rp = callers("execute::run_proc")
    ctx.ob("R16-1", "execute::run_proc", "run_proc is called only from run_command_line (callers: %s)" % sorted(rp),
           rp == {"execute::run_command_line"}, key="R16-1|callers|run_proc", crate=crate.kind)
    fl = callers("types::CommandLine::from_line")
    ctx.ob("R16-1", "types::CommandLine::from_line", "from_line callers are the planner and the substitution passes",
           bool(fl) and fl <= ALLOWED_FROM_LINE, key="R16-1|callers|from_line", crate=crate.kind,
           detail="unexpected: %s" % sorted(fl - ALLOWED_FROM_LINE) if fl - ALLOWED_FROM_LINE else None)
    pl = callers("core::run_pipeline")
    ctx.ob("R16-1", "core::run_pipeline", "run_pipeline callers are the planner and the substitution passes",
           bool(pl) and pl <= ALLOWED_RUN_PIPELINE, key="R16-1|callers|run_pipeline", crate=crate.kind,
           detail="unexpected: %s" % sorted(pl - ALLOWED_RUN_PIPELINE) if pl - ALLOWED_RUN_PIPELINE else None)
    pls = callers("parsers::parser_line::parse_line")
    # entry points
    entries = {"scripting::run_script": "script / source", "scripting::run_lines": "function body",
               "execute::run_procs_for_non_tty": "non-tty stdin"}
    if crate.kind == "bin":
        entries["main"] = "prompt and -c"
        entries["builtins::source::run"] = "source builtin"
        entries["core::try_run_func"] = "function call"
    for e, what in sorted(entries.items()):
        if e not in crate.bodies:
            ctx.require(False, "R16-1", "R16-1|entry|%s" % e, "entry point %s not found" % e)
            continue
        reach = crate.reachable_from([e])
        ctx.ob("R16-1", e, "%s reaches execution through run_command_line" % what,
               "execute::run_command_line" in reach, key="R16-1|entry|%s" % e, crate=crate.kind)
    # direct calls to the executor from script-side code bypass the funnel
    for b in crate.fns():
        if b.path.startswith("scripting::"):
            bad = [c for bb, t, c in b.calls() if c in ("execute::run_proc", "core::run_pipeline", "types::CommandLine::from_line")]
            ctx.ob("R16-1", b.path, "script interpreter does not plan / run lines itself", not bad,
                   key="R16-1|bypass|%s" % b.path, crate=crate.kind, nontrivial=False)


def escape_set_for_untagged(ctx, crate):
    """characters before which wrap_sep_string pushes a backslash when sep is empty"""
    w = crate.fn("tools::wrap_sep_string")
    if w is None:
        return None, None
    ctx.analysed(w)
    pushes = []
    for bb, t, c in w.calls():
        if last_seg(c) == "push" and "String" in c:
            a = w.call_args(bb)
            if len(a) == 2 and const_char(a[1]) == "\\":
                pushes.append(bb)
    sep = None
    for l in range(1, w.arg_count + 1):
        if w.names.get(l) is not None:
            sep = w.local_expr(l) if sep is None else sep
    chars_empty = set()
    tagchar = False
    for pb in pushes:
        facts = dom_facts(w, pb)
        empties = [v for a, v in facts if a[0] == "call" and last_seg(a[1]) == "is_empty"]
        eqs = [const_char(a[3]) for a, v in facts if a[0] == "bin" and a[1] == "Eq" and v is True and const_char(a[3])]
        tageq = any(a[0] == "call" and last_seg(a[1]) in ("eq",) and v is True and
                    any(s[0] == "call" and last_seg(s[1]) == "to_string" for s in mir.subexprs(a)) for a, v in facts)
        if tageq:
            tagchar = True
        if True in empties and False not in empties:
            chars_empty |= set(eqs)
    W = _wrapsep(crate)
    if W.ok:
        # decided per (tag, character) world: the spelling of the conditions does not matter
        return W.untagged_escapes(), W.tag_escaped()
    return chars_empty, tagchar


def _wrapsep(crate):
    from ..wrapsep import WrapSep
    W = crate.__dict__.get("_wrapsep")
    if W is None:
        W = WrapSep(crate)
        crate.__dict__["_wrapsep"] = W
    return W


def renderer_rule(ctx, crate):
    tl = crate.fn("parsers::parser_line::tokens_to_line")
    ea = crate.fn("scripting::expand_args")
    if not ctx.require(tl is not None and ea is not None, "R16-2", "R16-2|anchor", "tokens_to_line / expand_args not found"):
        return
    ctx.analysed(tl)
    ctx.analysed(ea)
    # the script path really goes parse_line -> tokens_to_line
    chain = [last_seg(c) for bb, t, c in ea.calls()]
    ctx.ob("R16-2", ea.path, "script lines are re-rendered: parse_line, expand_args_in_tokens, tokens_to_line",
           "parse_line" in chain and "tokens_to_line" in chain, key="R16-2|%s|chain" % ea.path, crate=crate.kind,
           nontrivial=False)
    # anchors: the tokenizer side still tests these characters
    consts = set()
    for p in ("parsers::parser_line::parse_line", "parsers::parser_line::line_to_cmds"):
        b = crate.fn(p)
        if b is None:
            continue
        for bb in sorted(b.reachable):
            for tgt, atom, val in b.switch_edges(bb):
                for s in mir.subexprs(atom):
                    ch = const_char(s) if s[0] == "const" else None
                    if ch:
                        consts.add(ch)
    for ch in S:
        ctx.ob("R16-2", "parsers::parser_line", "tokenizer anchor: branches on %r" % ch, ch in consts,
               key="R16-2|anchor|%r" % ch, crate=crate.kind, nontrivial=False)
    # how are untagged / tagged tokens rendered?
    untagged_escapes = set()
    tagged_ok = False
    wrap_chars, tagchar = escape_set_for_untagged(ctx, crate)
    for bb, t, c in tl.calls():
        ls = last_seg(c)
        if ls == "push_str":
            a = tl.call_args(bb)
            src = tl.expand_vars(strip_sites(a[1]))
            facts = dom_facts(tl, bb)
            empt = [v for at, v in facts if at[0] == "call" and last_seg(at[1]) == "is_empty" and
                    any(s[0] == "field" and s[1] == 0 for s in mir.subexprs(at))]
            via_wrap = any(s[0] == "call" and last_seg(s[1]) == "wrap_sep_string" for s in mir.subexprs(src))
            if empt == [True]:
                if via_wrap and wrap_chars is not None:
                    untagged_escapes |= wrap_chars
            elif empt == [False]:
                tagged_ok = via_wrap and bool(tagchar)
            elif not empt and via_wrap:
                # every token goes through wrap_sep_string
                if wrap_chars is not None:
                    untagged_escapes |= wrap_chars
                tagged_ok = bool(tagchar)
    # the functional spelling: tokens.iter().map(|(sep, token)| if sep.is_empty() { token.clone() } else
    # { wrap_sep_string(sep, token) }).collect::<Vec<_>>().join(" ") - the closure returns the rendered word
    for fb in crate.closures_of(tl.path):
        rets = [strip_sites(fb.def_expr(bi, si)) for bi, si in fb.defs.get(0, [])]
        for bb, t, c in fb.calls():
            if last_seg(c) != "wrap_sep_string":
                continue
            res = strip_sites(fb.call_expr(bb))
            if not any(flow.backward(fb, r, lambda z: strip_sites(z) == res) is not None for r in rets):
                continue
            facts = dom_facts(fb, bb)
            empt = [v for at, v in facts if at[0] == "call" and last_seg(at[1]) == "is_empty"]
            if empt == [False]:
                tagged_ok = bool(tagchar)
            elif not empt:
                if wrap_chars is not None:
                    untagged_escapes |= wrap_chars
                tagged_ok = bool(tagchar)
    ctx.ob("R16-2", tl.path, "tagged tokens are rendered through wrap_sep_string(tag, text), which escapes the tag character",
           tagged_ok, key="R16-2|%s|tagged" % tl.path, crate=crate.kind)
    for ch, why in S.items():
        ok = ch in untagged_escapes
        name = {" ": "space", "\\": "backslash"}.get(ch, ch)
        ctx.ob("R16-2", tl.path, "untagged token text: %s is re-escaped (%s)" % (name, why), ok,
               key="R16-2|%s|unescaped|%s" % (tl.path, name), crate=crate.kind,
               detail=None if ok else "escape set of the renderer for untagged tokens: {%s}; in a script `echo a\\%s b` "
                                      "is re-tokenized differently from the prompt" % (
                                          ", ".join(sorted(repr(c) for c in untagged_escapes)), ch if ch != " " else " "))


def escapes_under_tag(crate):
    """(tag character escaped?, further constant characters escaped) by wrap_sep_string when sep is not empty"""
    w = crate.fn("tools::wrap_sep_string")
    if w is None:
        return None
    tagchar, extra = False, set()
    for bb, t, c in w.calls():
        if last_seg(c) == "push" and "String" in c and len(w.call_args(bb)) == 2 and const_char(w.call_args(bb)[1]) == "\\":
            facts = dom_facts(w, bb)
            empties = [v for a, v in facts if a[0] == "call" and last_seg(a[1]) == "is_empty"]
            if True in empties:
                continue
            for a, v in facts:
                if a[0] == "bin" and a[1] == "Eq" and v is True and const_char(a[3]):
                    extra.add(const_char(a[3]))
                if a[0] == "call" and last_seg(a[1]) == "eq" and v is True and \
                        any(s_[0] == "call" and last_seg(s_[1]) == "to_string" for s_ in mir.subexprs(a)):
                    tagchar = True
    W = _wrapsep(crate)
    if W.ok:
        return W.tag_escaped(), W.tagged_extra("\"")
    return tagchar, extra


def tag_escape_guards(crate):
    """extra conditions (beyond `c == tag` and being inside the loop) under which wrap_sep_string pushes the
    backslash in front of the tag character"""
    w = crate.fn("tools::wrap_sep_string")
    if w is None:
        return None
    found = None
    W = _wrapsep(crate)
    if W.ok and W.tag_escaped():
        return (W.bs[0], [] if W.tag_always_escaped() else
                ["under some further condition the tag character reaches the output without a backslash"])
    for bb, t, c in w.calls():
        if last_seg(c) == "push" and "String" in c and len(w.call_args(bb)) == 2 and const_char(w.call_args(bb)[1]) == "\\":
            facts = dom_facts(w, bb)
            is_tag = any(a[0] == "call" and last_seg(a[1]) == "eq" and v is True and
                         any(s_[0] == "call" and last_seg(s_[1]) == "to_string" for s_ in mir.subexprs(a)) for a, v in facts)
            if not is_tag:
                continue
            extra = []
            for a, v in facts:
                a2 = strip_sites(a)
                if a2[0] == "discr":
                    continue
                if a2[0] == "call" and last_seg(a2[1]) == "eq" and any(
                        s_[0] == "call" and last_seg(s_[1]) == "to_string" for s_ in mir.subexprs(a2)):
                    continue
                extra.append("%s=%s" % (render(a2)[:50], v))
            found = (bb, extra)
    return found


def dq_roundtrip_rule(ctx, crate):
    g = tag_escape_guards(crate)
    if g is not None:
        w = crate.fn("tools::wrap_sep_string")
        ctx.ob("R16-3", w.path, "the tag character is escaped wherever it occurs in the text (no further condition)", not g[1],
               key="R16-3|%s|tag-escape-narrowed" % w.path, where=w.loc(g[0]), crate=crate.kind,
               detail=None if not g[1] else "extra guard(s) %s: some occurrence of the quote character is written bare, the "
               "re-rendered string closes early and what follows (`;`, `&&`, `|`, `>`) turns from data into operators" %
               "; ".join(g[1]))
    else:
        ctx.require(False, "R16-3", "R16-3|tools::wrap_sep_string|tag-escape", "no backslash push under `c == tag` found in "
                    "wrap_sep_string")
    from .c01 import TokenizerModel
    b = crate.fn("parsers::parser_line::parse_line")
    if not ctx.require(b is not None, "R16-3", "R16-3|anchor", "parsers::parser_line::parse_line not found"):
        return
    M = TokenizerModel(b)
    if not ctx.require(M.ok, "R16-3", "R16-3|%s|model" % b.path, M.why or "tokenizer loop not recognised", b.path):
        return
    esc = escapes_under_tag(crate)
    if not ctx.require(esc is not None, "R16-3", "R16-3|anchor|wrap", "tools::wrap_sep_string not found"):
        return
    tagchar, extra = esc
    reps = sorted(M.constants() | {"a"})
    ctx.require(len(reps) >= 10, "R16-3", "R16-3|%s|constants" % b.path,
                "fewer character classes than expected in the tokenizer (%d)" % len(reps), b.path)
    for X in reps:
        bad, n = M.erased(X, "\"")
        ctx.paths_enumerated += n
        if not bad:
            ctx.ob("R16-3", b.path, "inside double quotes `\\%s` keeps its backslash" % (X if X != "a" else "<other>"), True,
                   crate=crate.kind, nontrivial=False)
            continue
        ok = (X == "\"" and tagchar) or X in extra
        name = {"\\": "backslash", "\"": "double-quote"}.get(X, X)
        ctx.ob("R16-3", b.path, "inside double quotes `\\%s` is unescaped by the tokenizer and re-escaped by the renderer" % X, ok,
               key="R16-3|%s|dq-unescaped-not-reescaped|%s" % (b.path, name), where=b.loc(bad[0]), crate=crate.kind,
               detail=None if ok else "a script line with \"..\\%s..\" is unescaped once more than the same line given to -c "
               "(wrap_sep_string re-escapes only {%s})" % (X, ", ".join(sorted(extra | ({'\"'} if tagchar else set())))))


def operator_after_quote_rule(ctx, crate):
    from .c10 import explore_after_close
    for X in (";", "&"):
        r = explore_after_close(ctx, crate, "R16-5", X)
        if r is None:
            return
        b, found, _ = r
        ok = found["glued"] == 0 and found["ended"] > 0
        ctx.ob("R16-5", b.path, "reading %r right after a closing quote ends the quoted word (%d path(s) end it, %d append the "
                                "character to it)" % (X, found["ended"], found["glued"]), ok,
               key="R16-5|%s|operator-after-quote|%s" % (b.path, X), crate=crate.kind,
               detail=None if ok else "the character joins the quoted word: a script line `cmd 'a'%s next` is re-rendered with the "
               "operator inside the quotes and `next` never runs as a command of its own" % (X if X == ";" else "&&"))


def double_pipe_rule(ctx, crate, rule):
    from .c02 import dom_facts
    b = crate.fn("parsers::parser_line::parse_line")
    if not ctx.require(b is not None, rule, "%s|anchor" % rule, "parsers::parser_line::parse_line not found"):
        return
    sites = []
    chosen = []
    for bb, t, c in b.calls():
        if last_seg(c) == "push" and "Vec" in c:
            a = b.call_args(bb)
            if len(a) == 2:
                v = b.expand_vars(strip_sites(a[1]))
                if v[0] == "agg" and v[1] == "tuple" and len(v[2]) == 2:
                    lits = [mir.const_str(x) for x in mir.subexprs(v[2][1]) if mir.const_str(x) is not None]
                    tags = [mir.const_str(x) for x in mir.subexprs(v[2][0]) if mir.const_str(x) is not None]
                    if any(x[0] == "call" and last_seg(x[1]) == "new" and "String" in x[1] for x in mir.subexprs(v[2][0])):
                        tags.append("")                  # String::new()
                    if "|" in lits and "" in tags:
                        sites.append(bb)
                    elif "" in tags:
                        # the operator text is chosen between "|" and "||" first and pushed once
                        alts = flow.const_alternatives(b, strip_sites(a[1])[2][1]) if strip_sites(a[1])[0] == "agg" else None
                        if alts is None:
                            for x in mir.subexprs(strip_sites(a[1])):
                                if x[0] in ("var", "tmp"):
                                    al = flow.const_alternatives(b, x)
                                    if al and "|" in al:
                                        alts = al
                        if alts and "|" in alts and "||" in alts:
                            chosen.append(bb)
    if not ctx.require(len(sites) + len(chosen) >= 2, rule, "%s|%s|sites" % (rule, b.path),
                       "expected the places where parse_line emits an untagged `|` token, found %d" % (len(sites) + len(chosen)),
                       b.path):
        return
    for n_, bb in enumerate(sorted(chosen)):
        # the choice between the two literals depends on a comparison with the next character
        ok = False
        for x in sorted(b.reachable):
            es = b.switch_edges(x)
            if len(es) >= 2 and b.dominates(x, bb) and x != bb:
                e = b.expand_vars(strip_sites(es[0][1]))
                if any(mir.const_char(sub) == "|" for sub in mir.subexprs(e)):
                    ok = True
        ctx.ob(rule, b.path, "the operator text (`|` or `||`) is chosen by a comparison of the next character with `|`", ok,
               key="%s|%s|pipe-choice#%d" % (rule, b.path, n_), where=b.loc(bb), crate=crate.kind)
    k = 0
    for bb in sorted(sites):
        # a look-ahead at the next character (its bounds guard `i + 1 < count`, or the comparison of nth(i + 1) with
        # `|` itself) has been evaluated before the push, and the `||` token is emitted on the other outcome
        ok = False
        for x in sorted(b.reachable):
            es = b.switch_edges(x)
            if len(es) < 2 or not b.dominates(x, bb) or x == bb:
                continue
            txt = render(strip_sites(es[0][1]))
            if ("nth" in txt and "'|'" in txt) or ("Chars::count" in txt and "+ 1" in txt):
                ok = True
        ctx.ob(rule, b.path, "an untagged `|` token is emitted only after the next character was seen not to be `|`", ok,
               key="%s|%s|single-pipe-lookahead#%d" % (rule, b.path, k), where=b.loc(bb), crate=crate.kind,
               detail=None if ok else "`a||b` without blanks (or `'q'||b`) is tokenized as `|`, `|`: on the script path the line "
               "is re-rendered with two pipes and nothing runs")
        k += 1


def backslash_agreement_rule(ctx, crate):
    from .c02 import dom_facts
    from .c01 import TokenizerModel
    pl = crate.fn("parsers::parser_line::parse_line")
    tl = crate.fn("parsers::parser_line::tokens_to_line")
    if not ctx.require(pl is not None and tl is not None, "R16-7", "R16-7|anchor", "parse_line / tokens_to_line not found"):
        return
    M = TokenizerModel(pl)
    if not ctx.require(M.ok, "R16-7", "R16-7|%s|model" % pl.path, M.why or "tokenizer loop not recognised", pl.path):
        return
    # tokenizer: a push of the current character reached under `c == '\\'` (kept verbatim)
    verbatim = []
    for bb in sorted(M.pushes_c):
        for a, v in dom_facts(pl, bb, within=M.blocks):
            a2 = strip_sites(a)
            if a2[0] == "bin" and a2[1] == "Eq" and v is True and a2[2] == M.cexpr and mir.const_char(a2[3]) == "\\":
                verbatim.append(bb)
    # renderer: backslashes of an untagged token doubled
    doubles = []
    for bb, t, c in tl.calls():
        if last_seg(c) in ("replace", "replacen") and "str" in c:
            a = tl.call_args(bb)
            frm = (mir.const_char(a[1]) or mir.const_str(tl.expand_vars(strip_sites(a[1])))) if len(a) > 1 else None
            to = mir.const_str(tl.expand_vars(strip_sites(a[2]))) if len(a) > 2 else None
            if frm == "\\" and to == "\\\\":
                untagged = any(strip_sites(x)[0] == "call" and last_seg(strip_sites(x)[1]) == "is_empty" and v is True
                               for x, v in dom_facts(tl, bb))
                if untagged:
                    doubles.append(bb)
    ok = not (verbatim and doubles)
    ctx.ob("R16-7", tl.path, "backslashes of untagged tokens: tokenizer keeps some verbatim (%d site(s)), renderer doubles them "
                             "(%d site(s))" % (len(verbatim), len(doubles)), ok,
           key="R16-7|%s|untagged-backslash-doubled" % tl.path, where=tl.loc((doubles or [0])[0]), crate=crate.kind,
           detail=None if ok else "a backslash the tokenizer never halved (inside the embedded quotes of `NAME=\"a\\.b\"`) is written "
           "back twice: the script path passes `a\\\\.b` where -c passes `a\\.b`")
