"""Facts about regex literals of the analysed program (via tools/refacts, which uses the same
regex / regex-syntax versions the program is built with)."""
import json
import os
import subprocess

from .facts import VERIF

TOOL = os.path.join(VERIF, "tools", "refacts", "target", "release", "refacts")
_cache = {}


def ensure_tool():
    src = os.path.join(VERIF, "tools", "refacts", "src", "main.rs")
    if os.path.exists(TOOL) and os.path.getmtime(TOOL) >= os.path.getmtime(src):
        return
    env = dict(os.environ)
    env["CARGO_NET_OFFLINE"] = "true"
    subprocess.run(["cargo", "build", "--release", "--offline"], cwd=os.path.join(VERIF, "tools", "refacts"),
                   env=env, capture_output=True, text=True)
    if not os.path.exists(TOOL):
        raise RuntimeError("cannot build tools/refacts")


def query(patterns):
    """{pattern: info dict}"""
    need = [p for p in dict.fromkeys(patterns) if p not in _cache]
    if need:
        ensure_tool()
        inp = "\n".join(json.dumps(p) for p in need) + "\n"
        r = subprocess.run([TOOL], input=inp, capture_output=True, text=True)
        lines = [l for l in r.stdout.splitlines() if l.strip()]
        for p, l in zip(need, lines):
            try:
                _cache[p] = json.loads(l)
            except ValueError:
                _cache[p] = {"ok": False, "error": "unparsable tool output"}
        for p in need:
            _cache.setdefault(p, {"ok": False, "error": "no tool output"})
    return {p: _cache[p] for p in patterns}


def info(pattern):
    return query([pattern])[pattern]


def matches(pattern, texts):
    """is_match of the program's regex literal on each text (same regex crate version as the program)"""
    ensure_tool()
    out = []
    texts = list(texts)
    for i in range(0, len(texts), 2000):
        chunk = texts[i:i + 2000]
        line = "M\t" + json.dumps(pattern) + "".join("\t" + json.dumps(t) for t in chunk) + "\n"
        r = subprocess.run([TOOL], input=line, capture_output=True, text=True)
        d = json.loads(r.stdout.splitlines()[0])
        if "m" not in d:
            raise RuntimeError("refacts match mode: %s" % d)
        out.extend(d["m"])
    return out


def captures1(pattern, texts):
    """group 1 of the first match of the program's regex literal on each text (None when there is no match)"""
    ensure_tool()
    texts = list(texts)
    line = "C\t" + json.dumps(pattern) + "".join("\t" + json.dumps(t) for t in texts) + "\n"
    r = subprocess.run([TOOL], input=line, capture_output=True, text=True)
    d = json.loads(r.stdout.splitlines()[0])
    if "c" not in d:
        raise RuntimeError("refacts capture mode: %s" % d)
    return d["c"]
