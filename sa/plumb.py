"""Model of the process plumbing (run_pipeline / run_single_program) shared by C02, C07, C08.

Obligations are `call(callee, canonical-arg) unless not guard`; guards are evaluated in a small
finite set of abstract worlds (relation of the stage index to the pipe count, zero-ness of the
index, capture flag, presence of the optional pipes).  A path's branch facts rule worlds out; an
obligation is demanded at an exit when some world consistent with the path makes its guard true
and no matching call lies on the path.

Slots are found by parameter TYPE, never by name.
"""
from . import mir
from .mir import subexprs as mir_subexprs, FactWalker, const_int, fld, last_seg, render, strip_sites

FD_PAIR = "(i32, i32)"


class Slots:
    def __init__(self, body):
        self.body = body
        self.pipes = self.idx = self.cap = self.pgid = self.options = self.cl = None
        caps = []
        for l in range(1, body.arg_count + 1):
            ty = body.locals[l]["ty"]
            e = body.local_expr(l)
            if ty in ("&[(i32, i32)]", "&std::vec::Vec<(i32, i32)>"):
                self.pipes = e
            elif ty == "usize":
                self.idx = e
            elif ty == "&std::option::Option<(i32, i32)>":
                caps.append(e)
            elif ty == "&mut i32":
                self.pgid = e
            elif ty.endswith("types::CommandOptions"):
                self.options = e
            elif ty.endswith("types::CommandLine"):
                self.cl = e
        self.cap_out = caps[0] if len(caps) > 0 else None
        self.cap_err = caps[1] if len(caps) > 1 else None
        self.hs = None
        for l, nm in sorted(body.names.items()):
            if not body.is_param(l) and body.locals[l]["ty"] == "std::option::Option<(i32, i32)>":
                self.hs = ("var", l, nm)
                break

    def ok(self):
        return all(x is not None for x in (self.pipes, self.idx, self.cap_out, self.cap_err, self.options, self.cl))

    def some(self, opt):
        """the (r, w) pair inside an Option slot"""
        return fld(0, ("downcast", "Some", opt), "0")


def linear(slots, e):
    """(base, offset) with base in idx / count / const, or None"""
    e = strip_sites(e)
    while e[0] == "cast":
        e = e[2]
    c = const_int(e)
    if c is not None:
        return ("const", c)
    if e == strip_sites(slots.idx):
        return ("idx", 0)
    if e[0] == "call" and last_seg(e[1]) == "len" and len(e[2]) == 1 and mir.peel(e[2][0]) == strip_sites(slots.pipes):
        return ("count", 0)
    if e[0] == "bin" and e[1] in ("Add", "Sub"):
        a = linear(slots, e[2])
        b = linear(slots, e[3])
        if a and b and b[0] == "const":
            return (a[0], a[1] + (b[1] if e[1] == "Add" else -b[1]))
        if a and b and a[0] == "const" and e[1] == "Add":
            return (b[0], b[1] + a[1])
    return None


INF = 10 ** 9
OPS = {"Lt": lambda x, y: x < y, "Le": lambda x, y: x <= y, "Gt": lambda x, y: x > y,
       "Ge": lambda x, y: x >= y, "Eq": lambda x, y: x == y, "Ne": lambda x, y: x != y}


def _interval_cmp(lo, hi, op, c):
    """truth of `v op c` for all v in [lo, hi]: True / False / None"""
    f = OPS[op]
    pts = [lo, hi]
    if lo <= c <= hi:
        pts.append(c)
        if c - 1 >= lo:
            pts.append(c - 1)
        if c + 1 <= hi:
            pts.append(c + 1)
    rs = {f(p, c) for p in pts}
    if rs == {True}:
        return True
    if rs == {False}:
        return False
    return None


def eval_linear(slots, atom, world):
    """truth of a comparison atom between idx / count / constants in a world, or None"""
    if atom[0] != "bin" or atom[1] not in OPS:
        return None
    a = linear(slots, atom[2])
    b = linear(slots, atom[3])
    if a is None or b is None:
        return None
    op = atom[1]
    kinds = (a[0], b[0])
    rel, zero = world["rel"], world["zero"]
    if kinds == ("idx", "count") or kinds == ("count", "idx"):
        if kinds == ("count", "idx"):
            a, b = b, a
            op = {"Lt": "Gt", "Gt": "Lt", "Le": "Ge", "Ge": "Le"}.get(op, op)
        # (idx + a1) op (count + b1)  <=>  d op (b1 - a1),  d = idx - count
        c = b[1] - a[1]
        lo, hi = (-INF, -1) if rel == "LT" else (0, 0)
        return _interval_cmp(lo, hi, op, c)
    if kinds == ("idx", "const") or kinds == ("const", "idx"):
        if kinds == ("const", "idx"):
            a, b = b, a
            op = {"Lt": "Gt", "Gt": "Lt", "Le": "Ge", "Ge": "Le"}.get(op, op)
        c = b[1] - a[1]
        lo, hi = (0, 0) if zero == "Z" else (1, INF)
        return _interval_cmp(lo, hi, op, c)
    if kinds == ("count", "const") or kinds == ("const", "count"):
        if kinds == ("const", "count"):
            a, b = b, a
            op = {"Lt": "Gt", "Gt": "Lt", "Le": "Ge", "Ge": "Le"}.get(op, op)
        c = b[1] - a[1]
        if rel == "EQ":
            lo, hi = (0, 0) if zero == "Z" else (1, INF)
        else:
            lo, hi = (1, INF) if zero == "Z" else (2, INF)
        return _interval_cmp(lo, hi, op, c)
    if kinds == ("const", "const"):
        return OPS[op](a[1], b[1])
    return None


def all_worlds():
    out = []
    for rel in ("LT", "EQ"):
        for zero in ("Z", "P"):
            for cap in (True, False):
                for co in ("Some", "None"):
                    for ce in ("Some", "None"):
                        for hs in ("Some", "None"):
                            for HS in (True, False):
                                out.append({"rel": rel, "zero": zero, "cap": cap, "co": co, "ce": ce,
                                            "hs": hs, "HS": HS})
    return out


class Model:
    def __init__(self, crate, body):
        self.crate = crate
        self.body = body
        self.s = Slots(body)
        self.worlds = all_worlds()
        # lemma L3 (caller invariant, verified structurally by verify_lemmas): the capture pipes exist
        # only when output is captured
        self.worlds = [w for w in self.worlds if w["cap"] or (w["co"] == "None" and w["ce"] == "None")]
        self.single_builtin_has_no_capture_pipes = False
        s = self.s
        self.cap_flag = None
        self._slot_locals = set()
        for e in (s.pipes, s.idx, s.cap_out, s.cap_err, s.options, s.cl, s.hs, s.pgid):
            if e is not None:
                self._slot_locals.add(e[1])

    # ---- fact interpretation
    def is_cap_flag(self, atom):
        a = mir.peel(atom)
        return a[0] == "field" and mir.field_name(a) == "capture_output" and a[2] == strip_sites(self.s.options)

    def world_consistent(self, world, facts):
        s = self.s
        for atom, val in facts:
            r = eval_linear(s, atom, world)
            if r is not None and isinstance(val, bool) and r != val:
                return False
            if self.is_cap_flag(atom) and isinstance(val, bool) and world["cap"] != val:
                return False
            if atom[0] == "discr":
                x = atom[1]
                if x == strip_sites(s.cap_out) and val in ("Some", "None") and world["co"] != val:
                    return False
                if x == strip_sites(s.cap_err) and val in ("Some", "None") and world["ce"] != val:
                    return False
                if s.hs is not None and x == s.hs and val in ("Some", "None") and world["hs"] != val:
                    return False
            if atom[0] == "call" and last_seg(atom[1]) == "has_here_string" and isinstance(val, bool):
                if world["HS"] != val:
                    return False
            # lemma L2: has_here_string() <=> redirect_from == Some(("<<<", _))
            if atom[0] == "discr" and atom[1][0] == "field" and mir.field_name(atom[1]) == "redirect_from":
                if val == "None" and world["HS"]:
                    return False
            if atom[0] == "call" and last_seg(atom[1]) in ("eq", "ne") and len(atom[2]) == 2 and isinstance(val, bool):
                lit = mir.const_str(atom[2][1])
                lhs = atom[2][0]
                if lit == "<<<" and any(sub[0] == "field" and mir.field_name(sub) == "redirect_from"
                                        for sub in mir.subexprs(lhs)):
                    truth = val if last_seg(atom[1]) == "eq" else (not val)
                    if world["HS"] != truth:
                        return False
            # lemma L1: a single builtin command line has no pipes and stage index 0
            if atom[0] == "call" and last_seg(atom[1]) == "is_single_and_builtin" and val is True:
                if world["rel"] != "EQ" or world["zero"] != "Z":
                    return False
                # lemma L4 (optional, verified in run_pipeline): no capture pipes are created for a single builtin
                if self.single_builtin_has_no_capture_pipes and (world["co"] == "Some" or world["ce"] == "Some"):
                    return False
        return True

    def relevant(self, atom):
        if eval_linear(self.s, atom, self.worlds[0]) is not None or self.is_cap_flag(atom):
            return True
        if atom[0] == "discr" and atom[1] in (strip_sites(self.s.cap_out), strip_sites(self.s.cap_err), self.s.hs):
            return True
        if atom[0] == "discr" and atom[1][0] == "field" and mir.field_name(atom[1]) == "redirect_from":
            return True
        if atom[0] == "call" and last_seg(atom[1]) in ("eq", "ne") and len(atom[2]) == 2 \
                and mir.const_str(atom[2][1]) == "<<<":
            return True
        if atom[0] == "discr":
            for sub in mir.subexprs(atom):
                if sub[0] == "call" and last_seg(sub[1]) in ("fork", "pipe", "try_run_builtin",
                                                             "try_run_builtin_in_subprocess", "execve"):
                    return True
        for sub in mir.subexprs(atom):
            if atom[0] == "call" and sub is atom and last_seg(sub[1]) in ("has_here_string", "is_single_and_builtin"):
                return True
        return False

    def path_class(self, facts):
        cls = "other"
        for atom, val in facts:
            if atom[0] == "discr":
                for sub in mir.subexprs(atom[1]):
                    pass
                a = atom[1]
                if a[0] == "call" and last_seg(a[1]) == "fork" and val == "Err":
                    return "fork-failed"
                if a[0] == "field" and a[2][0] == "downcast" and a[2][2][0] == "call" and last_seg(a[2][2][1]) == "fork":
                    if val == "Child":
                        return "child"
                    if val == "Parent":
                        cls = "parent"
                if a[0] == "call" and last_seg(a[1]) == "pipe" and val == "Err":
                    return "here-string-pipe-failed"
            if atom[0] == "call" and last_seg(atom[1]) == "is_single_and_builtin" and val is True:
                return "single-builtin"
        return cls

    # ---- obligations
    def obligations(self):
        s = self.s
        P, I = strip_sites(s.pipes), strip_sites(s.idx)
        cur = ("index", P, I)
        prev = ("index", P, ("bin", "Sub", I, ("const", 1)))
        co, ce = s.some(strip_sites(s.cap_out)), s.some(strip_sites(s.cap_err))
        hs = s.some(s.hs) if s.hs is not None else None
        pgid = strip_sites(s.pgid) if s.pgid is not None else None
        obs = []

        def ob(oid, region, callee, args, guard, desc, after=None):
            obs.append({"id": oid, "region": region, "callee": callee, "args": args, "guard": guard,
                        "desc": desc, "after": after})

        lt = lambda w: w["rel"] == "LT"
        pos = lambda w: w["zero"] == "P"
        last_cap_o = lambda w: w["rel"] == "EQ" and w["cap"] and w["co"] == "Some"
        last_cap_e = lambda w: w["rel"] == "EQ" and w["cap"] and w["ce"] == "Some"
        has_hs = lambda w: w["hs"] == "Some"
        # shell-process side
        ob("P1", "shell", "close", (fld(1, cur),), lt, "close(pipes[idx].1)")
        ob("P2", "shell", "close", (fld(0, prev),), pos, "close(pipes[idx-1].0)")
        ob("P3a", "shell", "close", (fld(1, co),), last_cap_o, "close(capture_stdout.1)")
        ob("P3b", "shell", "from_raw_fd", (fld(0, co),), last_cap_o, "File::from_raw_fd(capture_stdout.0)")
        ob("P4a", "shell", "close", (fld(1, ce),), last_cap_e, "close(capture_stderr.1)")
        ob("P4b", "shell", "from_raw_fd", (fld(0, ce),), last_cap_e, "File::from_raw_fd(capture_stderr.0)")
        if hs is not None:
            ob("P5a", "shell", "close", (fld(0, hs),), has_hs, "close(here_string.0)")
            ob("P5b", "shell", "from_raw_fd", (fld(1, hs),), has_hs, "File::from_raw_fd(here_string.1)")
        # child side, before exec
        ob("K2a", "child", "dup2", (fld(0, prev), ("const", 0)), pos, "dup2(pipes[idx-1].0, 0)")
        ob("K2b", "child", "close", (fld(0, prev),), pos, "close(pipes[idx-1].0) after dup2", after="K2a")
        ob("K3a", "child", "dup2", (fld(1, cur), ("const", 1)), lt, "dup2(pipes[idx].1, 1)")
        ob("K3b", "child", "close", (fld(1, cur),), lt, "close(pipes[idx].1) after dup2", after="K3a")
        ob("K3c", "child", "close", (fld(0, cur),), lt, "close(pipes[idx].0)")
        anyw = lambda w: True
        ob("K5a", "child", "close", (fld(0, co),), lambda w: w["co"] == "Some", "close(capture_stdout.0) in every stage")
        ob("K5b", "child", "close", (fld(1, co),), lambda w: w["co"] == "Some", "close(capture_stdout.1) in every stage")
        ob("K5c", "child", "close", (fld(0, ce),), lambda w: w["ce"] == "Some", "close(capture_stderr.0) in every stage")
        ob("K5d", "child", "close", (fld(1, ce),), lambda w: w["ce"] == "Some", "close(capture_stderr.1) in every stage")
        if hs is not None:
            ob("K6a", "child", "close", (fld(1, hs),), has_hs, "close(here_string.1)")
            ob("K6b", "child", "dup2", (fld(0, hs), ("const", 0)), has_hs, "dup2(here_string.0, 0)")
            ob("K6c", "child", "close", (fld(0, hs),), has_hs, "close(here_string.0) after dup2", after="K6b")
        ob("K1z", "child", "setpgid", (("const", 0), "GETPID"), lambda w: w["zero"] == "Z", "setpgid(0, getpid()) in stage 0")
        if pgid is not None:
            ob("K1p", "child", "setpgid", (("const", 0), pgid), pos, "setpgid(0, *pgid) in later stages")
        ob("K4", "child", "LOOP", (), anyw, "loop closing pipes[j].0 and pipes[j].1 for j in idx+1..count")
        return obs

    def helper_summary(self, path):
        """calls a local helper performs on EVERY path (they post-dominate its entry), with arguments expressed
        over the helper's parameters: [(callee_last, (arg exprs...))].  One level of inlining for the
        `extract a helper around a close` refactor."""
        cache = self.crate.__dict__.setdefault("_plumb_helper", {})
        if path in cache:
            return cache[path]
        cache[path] = []
        h = self.crate.fn(path)
        out = []
        if h is not None and h.kind == "fn" and h.n <= 60 and path != self.body.path:
            ex = h.n          # virtual exit node in pdom
            for bb, t, c in h.calls():
                if ex in h.pdom and bb in h.pdom.get(0, ()):
                    args = tuple(_deep_peel(h.expand_vars(strip_sites(a))) for a in h.call_args(bb))
                    out.append((last_seg(c), args))
        cache[path] = out
        return out

    def match_call(self, ob, bb):
        body = self.body
        t = body.term(bb)
        if t["k"] != "call":
            return False
        # releasing a descriptor by close() is as good as wrapping it in a File (which closes it when dropped)
        if ob["callee"] == "from_raw_fd" and last_seg(body.callee(t)) == "close" and ob["region"] == "shell":
            args_c = [self.canon(a) for a in body.call_args(bb)]
            if len(args_c) >= 1 and args_c[0] == ob["args"][0]:
                return True
        if last_seg(body.callee(t)) != ob["callee"]:
            ci = body.callee_info(t)
            if ci is None or not ci.get("local") or ob["callee"] == "LOOP":
                return False
            # a local helper that always performs the wanted call on one of its parameters
            actual = [self.canon(a) for a in body.call_args(bb)]
            for name, hargs in self.helper_summary(ci["resolved"]):
                if name != ob["callee"] or len(hargs) < len(ob["args"]):
                    continue
                ok = True
                for ha, w in zip(hargs, ob["args"]):
                    if w == "GETPID":
                        ok = ha[0] == "call" and last_seg(ha[1]) == "getpid"
                    else:
                        ok = _subst_params(ha, actual) == w
                    if not ok:
                        break
                if ok:
                    return True
            return False
        args = [self.canon(a) for a in body.call_args(bb)]
        want = ob["args"]
        if len(args) < len(want):
            return False
        for a, w in zip(args, want):
            if w == "GETPID":
                if not (a[0] == "call" and last_seg(a[1]) == "getpid") and not self._chosen_value_matches(bb, a, w, ob):
                    return False
                continue
            if a != w:
                if not self._chosen_value_matches(bb, a, w, ob):
                    return False
        return True

    def _chosen_value_matches(self, bb, actual, wanted, ob):
        """`let g = if first { getpid() } else { *pgid }; setpgid(0, g)`: the argument is a local chosen between several
        values.  The call meets the obligation when one of its definitions is the wanted expression and that definition
        is the one taken in every world in which the obligation has to hold (its dominating tests allow the world, the
        tests of the other definitions do not)."""
        from .rules.c02 import dom_facts
        body = self.body
        if actual[0] != "var":
            return False
        l = actual[1]
        defs = body.defs.get(l, [])
        if len(defs) < 2 or len(defs) > 4:
            return False
        good, others = None, []
        for bi, si in defs:
            e = self.canon(body.def_expr(bi, si))
            hit = (wanted == "GETPID" and e[0] == "call" and last_seg(e[1]) == "getpid") or e == wanted
            if hit and good is None:
                good = bi
            else:
                others.append(bi)
        if good is None:
            return False
        worlds = [w for w in self.worlds if ob["guard"](w)]
        if not worlds:
            return False
        from .etag import derived_facts
        gf = [(strip_sites(a), v) for a, v in derived_facts(body, dom_facts(body, good))]
        for w in worlds:
            if not self.world_consistent(w, gf):
                return False
            for ob_ in others:
                of = [(strip_sites(a), v) for a, v in derived_facts(body, dom_facts(body, ob_))]
                if self.world_consistent(w, of) and set(of) != set(gf):
                    # another definition could be the one taken in this world
                    return False
        return True

    def canon(self, e):
        e = strip_sites(e)
        e = self.body.expand_vars(e)
        # peel identity wrappers (copies of the fd pair)
        return _deep_peel(e)

    def closing_loops(self):
        """headers of loops over idx+1..count whose body closes both ends of pipes[j] on every iteration"""
        body = self.body
        s = self.s
        out = set()
        P, I = strip_sites(s.pipes), strip_sites(s.idx)
        for h, blocks in body.loops().items():
            nextbb = None
            for bb in blocks:
                t = body.term(bb)
                if t["k"] == "call" and last_seg(body.callee(t)) == "next":
                    nextbb = bb
            if nextbb is None:
                continue
            it = body.call_args(nextbb)[0]
            rng = None
            from . import flow
            hit = flow.backward(body, it, lambda e: e[0] == "agg" and e[1].endswith("Range::Range"))
            if hit is None:
                # the same walk written with iterators: pipes.iter().skip(idx + 1) / pipes[idx + 1..].iter()
                hs_ = flow.backward(body, it, lambda e: e[0] == "call" and last_seg(e[1]) == "skip" and len(e[2]) == 2 and
                                    linear(s, e[2][1]) == ("idx", 1) and
                                    any(self.canon(x) == P or strip_sites(x) == P for x in mir_subexprs(e[2][0])))
                if hs_ is None:
                    continue
                el = self.canon(fld(0, ("downcast", "Some", strip_sites(body.call_expr(nextbb))), "0"))
            else:
                lo = linear(s, hit[2][0])
                hi = linear(s, hit[2][1])
                if lo != ("idx", 1) or hi != ("count", 0):
                    continue
                j = self.canon(fld(0, ("downcast", "Some", strip_sites(body.call_expr(nextbb))), "0"))
                el = ("index", P, j)
            need = {0: set(), 1: set()}
            for bb in blocks:
                t = body.term(bb)
                if t["k"] == "call" and last_seg(body.callee(t)) == "close":
                    a = self.canon(body.call_args(bb)[0])
                    for k in (0, 1):
                        if a == fld(k, el):
                            need[k].add(bb)
            # both closes on every path from the Some edge to the back edge
            some_tgt = [tgt for tgt, atom, val in body.switch_edges(body.succs[nextbb][0]) if val == "Some"] \
                if body.succs[nextbb] else []
            if not some_tgt:
                continue
            ok = True
            for k in (0, 1):
                if not need[k] or not flow.must_pass(body, some_tgt[0], need[k], {h}, within=blocks):
                    ok = False
            # single exit: iterator exhaustion
            exits = [(a, b) for a in blocks for b in body.succs[a] if b not in blocks]
            if ok and len(exits) == 1:
                out.add(h)
        # pipes.iter().skip(idx + 1).for_each(helper): the helper closes both ends of its argument on every path
        for bb, t, c in body.calls():
            if last_seg(c) != "for_each" or len(body.call_args(bb)) < 2:
                continue
            a0 = body.expand_vars(strip_sites(body.call_args(bb)[0]))
            sk = [e for e in mir_subexprs(a0) if e[0] == "call" and last_seg(e[1]) == "skip" and len(e[2]) == 2 and
                  linear(s, e[2][1]) == ("idx", 1) and any(self.canon(x) == P or strip_sites(x) == P for x in mir_subexprs(e[2][0]))]
            if not sk:
                continue
            fn = None
            for x in mir_subexprs(body.expand_vars(strip_sites(body.call_args(bb)[1]))):
                if x[0] in ("fnptr", "const") and isinstance(x[1], str) and self.crate.fn(x[1]) is not None:
                    fn = self.crate.fn(x[1])
                if x[0] == "const" and isinstance(x[1], tuple) and x[1] and x[1][0] == "fn" and self.crate.fn(x[1][1]) is not None:
                    fn = self.crate.fn(x[1][1])
            if fn is None:
                continue
            closes = {0: set(), 1: set()}
            for b2, t2, c2 in fn.calls():
                if last_seg(c2) == "close" and fn.call_args(b2):
                    e = fn.expand_vars(strip_sites(fn.call_args(b2)[0]))
                    if e[0] == "field" and e[1] in (0, 1) and e[2][0] == "param":
                        closes[e[1]].add(b2)
            rets = {x for x in fn.reachable if fn.term(x)["k"] == "return"}
            from . import flow as _fl
            if all(closes[k] and _fl.must_pass(fn, 0, closes[k], rets) for k in (0, 1)):
                out.add(bb)
        return out

    # ---- exploration
    def fact_allows(self, world, atom, val):
        return self.world_consistent(world, ((atom, val),))

    def class_of_edge(self, cls, atom, val):
        if atom is None:
            return cls
        if atom[0] == "discr":
            a = atom[1]
            if a[0] == "call" and last_seg(a[1]) == "fork" and val == "Err":
                return "fork-failed"
            if a[0] == "field" and a[2][0] == "downcast" and a[2][2][0] == "call" and last_seg(a[2][2][1]) == "fork":
                if val == "Child":
                    return "child"
                if val == "Parent":
                    return "parent"
            if a[0] == "call" and last_seg(a[1]) == "pipe" and val == "Err" and cls == "other":
                return "here-string-pipe-failed"
        if atom[0] == "call" and last_seg(atom[1]) == "is_single_and_builtin" and val is True and cls == "other":
            return "single-builtin"
        return cls

    def hs_assign(self, bb):
        """effect of the block on the optional here-string pipe variable: 'Some' / 'None' / 'any' / None"""
        if self.s.hs is None:
            return None
        l = self.s.hs[1]
        res = None
        for st in self.body.blocks[bb]["stmts"]:
            if st["k"] == "assign" and st["place"]["l"] == l and not st["place"]["p"]:
                rv = st["rv"]
                if rv["k"] == "agg" and rv.get("agg") == "adt" and rv["variant"] in ("Some", "None"):
                    res = rv["variant"]
                else:
                    res = "any"
        t = self.body.term(bb)
        if t["k"] == "call" and t["dest"]["l"] == l:
            res = "any"
        return res

    def explore(self, exit_pred, region):
        """walk all paths from entry over (block, set of possible worlds, satisfied obligations, path class);
        at blocks where exit_pred(bb) holds, report obligations whose guard is possible and that are unmet.
        returns (failures, nstates): failures = list of (ob, path_class, bb)"""
        seen, obs = self._walk(region)
        worlds = self.worlds
        nW = len(worlds)
        failures = []
        for bb, (mask, sat, cls) in seen:
            if not exit_pred(bb):
                continue
            if region == "child" and cls != "child":
                continue
            if region == "shell" and cls == "child":
                continue
            ws = [worlds[i] for i in range(nW) if mask >> i & 1]
            for o in obs:
                if o["id"] in sat:
                    continue
                if any(o["guard"](wd) for wd in ws):
                    failures.append((o, cls, bb))
        return failures, len(seen)

    def stale_uses(self):
        """operations that name pipes[idx-1].1.  The shell released that end at the previous stage (P1, proven
        on every regular return), so at this stage the *number* is stale: a descriptor created since - in this
        function only the here-string pipe - may own it.  Returns [(bb, op, region, live)], live = on some path
        to the operation the here-string pipe exists (stage > 0) and has not yet been installed / consumed."""
        body = self.body
        s = self.s
        P, I = strip_sites(s.pipes), strip_sites(s.idx)
        stale = fld(1, ("index", P, ("bin", "Sub", I, ("const", 1))))
        sites = {}
        for bb, t, c in body.calls():
            if last_seg(c) in ("close", "dup2", "dup", "from_raw_fd", "write", "read"):
                a = body.call_args(bb)
                if a and self.canon(a[0]) == stale:
                    sites[bb] = last_seg(c)
        out = []
        if not sites:
            return out
        worlds = self.worlds
        nW = len(worlds)
        for region, marker in (("child", "K6b"), ("shell", "P5b")):
            seen, obs = self._walk(region)
            agg = {}
            for bb, (mask, sat, cls) in seen:
                if bb not in sites:
                    continue
                if (region == "child") != (cls == "child"):
                    continue
                live = marker not in sat and any(
                    worlds[i]["zero"] == "P" and worlds[i]["hs"] == "Some" for i in range(nW) if mask >> i & 1)
                agg[bb] = agg.get(bb, False) or live
            for bb, live in sorted(agg.items()):
                out.append((bb, sites[bb], region, live))
        return out

    def _walk(self, region):
        body = self.body
        obs = [o for o in self.obligations() if o["region"] == region]
        loops_ok = self.closing_loops() if region == "child" else set()
        w = FactWalker(body, self.relevant)
        worlds = self.worlds
        nW = len(worlds)
        allmask = (1 << nW) - 1
        edge_cache = {}
        hs_some = sum(1 << i for i, wd in enumerate(worlds) if wd["hs"] == "Some")
        hs_none = allmask & ~hs_some
        # index of the world that differs only in hs
        twin = {}
        for i, wd in enumerate(worlds):
            for j2, w2 in enumerate(worlds):
                if i != j2 and all(wd[k] == w2[k] for k in wd if k != "hs"):
                    twin[i] = j2
        match_cache = {}

        def edge_mask(atom, val):
            k = (atom, val if not isinstance(val, list) else tuple(val))
            m = edge_cache.get(k)
            if m is None:
                m = 0
                for i, wd in enumerate(worlds):
                    if self.fact_allows(wd, atom, val):
                        m |= 1 << i
                edge_cache[k] = m
            return m

        def matches(bb):
            r = match_cache.get(bb)
            if r is None:
                r = set()
                for o in obs:
                    if o["callee"] == "LOOP":
                        if bb in loops_ok:
                            r.add(o["id"])
                    elif self.match_call(o, bb):
                        r.add(o["id"])
                match_cache[bb] = r
            return r

        after = {o["id"]: o["after"] for o in obs}

        def step(bb, st):
            mask, sat, cls = st
            m = matches(bb)
            if m:
                ns = set(sat)
                for oid in m:
                    if after.get(oid) and after[oid] not in ns:
                        continue
                    ns.add(oid)
                sat = frozenset(ns)
            ha = self.hs_assign(bb)
            if ha is not None:
                nm = 0
                for i in range(nW):
                    if mask >> i & 1:
                        for j2 in (i, twin[i]):
                            if ha == "any" or worlds[j2]["hs"] == ha:
                                nm |= 1 << j2
                mask = nm
            out = []
            for nb, atom, val in w.edges(bb):
                if (bb, nb) in w.cut:
                    continue
                m2 = mask
                c2 = cls
                if atom is not None and self.relevant(atom):
                    m2 = mask & edge_mask(atom, val)
                    if m2 == 0:
                        continue
                    c2 = self.class_of_edge(cls, atom, val)
                out.append((nb, (m2, sat, c2)))
            return out

        # a resource that has not been created yet is absent
        cache = self.__dict__.setdefault("_walk_cache", {})
        if region not in cache:
            cache[region] = (mir.explore(body, 0, (hs_none, frozenset(), "other"), step), obs)
        return cache[region]


def _subst_params(e, actual):
    """replace ('param', i, _) of a helper by the caller's actual argument expressions"""
    if not isinstance(e, tuple) or not e:
        return e
    if e[0] == "param":
        i = e[1] - 1
        return actual[i] if 0 <= i < len(actual) else e
    if e[0] in ("const", "var", "tmp", "capture"):
        return e
    r = tuple(_subst_params(x, actual) if isinstance(x, tuple) and x and isinstance(x[0], str)
              else (tuple(_subst_params(y, actual) for y in x) if isinstance(x, tuple) else x) for x in e)
    return _deep_peel(r)


def _deep_peel(e):
    if not isinstance(e, tuple) or not e:
        return e
    p = mir.peel(e)
    while p is not e:
        e = p
        p = mir.peel(e)
    if e[0] in ("const", "param", "var", "tmp", "capture"):
        return e
    return tuple(_deep_peel(x) if isinstance(x, tuple) and x and isinstance(x[0], str)
                 else (tuple(_deep_peel(y) for y in x) if isinstance(x, tuple) else x) for x in e)


# =====================================================================================
# run_pipeline: ownership typestate of the pipe vector and the two capture pipes
# =====================================================================================
class PipelineModel:
    def __init__(self, crate, body):
        self.crate = crate
        self.body = body
        b = body
        self.pipes = None      # the Vec<(RawFd, RawFd)> local
        self.caps = []         # Option<(RawFd, RawFd)> locals, in declaration order
        for l, nm in sorted(b.names.items()):
            ty = b.locals[l]["ty"]
            if b.is_param(l):
                continue
            if ty == "std::vec::Vec<(i32, i32)>" and self.pipes is None:
                self.pipes = ("var", l, nm)
            if ty == "std::option::Option<(i32, i32)>":
                self.caps.append(("var", l, nm))
        self.length = None
        self.notes = []
        self._classify_loops()

    def ok(self):
        return self.pipes is not None and len(self.caps) >= 2 and self.stage_loop is not None \
            and self.creation_loop is not None

    def _loop_next(self, blocks):
        b = self.body
        for bb in sorted(blocks):
            t = b.term(bb)
            if t["k"] == "call" and last_seg(b.callee(t)) == "next":
                return bb
        return None

    def _classify_loops(self):
        from . import flow
        b = self.body
        self.creation_loop = self.stage_loop = None
        self.release_loops = set()
        self.creation_info = {}
        self.stage_info = {}
        for h, blocks in sorted(b.loops().items()):
            nb = self._loop_next(blocks)
            if nb is None:
                continue
            it = b.call_args(nb)[0]
            rng = flow.backward(b, it, lambda e: e[0] == "agg" and e[1].endswith("Range::Range"))
            exits = [(x, y) for x in sorted(blocks) for y in b.succs[x] if y not in blocks]
            calls = {}
            for bb in blocks:
                t = b.term(bb)
                if t["k"] == "call":
                    calls.setdefault(last_seg(b.callee(t)), []).append(bb)
            if "pipe" in calls and "push" in calls and rng is not None:
                self.creation_loop = h
                self.creation_info = {"range": rng, "exits": exits, "blocks": blocks, "next": nb,
                                      "pipe": calls["pipe"], "push": calls["push"]}
            elif "run_single_program" in calls and rng is not None:
                self.stage_loop = h
                self.stage_info = {"range": rng, "exits": exits, "blocks": blocks, "next": nb,
                                   "call": calls["run_single_program"]}
            elif "close" in calls and rng is None and self.pipes is not None:
                # for fds in pipes { close(fds.0); close(fds.1) }
                src = flow.backward(b, it, lambda e: e == self.pipes)
                if src is not None and len(exits) == 1:
                    el = fld(0, ("downcast", "Some", strip_sites(b.call_expr(nb))), "0")
                    got = set()
                    for bb in calls["close"]:
                        a = _deep_peel(b.expand_vars(strip_sites(b.call_args(bb)[0])))
                        for k in (0, 1):
                            if a == fld(k, _deep_peel(b.expand_vars(el))):
                                got.add(k)
                    if got == {0, 1}:
                        self.release_loops.add(h)

    def len_commands(self, e):
        e = strip_sites(e)
        while e[0] == "cast":
            e = e[2]
        return e[0] == "call" and last_seg(e[1]) == "len" and any(
            sub[0] == "field" and mir.field_name(sub) == "commands" for sub in mir.subexprs(e))

    def check_shapes(self):
        """R02-1: list of (id, ok, description, where)"""
        b = self.body
        out = []
        ci, si = self.creation_info, self.stage_info
        if ci:
            lo, hi = ci["range"][2][0], ci["range"][2][1]
            hi_s = strip_sites(hi)
            ok_hi = hi_s[0] == "bin" and hi_s[1] == "Sub" and self.len_commands(hi_s[2]) and const_int(hi_s[3]) == 1
            out.append(("creation-bound", const_int(lo) == 0 and ok_hi,
                        "pipe creation loop runs over 0..commands.len()-1 (got %s..%s)" % (render(lo), render(hi)),
                        b.loc(ci["next"])))
            # each Ok iteration pushes the payload
            pushes_ok = False
            for pb in ci["push"]:
                args = b.call_args(pb)
                if len(args) == 2 and mir.root_local_expr(args[0]) == self.pipes[1]:
                    a = strip_sites(args[1])
                    if any(sub[0] == "downcast" and sub[1] == "Ok" for sub in mir.subexprs(a)):
                        pushes_ok = True
            out.append(("creation-push", pushes_ok, "each successful pipe() is pushed into the pipe vector",
                        b.loc(ci["pipe"][0])))
        if si:
            lo, hi = si["range"][2][0], si["range"][2][1]
            out.append(("stage-bound", const_int(lo) == 0 and self.len_commands(hi),
                        "stage loop runs over 0..commands.len() (got %s..%s)" % (render(lo), render(hi)),
                        b.loc(si["next"])))
            ex = si["exits"]
            nexpr = strip_sites(b.call_expr(si["next"]))
            only_exhaustion = len(ex) == 1 and any(
                atom[0] == "discr" and atom[1] == nexpr and val == "None"
                for tgt, atom, val in b.switch_edges(ex[0][0]) if tgt == ex[0][1])
            out.append(("stage-single-exit", only_exhaustion,
                        "stage loop is left only on iterator exhaustion (%d exit edge(s))" % len(ex),
                        b.loc(si["next"])))
            # run_single_program called on every iteration with the loop variable as stage index
            from . import flow
            some_t = [tgt for tgt, atom, val in b.switch_edges(b.succs[si["next"]][0]) if val == "Some"]
            every = bool(some_t) and flow.must_pass(b, some_t[0], set(si["call"]), {self.stage_loop},
                                                    within=si["blocks"])
            idx_ok = False
            for cb in si["call"]:
                for a in b.call_args(cb):
                    a2 = _deep_peel(b.expand_vars(strip_sites(a)))
                    if a2 == _deep_peel(b.expand_vars(fld(0, ("downcast", "Some", nexpr), "0"))):
                        idx_ok = True
            out.append(("stage-call", every and idx_ok,
                        "run_single_program(.., i, ..) is called on every iteration with the loop variable",
                        b.loc(si["call"][0]) if si["call"] else ""))
        return out

    # ---- lemma verification (facts the run_single_program model assumes about its caller)
    def cap_some_assignments(self):
        b = self.body
        out = []
        for c in self.caps[:2]:
            for bi, si in b.defs.get(c[1], []):
                if si == "T":
                    out.append((c, bi, "call"))
                    continue
                rv = b.blocks[bi]["stmts"][si]["rv"]
                if rv["k"] == "agg" and rv.get("agg") == "adt" and rv["variant"] == "None":
                    continue
                out.append((c, bi, "Some" if rv["k"] == "agg" and rv.get("variant") == "Some" else "other"))
        return out

    def dominating_facts(self, bb):
        """(atom, val) facts of switch edges that dominate block bb"""
        b = self.body
        out = []
        for x in sorted(b.reachable):
            for tgt, atom, val in b.switch_edges(x):
                from .etag import edge_dominated
                if tgt == bb or bb in edge_dominated(b, x, tgt):
                    out.append((atom, val))
        return out

    def verify_lemmas(self):
        """returns dict: L3 (capture pipes only under capture=true, and options.capture_output = capture),
        L4 (no capture pipes for a single builtin)"""
        b = self.body
        cap_param = None
        # the capture flag: the bool that flows into CommandOptions.capture_output
        for bi, si, s in b.stmts():
            if s["k"] == "assign" and s["rv"]["k"] == "agg" and s["rv"].get("adt", "").endswith("CommandOptions"):
                fields = s["rv"]["fields"]
                if "capture_output" in fields:
                    cap_param = strip_sites(b.operand_expr(s["rv"]["ops"][fields.index("capture_output")]))
        l3 = cap_param is not None
        l4 = True
        somes = self.cap_some_assignments()
        if len(somes) < 2:
            l3 = False
            l4 = False
        for c, bi, kind in somes:
            facts = self.dominating_facts(bi)
            if not any(a == cap_param and v is True for a, v in facts):
                l3 = False
            if not any(a[0] == "call" and last_seg(a[1]) == "is_single_and_builtin" and v is False for a, v in facts):
                l4 = False
        return {"L3": l3, "L4": l4, "capture_flag": render(cap_param) if cap_param else None}

    # ---- ownership typestate at every Return
    def explore(self):
        """returns (failures, nstates); failure = (resource, state, return-class description, bb)"""
        b = self.body
        caps = self.caps[:2]
        w = FactWalker(b, self.relevant)
        close_map = {}
        for bb, t, callee in b.calls():
            if last_seg(callee) == "close":
                a = _deep_peel(b.expand_vars(strip_sites(b.call_args(bb)[0])))
                for ci, c in enumerate(caps):
                    pair = fld(0, ("downcast", "Some", c), "0")
                    for k in (0, 1):
                        if a == fld(k, pair):
                            close_map[bb] = (ci, k)

        def assign_effect(bb):
            eff = {}
            for st in b.blocks[bb]["stmts"]:
                if st["k"] == "assign" and not st["place"]["p"]:
                    for ci, c in enumerate(caps):
                        if st["place"]["l"] == c[1]:
                            rv = st["rv"]
                            if rv["k"] == "agg" and rv.get("variant") == "None":
                                eff[ci] = "NONE"
                            else:
                                eff[ci] = "OWNED"
            return eff

        def step(bb, st):
            facts, ps, cs = st
            cs = list(cs)
            if bb == self.creation_loop and ps == "EMPTY":
                ps = "OWNED"
            if bb in self.release_loops and ps == "OWNED":
                ps = "RELEASED"
            if bb == self.stage_loop:
                if ps == "OWNED":
                    ps = "DELEGATED"
                for i in range(len(cs)):
                    if cs[i] in ("OWNED", "H0", "H1"):
                        cs[i] = "DELEGATED"
            for ci, v in assign_effect(bb).items():
                cs[ci] = v
            if bb in close_map:
                ci, k = close_map[bb]
                if cs[ci] == "OWNED":
                    cs[ci] = "H%d" % k
                elif cs[ci] in ("H0", "H1") and cs[ci] != "H%d" % k:
                    cs[ci] = "RELEASED"
            out = []
            for nb, f2 in w.step(bb, facts):
                out.append((nb, (f2, ps, tuple(cs))))
            return out

        seen = mir.explore(b, 0, (frozenset(), "EMPTY", tuple("NONE" for _ in caps)), step)
        failures = []
        for bb, (facts, ps, cs) in seen:
            if b.term(bb)["k"] != "return":
                continue
            cls = self.return_class(facts)
            if cls == "infeasible:pipe-count-mismatch":
                continue
            if ps == "OWNED":
                failures.append(("pipes", ps, cls, bb))
            for ci, v in enumerate(cs):
                if v in ("OWNED", "H0", "H1"):
                    failures.append((caps[ci][2], v, cls, bb))
        return failures, len(seen)

    def relevant(self, atom):
        if atom[0] == "var" and self.body.locals[atom[1]]["ty"] == "bool":
            return True
        if atom[0] == "param" and self.body.locals[atom[1]]["ty"] == "bool":
            return True
        if atom[0] == "discr":
            a = atom[1]
            if a[0] == "call" and last_seg(a[1]) == "pipe":
                return True
            if a in self.caps:
                return True
        if atom[0] == "call" and last_seg(atom[1]) == "is_single_and_builtin":
            return True
        if atom[0] == "bin" and any(sub[0] == "call" and last_seg(sub[1]) == "len" for sub in mir.subexprs(atom)):
            return True
        return False

    def return_class(self, facts):
        b = self.body
        pipe_sites = sorted(bb for bb, t, c in b.calls() if last_seg(c) == "pipe")
        for atom, val in sorted(facts, key=str):
            if atom[0] == "bin" and atom[1] == "Ne" and val is True:
                # pipes.len() + 1 != length : infeasible by the creation-loop lemma
                txt = render(atom)
                if "len(" in txt and self.pipes[2] in txt:
                    return "infeasible:pipe-count-mismatch"
        for atom, val in sorted(facts, key=str):
            if atom[0] == "discr" and atom[1][0] == "call" and last_seg(atom[1][1]) == "pipe" and val == "Err":
                site = atom[1][3] if len(atom[1]) > 3 else None
                n = pipe_sites.index(site) if site in pipe_sites else -1
                return "pipe()#%d failed" % n
        for atom, val in facts:
            if atom[0] == "call" and last_seg(atom[1]) == "is_single_and_builtin" and val is True:
                return "single-builtin return"
        return "normal"
