"""E-TAG: quote-tag guard discipline on Token = (tag, text).

An *inspection* is a call that looks at field 1 (text) of a token for shell
syntax.  Every effect that depends on a positive inspection must be
controlled by a test of field 0 (tag) of the SAME token:
  STRICT / OP : tag known empty
  DQ          : tag known != "'"          (text inside double quotes still expands)
  DQB         : DQ and tag known != "\\"  ($( ... ))
"""
import re

from . import mir
from .mir import (FactWalker, const_char, const_str, is_token_field, last_seg, peel,
                  render, short, strip_sites)

# functions in the planning pipeline whose token inspections are audited
SCOPE = [
    "types::CommandLine::from_line",
    "types::Command::from_tokens",
    "types::split_tokens_by_pipes",
    "types::drain_env_tokens",
    "execute::drain_env_tokens",
    "execute::line_to_tokens",
    "parsers::parser_line::tokens_to_redirections",
    "shell::expand_alias",
    "shell::expand_home",
    "shell::expand_env",
    "shell::expand_brace",
    "shell::expand_glob",
    "shell::expand_brace_range",
    "shell::do_command_substitution_for_dollar",
    "shell::do_command_substitution_for_dot",
    "shell::do_command_substitution",
    "shell::do_expansion",
    "scripting::expand_args_in_tokens",
    "tools::extend_bangbang",
]

# literal (regex / string / char tested on the text)  ->  class.  Confirmed by reading.
# Anything not listed is STRICT (fail closed).
LITERAL_CLASS = {
    # env_in_token: $NAME / ${NAME} / $? / $$ expand inside double quotes, but not when the leading `$` was
    # backslash-escaped (the tokenizer marks that with the tag `\\`)
    r"\$\{?[\$\?]\}?": "DQB",
    # should_do_dollar_command_extension: $( ... ) runs inside double quotes, not after a backslash
    r"\$\([^\)]+\)": "DQB",
    # embedded backquotes run inside double quotes
    r"^([^`]*)`([^`]+)`(.*)$": "DQ",
    # positional parameters $1 ${1} $@ expand inside double quotes, not after an escaping backslash
    r"\$\{?[0-9@]+\}?": "DQB",
    # history expansion !! happens inside double quotes
    r"!!": "DQ",
}

# (function suffix, literal or callee last segment) -> reason.  One symbol each.
EXEMPT = {
    ("shell::expand_alias", "is_alias"): "alias lookup is by word; quoting a command name is outside every property",
    ("shell::expand_alias", "get_alias_content"): "same lookup, value fetch",
    ("shell::expand_alias", "xargs"): "CHANGELOG-documented xargs pass-through, a word match",
    ("shell::do_expansion", "export"): "word match on the command name; suppresses expansion only",
    ("shell::do_expansion", "PROMPT="): "suppresses expansion of `export PROMPT=...`, never triggers syntax",
}

PURE_LAST = {
    "eq", "ne", "is_empty", "len", "starts_with", "ends_with", "contains", "deref", "as_str",
    "clone", "to_string", "to_owned", "borrow", "as_ref", "trim", "is_match", "re_contains",
    "is_some", "is_none", "is_ok", "is_err", "chars", "as_bytes", "trim_start", "trim_end",
    "into", "from", "lt", "le", "gt", "ge", "cmp", "partial_cmp", "not", "into_iter", "iter",
    "new_display", "new_debug", "as_mut_str", "deref_mut", "captures", "find",
}

SPECIAL_RE = re.compile(r"[^A-Za-z0-9_]")


class Inspection:
    def __init__(self, body, bb, callee, base, desc, cls, kind, positive):
        self.body = body
        self.bb = bb
        self.callee = callee
        self.base = base          # stripped expression of the token
        self.desc = desc          # position-free description
        self.cls = cls            # OP / STRICT / DQ / DQB
        self.kind = kind          # 'cmp' | 'insp'
        self.positive = positive  # value of the branch atom meaning "text looks like syntax"

    def key(self, ordinal=0):
        return "%s|%s#%d" % (self.body.path, self.desc, ordinal)


def inspector_literals(crate, path, depth=0, seen=None):
    """string literals a local function tests text against (regexes, chars) - its rename-proof identity"""
    seen = seen if seen is not None else set()
    if path in seen or depth > 3:
        return set()
    seen.add(path)
    b = crate.fn(path)
    if b is None:
        return set()
    lits = set()
    for bb, t, callee in b.calls():
        ls = last_seg(callee)
        args = b.call_args(bb)
        if ls in ("re_contains", "new", "is_match", "starts_with", "contains", "ends_with", "find_first_group",
                  "format", "eq", "ne"):
            for a in args:
                s = const_str(a)
                if s is not None and s != "":
                    lits.add(s)
                c = const_char(a)
                if c is not None:
                    lits.add(c)
        ci = b.callee_info(t)
        if ci is not None and ci.get("local"):
            lits |= inspector_literals(crate, ci["resolved"], depth + 1, seen)
    # format! pieces are promoted string arrays; pick string constants from statements too
    for bi, si, s in b.stmts():
        if s["k"] == "assign" and s["rv"]["k"] == "use" and "const" in s["rv"]["op"]:
            e = b.const_expr(s["rv"]["op"]["const"])
            for sub in mir.subexprs(e):
                cs = const_str(sub)
                if cs:
                    lits.add(cs)
    return lits


def classify_literals(lits):
    """class of an inspector from the literals it tests: the weakest listed class wins only if
    every syntax-bearing literal is listed; otherwise STRICT."""
    classes = set()
    for l in lits:
        if l in LITERAL_CLASS:
            classes.add(LITERAL_CLASS[l])
    if not classes:
        return "STRICT"
    if "DQB" in classes:
        return "DQB"
    return "DQ"


def scope_bodies(crate):
    out = []
    for p in SCOPE:
        b = crate.fn(p)
        if b is not None:
            out.append(b)
            out.extend(crate.closures_of(p))
    return out


def find_inspections(crate, body, scope_fn=None):
    scope_fn = scope_fn or (body.parent if body.kind == "closure" else body.path)
    out = []
    for bb, t, callee in body.calls():
        dty = t["dest"]["ty"]
        ls = last_seg(callee)
        args = body.call_args(bb)
        tok = None
        others = []
        for a in args:
            p = mir.peel(a)
            # peel nested identity wrappers
            while p is not a:
                a = p
                p = mir.peel(a)
            if tok is None and is_token_field(p, 1):
                tok = p
            else:
                others.append(p)
        if tok is None:
            continue
        base = norm_index(strip_sites(tok[2]))
        is_boolish = dty == "bool" or (ls in ("captures", "find") and "regex" in callee)
        if not is_boolish:
            continue
        # literal tested
        lit = None
        for o in others:
            s = const_str(o)
            if s is None:
                s = const_char(o)
            if s is not None:
                lit = s
                break
        ci = body.callee_info(t)
        kind = "insp"
        positive = True
        cls = "STRICT"
        if ls in ("eq", "ne") and lit is not None:
            kind = "cmp"
            positive = (ls == "eq")
            desc = 'text == "%s"' % lit
            if (scope_fn_suffix(scope_fn), lit) in EXEMPT:
                continue
            if not SPECIAL_RE.search(lit) and lit != "":
                # a plain word (command name): not shell syntax
                continue
            cls = "OP"
        elif ls in ("eq", "ne"):
            # comparison with a non-literal: follow parameters / closure captures to the literals the
            # call sites pass (one or two levels); an operator literal makes this an operator recogniser
            lits = set()
            for o in others:
                lits |= resolve_literals(crate, body, o)
            special = sorted(l for l in lits if SPECIAL_RE.search(l) or l == "")
            special = [l for l in special if (scope_fn_suffix(scope_fn), l) not in EXEMPT]
            if not special:
                continue
            kind = "cmp"
            positive = (ls == "eq")
            desc = "text == one of %s" % "/".join('"%s"' % l for l in special)
            cls = "OP"
        elif ci is not None and ci.get("local") and ls not in ("re_contains", "find_first_group"):
            if (scope_fn_suffix(scope_fn), ls) in EXEMPT:
                continue
            lits = inspector_literals(crate, ci["resolved"])
            cls = classify_literals(lits)
            desc = "%s(text)" % ls
        else:
            if lit is None:
                # regex object built elsewhere: find its literal
                for o in others:
                    for sub in mir.subexprs(o):
                        if sub[0] == "call" and last_seg(sub[1]) == "new" and sub[2]:
                            s = const_str(sub[2][0])
                            if s is not None:
                                lit = s
                                break
                    if lit is not None:
                        break
            if lit is not None and (scope_fn_suffix(scope_fn), lit) in EXEMPT:
                continue
            if (scope_fn_suffix(scope_fn), ls) in EXEMPT:
                continue
            if ls in ("is_empty",):
                continue
            if lit is not None and not SPECIAL_RE.search(lit):
                continue
            cls = LITERAL_CLASS.get(lit, "STRICT") if lit is not None else "STRICT"
            desc = "%s(text, %s)" % (ls, '"%s"' % lit if lit is not None else "?")
            if ls in ("captures", "find") and dty != "bool":
                positive = "Some"
        out.append(Inspection(body, bb, callee, base, desc, cls, kind, positive))
    return out


def resolve_literals(crate, body, e, depth=0):
    """string literals an expression can stand for, following closure captures and parameters to the
    call sites (bounded depth).  Unknown sources contribute nothing."""
    if depth > 3:
        return set()
    e = strip_sites(e)
    p = peel(e)
    while p is not e:
        e = p
        p = peel(e)
    s = const_str(e)
    if s is not None:
        return {s}
    out = set()
    if e[0] == "capture":
        parent = crate.fn(body.parent)
        if parent is not None:
            for l, nm in parent.names.items():
                if nm == e[1]:
                    out |= resolve_literals(crate, parent, parent.local_expr(l), depth + 1)
                    if not parent.is_param(l):
                        for bi, si in parent.defs.get(l, []):
                            out |= resolve_literals(crate, parent, parent.def_expr(bi, si), depth + 1)
        return out
    if e[0] == "var":
        for bi, si in body.defs.get(e[1], []):
            out |= resolve_literals(crate, body, body.def_expr(bi, si), depth + 1)
        return out
    if e[0] == "param":
        l = e[1]
        if body.kind == "closure":
            parent = crate.fn(body.parent)
            if parent is None:
                return out
            for bb, t, c in parent.calls():
                if c == body.path:
                    a = parent.call_args(bb)
                    if len(a) >= 2:
                        tup = strip_sites(a[1])
                        idx = l - 2
                        if tup[0] == "agg" and tup[1] == "tuple" and 0 <= idx < len(tup[2]):
                            out |= resolve_literals(crate, parent, tup[2][idx], depth + 1)
            return out
        for b2 in crate.fns():
            for bb, t, c in b2.calls():
                if c == body.path:
                    a = b2.call_args(bb)
                    if l - 1 < len(a):
                        out |= resolve_literals(crate, b2, a[l - 1], depth + 1)
        return out
    return out


def norm_index(e):
    """`v[i]` read through Index or IndexMut is the same element"""
    if not isinstance(e, tuple) or not e:
        return e
    if e[0] == "call" and last_seg(e[1]) in ("index_mut", "get_mut", "get_unchecked_mut"):
        nm = {"index_mut": "index", "get_mut": "get", "get_unchecked_mut": "get_unchecked"}[last_seg(e[1])]
        return ("call", "#" + nm, tuple(norm_index(a) for a in e[2]))
    if e[0] == "call" and last_seg(e[1]) in ("index", "get", "get_unchecked") and ("Vec" in e[1] or "slice" in e[1] or "Index" in e[1]):
        return ("call", "#" + last_seg(e[1]), tuple(norm_index(a) for a in e[2]))
    if e[0] in ("const", "param", "var", "tmp", "capture"):
        return e
    return tuple(norm_index(x) if isinstance(x, tuple) and x and isinstance(x[0], str)
                 else (tuple(norm_index(y) for y in x) if isinstance(x, tuple) else x) for x in e)


def scope_fn_suffix(path):
    return path


def norm_guard(atom, val):
    """normalise a branch fact into ('is_empty', X, bool) / ('eq', X, lit, bool) or None"""
    a = norm_index(atom)
    if a[0] == "call":
        ls = last_seg(a[1])
        args = [deep_peel(x) for x in a[2]]
        if ls == "is_empty" and len(args) == 1 and isinstance(val, bool):
            return ("is_empty", args[0], val)
        if ls in ("eq", "ne") and len(args) == 2 and isinstance(val, bool):
            v = val if ls == "eq" else (not val)
            for x, y in ((args[0], args[1]), (args[1], args[0])):
                s = const_str(y)
                if s is not None:
                    if s == "":
                        return ("is_empty", x, v)
                    return ("eq", x, s, v)
    if a[0] == "bin" and a[1] in ("Eq", "Ne") and isinstance(val, bool):
        v = val if a[1] == "Eq" else (not val)
        x, y = deep_peel(a[2]), deep_peel(a[3])
        for p, q in ((x, y), (y, x)):
            s = const_str(q)
            if s is not None:
                return ("eq", p, s, v) if s else ("is_empty", p, v)
    return None


def deep_peel(e):
    p = peel(e)
    while p is not e:
        e = p
        p = peel(e)
    return p


def derived_facts(body, facts, with_dom=False):
    """a fact about a bool local that was assigned the result of a comparison (`let quoted = sep == "'" || ..`) is a fact
    about that comparison: of the definitions of the local, the constant ones that disagree with the fact cannot be the
    one that reached here; when exactly one other definition remains, the fact holds for its expression.  with_dom: the
    facts that dominate that one definition held as well (`let g = a && b && !c` lowers to control flow: g is true only
    through the block reached under a and b)"""
    out = list(facts)
    work = list(facts)
    seen = set()
    while work:
        atom, val = work.pop()
        if atom[0] != "var" or not isinstance(val, bool) or body.locals[atom[1]]["ty"] != "bool" or (atom[1], val) in seen:
            continue
        seen.add((atom[1], val))
        cands = []
        for bi, si in body.defs.get(atom[1], []):
            e = strip_sites(body.def_expr(bi, si))
            cb = mir.const_bool(e)
            if cb is not None:
                if cb == val:
                    cands.append(None)          # a constant definition agreeing with the fact: nothing to learn
                continue
            cands.append((e, bi))
        if len(cands) == 1 and cands[0] is not None:
            e, bi = cands[0]
            new = [(e, val)]
            if e[0] == "un" and e[1] == "Not":
                new.append((e[2], not val))
            if with_dom:
                from .rules.c02 import dom_facts
                new += [(strip_sites(a), v) for a, v in dom_facts(body, bi)]
            for f in new:
                if f not in out:
                    out.append(f)
                    work.append(f)
    return out


def guard_ok(cls, tag, facts):
    """facts: iterable of (atom, val). tag: stripped expr of field 0 of the token."""
    empty = None
    eqs = {}
    for atom, val in facts:
        g = norm_guard(atom, val)
        if g is None:
            continue
        if g[0] == "is_empty" and g[1] == tag:
            empty = g[2] if empty is None else empty
        elif g[0] == "eq" and g[1] == tag:
            eqs[g[2]] = g[3]
    if empty is True:
        return True
    if cls in ("OP", "STRICT"):
        return False
    pos = [l for l, v in eqs.items() if v]
    if cls == "DQ":
        if eqs.get("'") is False:
            return True
        return any(l != "'" for l in pos)
    if cls == "DQB":
        if eqs.get("'") is False and eqs.get("\\") is False:
            return True
        return any(l not in ("'", "\\") for l in pos)
    return False


def is_effect_block(body, bb, inspected_paths=()):
    b = body.blocks[bb]
    for s in b["stmts"]:
        if s["k"] != "assign":
            continue
        l = s["place"]["l"]
        if l == 0 or l in body.names:
            return True
    t = b["term"]
    if t["k"] == "call":
        callee = body.callee(t)
        ls = last_seg(callee)
        if ls in PURE_LAST:
            return False
        if callee in inspected_paths:
            return False
        if t["dest"]["l"] == 0:
            return True
        return True
    if t["k"] == "return":
        return True
    return False


def edge_dominated(body, src, tgt):
    """blocks reachable from entry only through the edge src->tgt"""
    seen = {0}
    st = [0]
    while st:
        x = st.pop()
        for s in body.succs[x]:
            if x == src and s == tgt:
                continue
            if s not in seen:
                seen.add(s)
                st.append(s)
    return set(body.reachable) - seen


def innermost_loop_header(body, bb):
    best = None
    for h, blocks in body.loops().items():
        if bb in blocks:
            if best is None or len(blocks) < len(body.loops()[best]):
                best = h
    return best


def binding_loop_header(body, insp):
    """header of the loop whose iterator step yields the inspected token (the inspection may sit in a loop nested
    inside it: the tag fact established per token is still valid there)"""
    subs = set(mir.subexprs(insp.base))
    loops = sorted((len(bl), h, bl) for h, bl in body.loops().items() if insp.bb in bl)
    for _, h, bl in loops:
        for x in bl:
            t = body.term(x)
            if t["k"] == "call" and last_seg(body.callee(t)) in ("next", "next_back"):
                if strip_sites(body.call_expr(x)) in subs:
                    return h
    return None


def check_inspection(crate, insp, local_inspectors=()):
    """returns (ok, detail, npaths).  detail names an unguarded effect block."""
    body = insp.body
    tag = deep_peel(mir.fld(0, insp.base))
    call_atom = strip_sites(body.call_expr(insp.bb))
    # find switches branching on this call's result
    pos_edges = []
    for bb in sorted(body.reachable):
        for tgt, atom, val in body.switch_edges(bb):
            a = atom[1] if atom[0] == "discr" else atom
            if a == call_atom:
                if val == insp.positive:
                    pos_edges.append((bb, tgt))
    effects = set()
    if not pos_edges:
        effects.add(insp.bb)
    for (s, t) in pos_edges:
        for x in edge_dominated(body, s, t):
            if is_effect_block(body, x, local_inspectors):
                effects.add(x)
    if not effects:
        return True, "no dependent effect", 0
    why = filtered_on_tag(crate, body, insp.base)
    if why is not None:
        return True, why, 0
    start = binding_loop_header(body, insp)
    if start is None:
        start = innermost_loop_header(body, insp.bb)
    if start is None:
        start = 0

    def relevant(atom):
        g = norm_guard(atom, True)
        if g is not None and g[1] == tag:
            return True
        return atom[0] == "var" and body.locals[atom[1]]["ty"] == "bool"

    w = TagWalker(body, relevant)
    states = w.run(start)
    bad = None
    n = 0
    for bb, facts in states:
        if bb in effects:
            n += 1
            # facts at block entry; edge facts into bb are already included
            if not guard_ok(insp.cls, tag, derived_facts(body, facts)):
                if bad is None or bb < bad[0]:
                    bad = (bb, facts)
    if bad is not None:
        fs = ", ".join("%s=%s" % (render(a), v) for a, v in sorted(bad[1], key=str)) or "none"
        return False, "effect at %s reachable with tag facts {%s}" % (body.loc(bad[0]), fs), n
    return True, "%d effect block(s) guarded" % len(effects), n


def filtered_on_tag(crate, body, base):
    """the token is an item of `tokens.iter()[.enumerate()].filter(|..(sep, _)..| sep.is_empty() [&& ..])`: the filter lets
    only untagged tokens through, whatever is tested afterwards.  The closure must answer true only under
    `<field 0 of its item>.is_empty()`."""
    from . import flow
    hit = flow.backward(body, base, lambda z: z[0] == "call" and last_seg(z[1]) == "filter" and "Iterator" in z[1] and len(z[2]) == 2,
                        through_containers=False)
    if hit is None:
        return None
    cpath = None
    for sub in mir.subexprs(body.expand_vars(strip_sites(hit[2][1]))):
        if sub[0] == "agg" and isinstance(sub[1], str) and sub[1].startswith("closure:"):
            cpath = sub[1][len("closure:"):].rstrip("()")
    cb = crate.fn(cpath) if cpath else None
    if cb is None or cb.arg_count != 2:
        return None

    def tag_test(e):
        e = cb.expand_vars(strip_sites(e))
        if not (e[0] == "call" and last_seg(e[1]) == "is_empty" and e[2]):
            return False
        x = deep_peel(e[2][0])
        return x[0] == "field" and x[1] == 0 and mir.root_local_expr(x) == 2

    defs = cb.defs.get(0, [])
    if not defs:
        return None
    from .rules.c02 import dom_facts
    for bi, si in defs:
        if si == "T":
            e = strip_sites(cb.call_expr(bi))
        else:
            e = strip_sites(cb.def_expr(bi, si))
        if mir.const_bool(e) is False or tag_test(e):
            continue
        if any(v is True and tag_test(a) for a, v in dom_facts(cb, bi)):
            continue
        return None
    return "the token comes out of a filter that passes untagged tokens only (%s)" % cpath


ACCESSORS = ("index_mut", "get_mut", "iter_mut", "last_mut", "first_mut", "deref_mut", "as_mut_slice")


def _only_feeds_accessor(b, l):
    """every use of temp local l is as an argument of an element accessor call (or a re-borrow that is)"""
    import json as _json
    uses = 0
    for bi in b.reachable:
        blk = b.blocks[bi]
        for st in blk["stmts"]:
            if st["k"] != "assign":
                continue
            txt = _json.dumps(st["rv"])
            if ('"l": %d,' % l) in txt or ('"l": %d}' % l) in txt:
                rv = st["rv"]
                # re-borrow `_u = &mut *_t`
                if rv["k"] == "ref" and rv["place"]["l"] == l and not st["place"]["p"]:
                    if not _only_feeds_accessor(b, st["place"]["l"]):
                        return False
                    uses += 1
                    continue
                return False
        t = blk["term"]
        if t["k"] == "call":
            for a in t["args"]:
                pl = a.get("move") or a.get("copy")
                if pl is not None and pl["l"] == l:
                    if last_seg(b.callee(t)) not in ACCESSORS:
                        return False
                    uses += 1
    return uses > 0


class TagWalker(FactWalker):
    """facts here are tests of a token's TAG (field 0).  Taking `&mut tokens` only to reach one element
    (`tokens[i]`, `get_mut`, `iter_mut`) does not change any tag unless field 0 is assigned, so such a
    borrow does not void what is known about tags.  (Not used for length / content facts.)"""

    def kills(self, bb):
        if bb not in self._kills:
            b = self.b
            ks = set(b.assigned_vars_in_block(bb))
            blk = b.blocks[bb]
            # `_t = &mut X` where _t is only ever handed to an element accessor
            for st in blk["stmts"]:
                if st["k"] == "assign" and st["rv"]["k"] == "ref" and st["rv"].get("mut") and not st["place"]["p"]:
                    if _only_feeds_accessor(b, st["place"]["l"]):
                        ks.discard(st["rv"]["place"]["l"])
            # a direct write to field 0 of a token does kill
            for st in blk["stmts"]:
                if st["k"] == "assign":
                    fields = [x for x in st["place"]["p"] if isinstance(x, dict) and "f" in x]
                    if fields and fields[-1].get("bty") == mir.TOKEN_TY and fields[-1]["f"] == 0:
                        ks.add(st["place"]["l"])
                        root = mir.root_local_expr(strip_sites(b.local_expr(st["place"]["l"])))
                        if root is not None:
                            ks.add(root)
            self._kills[bb] = ks
        return self._kills[bb]


def pass_gate(crate, closure):
    """The closure is a predicate handed to any / all / find / position in its parent, and the only things that
    depend on that search's result are calls of expansion passes on the token vector - passes that test the tag of
    every token they act on themselves (R12-1 / R10-2 / R13-1 check them).  Such a test decides whether a pass is
    worth running, not what happens to a token: a quoted `*` at worst makes the pass run for nothing."""
    parent = crate.fn(closure.parent) if getattr(closure, "parent", None) else None
    if parent is None:
        return None
    # the closure itself does nothing but answer
    for bb in closure.reachable:
        t = closure.term(bb)
        if t["k"] == "call" and last_seg(closure.callee(t)) not in PURE_LAST:
            return None
    site = None
    for bb, t, c in parent.calls():
        if last_seg(c) in ("any", "all", "find", "position", "rposition", "filter", "count"):
            for a in parent.call_args(bb):
                for sub in mir.subexprs(parent.expand_vars(strip_sites(a))):
                    if sub[0] == "agg" and isinstance(sub[1], str) and sub[1].startswith("closure:") and \
                            sub[1][len("closure:"):].rstrip("()") == closure.path:
                        site = bb
    if site is None or last_seg(parent.callee(parent.term(site))) not in ("any", "all"):
        return None
    atom = strip_sites(parent.call_expr(site))
    dependent = set()
    for bb in sorted(parent.reachable):
        for tgt, a, val in parent.switch_edges(bb):
            if strip_sites(a) == atom or any(sub == atom for sub in mir.subexprs(parent.expand_vars(strip_sites(a)))):
                dependent |= edge_dominated(parent, bb, tgt)
    if not dependent:
        return None
    passes = []
    for x in sorted(dependent):
        if not is_effect_block(parent, x):
            continue
        t = parent.term(x)
        if t["k"] != "call":
            # plain assignments of the unit result / returns are fine only when nothing else happens
            if t["k"] == "return":
                return None
            if any(s_["k"] == "assign" and s_["place"]["l"] in parent.names for s_ in parent.blocks[x]["stmts"]):
                return None
            continue
        c = parent.callee(t)
        if c in GATED_PASSES:
            passes.append(last_seg(c))
        else:
            return None
    if not passes:
        return None
    return "decides only whether %s run(s); the pass tests each token's tag itself" % ", ".join(sorted(set(passes)))


GATED_PASSES = {"shell::expand_brace", "shell::expand_glob", "shell::expand_brace_range", "shell::expand_home",
                "shell::expand_env", "shell::expand_alias", "shell::do_command_substitution"}


def run_sites(ctx, rule, crate, fn_filter=None, cls_filter=None):
    """evaluate all inspections in scope (optionally filtered); returns list of (insp, ok)."""
    results = []
    local_insp = set()
    for body in scope_bodies(crate):
        top = body.parent if body.kind == "closure" else body.path
        if fn_filter and not fn_filter(top):
            continue
        ctx.analysed(body)
        insps = find_inspections(crate, body, top)
        counts = {}
        for insp in insps:
            if cls_filter and not cls_filter(insp):
                continue
            n = counts.get(insp.desc, 0)
            counts[insp.desc] = n + 1
            ok, detail, npaths = check_inspection(crate, insp, local_insp)
            ctx.paths_enumerated += npaths
            if not ok and body.kind == "closure":
                why = pass_gate(crate, body)
                if why is not None:
                    ok, detail = True, why
            key = "%s|%s" % (rule, insp.key(n))
            ctx.ob(rule, body.path, "%s [%s] guarded by the token's tag" % (insp.desc, insp.cls), ok,
                   key=key, where=body.loc(insp.bb), detail=detail, crate=crate.kind)
            results.append((insp, ok))
    return results
