"""E-TAINT: source / sanitizer / sink tables and function summaries for the three taint rules
(SQL text, regex replacement templates, rescan feedback)."""
from . import flow, mir
from .mir import const_str, last_seg, strip_sites


# ------------------------------------------------------------------ sources
def is_env_read(e):
    if e[0] != "call":
        return False
    s = mir.short(e[1])
    return s in ("std::env::var", "std::env::var_os") or s.endswith("Shell::get_env")


def is_cmd_output(e):
    """text captured from a command: the stdout / stderr field of a CommandResult"""
    return e[0] == "field" and mir.field_name(e) in ("stdout", "stderr")


def is_glob_result(e):
    return e[0] == "call" and mir.short(e[1]).startswith("glob::")


def is_prev_cmd(e):
    return e[0] == "field" and mir.field_name(e) == "previous_cmd"


_summary_cache = {}


def fn_returns(crate, path, pred, depth=0):
    """does the return value of local function `path` derive from a value satisfying pred
    (following local calls, depth-limited)?"""
    key = (id(crate), path, pred)
    if key in _summary_cache:
        return _summary_cache[key]
    _summary_cache[key] = False
    b = crate.fn(path)
    if b is None or depth > 3:
        return False

    def p2(e):
        if pred(e):
            return True
        if e[0] == "call" and e[1] in crate.bodies and e[1] != path:
            return fn_returns(crate, e[1], pred, depth + 1)
        # a closure handed to a callee (Regex::replace_all(text, |caps| ..), map, unwrap_or_else ..): what it returns
        # ends up in the callee's result
        if e[0] == "agg" and isinstance(e[1], str) and e[1].startswith("closure:"):
            cp = e[1][len("closure:"):].rstrip("()")
            if cp in crate.bodies and cp != path:
                return fn_returns(crate, cp, pred, depth + 1)
        return False

    r = False
    for bi, si in b.defs.get(0, []):
        if flow.backward(b, b.def_expr(bi, si), p2) is not None:
            r = True
            break
    _summary_cache[key] = r
    return r


def source_pred(crate, base_pred):
    """pred extended with summaries of local functions"""
    def p(e):
        if base_pred(e):
            return True
        if e[0] == "call" and e[1] in crate.bodies:
            return fn_returns(crate, e[1], base_pred)
        if e[0] == "agg" and isinstance(e[1], str) and e[1].startswith("closure:"):
            cp = e[1][len("closure:"):].rstrip("()")
            if cp in crate.bodies:
                return fn_returns(crate, cp, base_pred)
        return False
    return p


# ------------------------------------------------------------------ template sanitizers
def is_dollar_escape(e):
    """x.replace("$", "$$")  /  regex::NoExpand(x)"""
    if e[0] == "call" and last_seg(e[1]) == "replace" and len(e[2]) >= 3:
        a, b = const_str(e[2][1]), const_str(e[2][2])
        if a == "$" and b == "$$":
            return True
        ca = mir.const_char(e[2][1])
        if ca == "$" and b == "$$":
            return True
    if e[0] == "agg" and "NoExpand" in e[1]:
        return True
    if e[0] == "call" and last_seg(e[1]) in ("escape",) and "regex" in e[1]:
        return False
    return False


def template_sinks(body):
    """(bb, arg_expr, description) for regex replacement-template arguments"""
    out = []
    for bb, t, c in body.calls():
        ls = last_seg(c)
        sc = mir.short(c)
        if ls in ("replace", "replace_all", "replacen") and "egex" in c:
            a = body.call_args(bb)
            idx = 3 if ls == "replacen" else 2
            if len(a) > idx:
                # a closure as Replacer: what it returns is inserted verbatim (no `$n` expansion) - not a template
                rep = mir.peel(body.expand_vars(strip_sites(a[idx])))
                while rep[0] in ("ref", "addr", "deref") and len(rep) > 1 and isinstance(rep[-1], tuple):
                    rep = mir.peel(rep[-1])
                if rep[0] == "agg" and isinstance(rep[1], str) and rep[1].startswith("closure:"):
                    continue
                out.append((bb, a[idx], "%s template" % sc))
        elif ls == "expand" and "Captures" in c:
            a = body.call_args(bb)
            if len(a) > 1:
                out.append((bb, a[1], "Captures::expand template"))
        elif sc == "libs::re::replace_all":
            a = body.call_args(bb)
            if len(a) > 2:
                out.append((bb, a[2], "libs::re::replace_all template"))
    return out


# ------------------------------------------------------------------ rescan
def dollar_scanners(crate):
    """local functions that look for `$` syntax in text (rename-proof: identified by the regex literals they test)"""
    from .etag import inspector_literals
    out = set()
    for p, b in crate.bodies.items():
        if b.kind != "fn" or not p.startswith(("shell::", "scripting::")):
            continue
        lits = inspector_literals(crate, p)
        if any("\\$" in l for l in lits) and b.arg_count >= 1:
            out.add(p)
    return out


def feedback_edges(crate, body, src_pred, scanners, literal_scanners=()):
    """call sites whose result derives from src_pred and flows (possibly around a loop) into the text
    argument of a scanner call in the same function.  returns list of (src description, scanner name, bb)"""
    out = []
    sp = source_pred(crate, src_pred)
    for bb, t, c in body.calls():
        is_scan = c in scanners
        lit = None
        if not is_scan and mir.short(c) in ("libs::re::re_contains", "libs::re::find_first_group"):
            for a in body.call_args(bb):
                alts = flow.const_alternatives(body, a)      # a literal, or a choice between literals
                if alts and any("\\$" in s for s in alts):
                    is_scan = True
                    lit = "$-pattern"
        if not is_scan:
            continue
        for a in body.call_args(bb):
            if const_str(a) is not None or (lit and flow.const_alternatives(body, a)):
                continue
            ty_ok = True
            hit = flow.backward(body, a, sp)
            if hit is not None:
                srcd = mir.short(hit[1]) if hit[0] == "call" else mir.render(strip_sites(hit))[:40]
                out.append((srcd, last_seg(c) + ("(%s)" % lit if lit else ""), bb))
                break
    return out
