"""Difference-constraint reasoning over branch facts (no solver: Floyd-Warshall on a handful of terms).

Terms are opaque canonical expressions; `len(x)`, `x.len()`, `x.chars().count()` of the same x
are one term.  A fact is turned into constraints  t1 - t2 <= c ; a goal  A <= B + k  holds when
the shortest path says so."""
from . import mir
from .mir import const_int, last_seg, strip_sites

ZERO = ("zero",)
INF = float("inf")


def lin(e):
    """expression -> (term, offset); term None for constants; None if not linear"""
    e = strip_sites(e)
    while e[0] == "cast":
        e = e[2]
    c = const_int(e)
    if c is not None:
        return (ZERO, c)
    if e[0] == "bin" and e[1] in ("Add", "Sub"):
        a = lin(e[2])
        b = lin(e[3])
        if a is not None and b is not None and b[0] == ZERO:
            return (a[0], a[1] + (b[1] if e[1] == "Add" else -b[1]))
        if a is not None and b is not None and a[0] == ZERO and e[1] == "Add":
            return (b[0], b[1] + a[1])
        return (e, 0)
    if e[0] == "un" and e[1] == "PtrMetadata":
        return (("len", _peel(e[2])), 0)
    if e[0] == "call":
        ls = last_seg(e[1])
        if ls == "len" and len(e[2]) == 1:
            return (("len", _peel(e[2][0])), 0)
        if ls == "count" and len(e[2]) == 1:
            inner = e[2][0]
            if inner[0] == "call" and last_seg(inner[1]) == "chars" and inner[2]:
                return (("chars", _peel(inner[2][0])), 0)
    return (e, 0)


_SAME_LENGTH_VIEWS = ("as_bytes", "as_str", "as_mut_str", "as_bytes_mut")


def _peel(e):
    while True:
        p = mir.peel(e)
        while p is not e:
            e = p
            p = mir.peel(e)
        # a byte / str view of a string has the string's length
        if e[0] == "call" and last_seg(e[1]) in _SAME_LENGTH_VIEWS and len(e[2]) == 1:
            e = e[2][0]
            continue
        return e


class Constraints:
    def __init__(self):
        self.edges = {}     # (u, v) -> w   meaning  v <= u + w
        self.nodes = {ZERO}
        self.neq = []       # ((tx, ox), (ty, oy)) meaning  tx + ox != ty + oy

    def add(self, x, y, k=0):
        """x <= y + k  with x, y = (term, offset)"""
        tx, ox = x
        ty, oy = y
        w = oy - ox + k
        self.nodes.add(tx)
        self.nodes.add(ty)
        key = (ty, tx)
        if key not in self.edges or self.edges[key] > w:
            self.edges[key] = w

    def nonneg(self, term):
        self.add((ZERO, 0), (term, 0), 0)

    def add_fact(self, atom, val):
        a = strip_sites(atom)
        if a[0] == "bin" and a[1] in ("Lt", "Le", "Gt", "Ge", "Eq", "Ne") and isinstance(val, bool):
            x, y = lin(a[2]), lin(a[3])
            if x is None or y is None:
                return
            op = a[1]
            if op in ("Gt", "Ge"):
                x, y = y, x
                op = "Lt" if op == "Gt" else "Le"
            if op == "Lt":
                if val:
                    self.add(x, y, -1)
                else:
                    self.add(y, x, 0)
            elif op == "Le":
                if val:
                    self.add(x, y, 0)
                else:
                    self.add(y, x, -1)
            elif op == "Eq":
                if val:
                    self.add(x, y, 0)
                    self.add(y, x, 0)
                elif y[0] == ZERO and y[1] == 0 and x[0] != ZERO and _is_len_term(x[0]):
                    self.add((ZERO, 1), x, 0)
                else:
                    self.neq.append((x, y))
            elif op == "Ne":
                if not val:
                    self.add(x, y, 0)
                    self.add(y, x, 0)
                else:
                    # x != 0 for an unsigned x  ->  x >= 1
                    if y[0] == ZERO and y[1] == 0 and x[0] != ZERO and _is_len_term(x[0]):
                        self.add((ZERO, 1), x, 0)
                    else:
                        self.neq.append((x, y))
            return
        if a[0] == "call" and isinstance(val, bool):
            ls = last_seg(a[1])
            if ls == "is_empty" and len(a[2]) == 1:
                t = ("len", _peel(a[2][0]))
                if val:
                    self.add((t, 0), (ZERO, 0), 0)
                else:
                    self.add((ZERO, 1), (t, 0), 0)
            elif ls in ("starts_with", "ends_with", "contains") and len(a[2]) == 2 and val:
                t = ("len", _peel(a[2][0]))
                s = mir.const_str(a[2][1])
                n = len(s.encode()) if s is not None else 1
                if n > 0:
                    self.add((ZERO, n), (t, 0), 0)
        if a[0] == "discr" and val == "Some":
            x = a[1]
            if x[0] == "call" and last_seg(x[1]) in ("first", "last", "next", "pop") and x[2]:
                pass

    def close(self):
        self._close()
        # integers: x <= y and x != y  =>  x <= y - 1  (a few rounds are enough for the chains met here)
        for _ in range(3):
            changed = False
            for x, y in self.neq:
                for a, b in ((x, y), (y, x)):
                    ta, oa = a
                    tb, ob = b
                    if ta == tb:
                        continue
                    w = self.d.get((tb, ta), INF)
                    if w == ob - oa:       # a <= b exactly tight
                        self.add(a, b, -1)
                        changed = True
            if not changed:
                break
            self._close()
        return self

    def _close(self):
        nodes = list(self.nodes)
        d = {}
        for u in nodes:
            for v in nodes:
                d[(u, v)] = 0 if u == v else self.edges.get((u, v), INF)
        for k in nodes:
            for i in nodes:
                dik = d[(i, k)]
                if dik == INF:
                    continue
                for j in nodes:
                    v = dik + d[(k, j)]
                    if v < d[(i, j)]:
                        d[(i, j)] = v
        self.d = d
        return self

    def holds(self, x, y, k=0):
        """x <= y + k ?"""
        tx, ox = x
        ty, oy = y
        self.nodes.add(tx)
        self.nodes.add(ty)
        if not hasattr(self, "d") or (ty, tx) not in self.d:
            self.close()
        if tx == ty:
            return ox <= oy + k
        return self.d.get((ty, tx), INF) <= oy - ox + k


def _is_len_term(t):
    return isinstance(t, tuple) and t and t[0] in ("len", "chars")


def constraints_from(facts, unsigned_terms=()):
    c = Constraints()
    for atom, val in facts:
        c.add_fact(atom, val)
    for t in list(c.nodes):
        if _is_len_term(t):
            c.nonneg(t)
    for t in unsigned_terms:
        c.nonneg(t)
    # chars().count() <= len()
    for t in list(c.nodes):
        if isinstance(t, tuple) and t and t[0] == "chars":
            c.add((t, 0), (("len", t[1]), 0), 0)
    return c.close()


def atom_terms(atom):
    """the terms a fact on this atom would constrain (empty if it constrains nothing)"""
    c = Constraints()
    c.add_fact(atom, True)
    c.add_fact(atom, False)
    return {t for t in c.nodes if t != ZERO}
