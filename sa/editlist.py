"""E-EDITLIST: positions recorded while scanning the token vector stay valid until they are used.

Every expansion pass scans `tokens` once, records (index, replacement) pairs in a side container, and applies
them after the scan.  A recorded index denotes a slot of the vector *as scanned*.  It is still that slot when it
is used only if no length-changing operation (remove / insert / drain / retain / truncate / push / pop / clear /
swap_remove / split_off) ran on the vector in between - with one exception, the pattern the passes use: a single
loop that walks ONE edit list in descending index order may remove / insert at the index it is visiting (edits
at higher positions do not move lower ones; the order is R12-3's job).

Violation: a length-changing operation A and an indexed use B (tokens[i] = .., insert(i, ..), remove(i)) of the
same vector such that B can run after A, they are not governed by the same edit-list loop, and B's index comes
from a container filled before A ran.  The text then lands in a neighbouring slot - with that slot's quote tag.
"""
from . import flow, mir
from .mir import last_seg, strip_sites

LENGTH_CHANGING = {"remove", "insert", "drain", "retain", "truncate", "push", "pop", "clear", "swap_remove", "split_off",
                   "append", "extend", "dedup", "resize", "splice"}
INDEXED_USE = {"index", "index_mut", "get", "get_mut", "remove", "insert", "swap_remove", "swap"}
TOKENS_TY = "Vec<(std::string::String, std::string::String)>"


def token_vec(b):
    for l in range(1, b.arg_count + 1):
        if TOKENS_TY in b.locals[l]["ty"]:
            return l
    return None


def _on_tok(b, bb, tok):
    a = b.call_args(bb)
    return bool(a) and mir.root_local_expr(b.expand_vars(strip_sites(a[0]))) == tok


def _reach(b, src):
    seen, todo = set(), list(b.succs[src])
    while todo:
        x = todo.pop()
        if x in seen:
            continue
        seen.add(x)
        todo.extend(b.succs[x])
    return seen


def _index_container(b, idx_expr):
    """the side container (a local Vec / HashMap / ...) the index was read from, or None for a value computed on
    the spot (loop counter of a fresh scan, constant, len()-based)"""
    hit = flow.backward(b, idx_expr, lambda z: z[0] == "var" and any(
        k in b.locals[z[1]]["ty"] for k in ("Vec<(usize", "Vec<usize", "HashMap<usize", "BTreeMap<usize", "VecDeque<(usize",
                                            "HashSet<usize", "BTreeSet<usize")), through_containers=False)
    return hit[1] if hit is not None else None


def _fill_sites(b, cont):
    out = []
    for bb, t, c in b.calls():
        if last_seg(c) in ("push", "insert", "push_back", "extend") and b.call_args(bb):
            if mir.root_local_expr(b.expand_vars(strip_sites(b.call_args(bb)[0]))) == cont:
                out.append(bb)
    return out


def _innermost_loops(b, bb):
    return [h for h, blocks in b.loops().items() if bb in blocks]


def analyse(b):
    """returns (tok, n_changing, n_uses, violations) ; violations = [(bbA, opA, bbB, opB, container name)]"""
    tok = token_vec(b)
    if tok is None:
        return None, 0, 0, []
    changing, uses = [], []
    for bb, t, c in b.calls():
        ls = last_seg(c)
        if "Vec" not in c and ls not in ("index", "index_mut"):
            continue
        if not _on_tok(b, bb, tok):
            continue
        if ls in LENGTH_CHANGING:
            changing.append((bb, ls))
        if ls in INDEXED_USE:
            a = b.call_args(bb)
            if len(a) >= 2 and mir.const_int(b.expand_vars(strip_sites(a[1]))) is None:
                uses.append((bb, ls, a[1]))
    viol = []
    for bbA, opA in changing:
        after = _reach(b, bbA)
        loopsA = set(_innermost_loops(b, bbA))
        for bbB, opB, idx in uses:
            if bbB == bbA or bbB not in after:
                continue
            cont = _index_container(b, idx)
            if cont is None:
                continue
            # same edit-list loop: A and B sit in a loop driven by the container B's index comes from
            shared = loopsA & set(_innermost_loops(b, bbB))
            governed = False
            for h in shared:
                blocks = b.loops()[h]
                for x in blocks:
                    t = b.term(x)
                    if t["k"] == "call" and last_seg(b.callee(t)) in ("next", "next_back") and b.call_args(x):
                        it = b.call_args(x)[0]
                        if flow.backward(b, it, lambda z, cont=cont: z[0] == "var" and z[1] == cont,
                                         through_containers=False) is not None:
                            governed = True
            if governed:
                # A's own index must come from the same container (one list, one loop)
                aargs = b.call_args(bbA)
                contA = _index_container(b, aargs[1]) if len(aargs) >= 2 else None
                if contA is None or contA == cont:
                    continue
            # B's container must have been filled before A could run (otherwise it was recorded afterwards)
            fills = _fill_sites(b, cont)
            if fills and not any(bbA in _reach(b, f) for f in fills):
                continue
            viol.append((bbA, opA, bbB, opB, b.names.get(cont) or "_%d" % cont))
    return tok, len(changing), len(uses), viol


def scan_counters(b, tok):
    """[(loop header, blocks, counter local, next block)] : loops over tokens.iter() that keep a hand-written
    position counter (usize local incremented by a constant 1 inside the loop)"""
    out = []
    for h, blocks in sorted(b.loops().items()):
        nb = None
        for bb in blocks:
            t = b.term(bb)
            if t["k"] == "call" and last_seg(b.callee(t)) == "next" and b.call_args(bb):
                it = b.call_args(bb)[0]
                src = flow.backward(b, it, lambda z: z[0] == "call" and last_seg(z[1]) in ("iter", "iter_mut", "into_iter")
                                    and z[2] and mir.root_local_expr(b.expand_vars(strip_sites(z[2][0]))) == tok,
                                    through_containers=False)
                if src is not None and not any(sub[0] == "call" and last_seg(sub[1]) == "enumerate"
                                               for sub in mir.subexprs(b.expand_vars(strip_sites(it)))):
                    # outermost such loop only (the one whose header region holds this next())
                    if nb is None:
                        nb = bb
        if nb is None:
            continue
        # is this the innermost loop containing nb?  (skip outer loops that merely contain an inner scan)
        inner = [h2 for h2, bl2 in b.loops().items() if nb in bl2 and len(bl2) < len(blocks)]
        if inner:
            continue
        for l, loc in enumerate(b.locals):
            if loc["ty"] != "usize" or l not in b.names:
                continue
            incs = []
            for bi, si in b.defs.get(l, []):
                if bi in blocks:
                    e = strip_sites(b.def_expr(bi, si))
                    e = mir.peel(e)
                    ok = e[0] == "bin" and e[1] == "Add" and e[2] == ("var", l, b.names.get(l)) and mir.const_int(e[3]) == 1
                    if not ok and e[0] == "field":      # checked add: (idx + 1).0
                        inner_e = mir.peel(e[2])
                        ok = inner_e[0] == "bin" and inner_e[1] in ("Add", "AddWithOverflow") and mir.const_int(inner_e[3]) == 1 \
                            and mir.root_local_expr(inner_e[2]) == l
                    if ok:
                        incs.append(bi)
                    else:
                        incs = None
                        break
            if incs:
                out.append((h, blocks, l, nb, set(incs)))
    return out


def counter_paths(b, h, blocks, nb, incs):
    """number of increments on the paths of one iteration: returns the set of counts seen at the back edge
    (2 stands for two or more)"""
    some_t = [tgt for tgt, atom, val in b.switch_edges(b.succs[nb][0]) if val == "Some"] if b.succs[nb] else []
    if not some_t:
        return None
    back = {(x, y) for x, y in b.back_edges() if y == h}
    inner_back = {(x, y) for x, y in b.back_edges() if y != h}
    counts = set()
    seen = set()
    todo = [(some_t[0], 0)]
    while todo:
        bb, k = todo.pop()
        if (bb, k) in seen:
            continue
        seen.add((bb, k))
        if bb in incs:
            k = min(2, k + 1)
        for y in b.succs[bb]:
            if y not in blocks:
                continue
            if (bb, y) in back:
                counts.add(k)
                continue
            todo.append((y, k))
    return counts


THINNING = ("skip", "rev", "step_by", "filter", "skip_while", "take_while", "zip", "chain", "filter_map", "flat_map", "peekable",
            "map_while", "flatten", "cycle", "scan")


def enumerate_position(b, key, vroot):
    """None: the key is not `(it.next() as Some).0.0` of an Enumerate; "exact": the Enumerate counts the elements of the
    vector `vroot` itself; otherwise the adaptor that sits between the vector and enumerate()"""
    k = b.expand_vars(strip_sites(key))
    if not (k[0] == "field" and k[1] == 0 and k[2][0] == "field" and k[2][1] == 0):
        return None
    d = k[2][2]
    if not (d[0] == "downcast" and d[1] == "Some"):
        return None
    c = d[2]
    if not (c[0] == "call" and last_seg(c[1]) == "next" and c[2]):
        return None
    it = c[2][0]
    en = flow.backward(b, it, lambda z: z[0] == "call" and last_seg(z[1]) == "enumerate", through_containers=False)
    if en is None:
        return None
    inner = en[2][0] if en[2] else None
    if inner is None:
        return None
    thin = flow.backward(b, inner, lambda z: z[0] == "call" and last_seg(z[1]) in THINNING and "Iterator" in z[1],
                         through_containers=False)
    if thin is not None:
        return last_seg(thin[1]) + "()"
    if flow.backward(b, inner, lambda z: z[0] in ("var", "param") and z[1] == vroot, through_containers=False) is None:
        return "foreign"
    return "exact"


def rule(ctx, crate, rule_id, paths):
    n = 0
    for p in paths:
        b = crate.fn(p)
        if b is None:
            continue
        tok, nc, nu, viol = analyse(b)
        if tok is None:
            continue
        ctx.analysed(b)
        n += 1
        seen = set()
        for bbA, opA, bbB, opB, cname in viol:
            k = (opA, opB, cname)
            if k in seen:
                continue
            seen.add(k)
            ctx.ob(rule_id, p, "index from `%s` used by %s after the vector's length was changed by %s" % (cname, opB, opA),
                   False, key="%s|%s|stale-index|%s->%s|%s" % (rule_id, p, opA, opB, cname), where=b.loc(bbB), crate=crate.kind,
                   detail="positions recorded during the scan no longer denote the same tokens once %s at %s has run: "
                          "the text is written into a neighbouring word (and inherits its quote tag), or past the end" %
                          (opA, b.loc(bbA)))
        for h, blocks, l, nb, incs in scan_counters(b, tok):
            counts = counter_paths(b, h, blocks, nb, incs)
            ok = counts == {1}
            ctx.ob(rule_id, p, "the position counter `%s` advances exactly once for every token scanned" % b.names.get(l), ok,
                   key="%s|%s|scan-counter|%s" % (rule_id, p, b.names.get(l)), where=b.loc(h), crate=crate.kind,
                   detail=None if ok else "an iteration can reach the next token with the counter advanced %s times: every "
                   "position recorded afterwards denotes a neighbouring token" %
                   ("/".join(str(c) if c < 2 else "2+" for c in sorted(counts)) if counts else "?"))
        # positions taken from enumerate(): it must count the elements of the token vector itself, not of a filtered /
        # skipped / reversed view of it
        for l, loc in enumerate(b.locals):
            if not any(k in loc["ty"] for k in ("Vec<(usize", "HashMap<usize", "BTreeMap<usize", "VecDeque<(usize")):
                continue
            k_ = 0
            for bb in _fill_sites(b, l):
                a = b.call_args(bb)
                if len(a) < 2:
                    continue
                v = strip_sites(a[1])
                key = v[2][0] if v[0] == "agg" and v[1] == "tuple" and v[2] else v
                kind = enumerate_position(b, key, tok)
                if kind is None:
                    continue
                ctx.ob(rule_id, p, "the position recorded in `%s` is enumerate()'s count over the token vector itself" %
                       (b.names.get(l) or "_%d" % l), kind == "exact",
                       key="%s|%s|enumerate-position|%s#%d" % (rule_id, p, b.names.get(l) or "_%d" % l, k_), where=b.loc(bb),
                       crate=crate.kind,
                       detail=None if kind == "exact" else "enumerate() runs over a %s view of the tokens: the recorded number is not "
                       "the token's index, the replacement lands on a neighbouring word" % kind)
                k_ += 1
        if not viol:
            ctx.ob(rule_id, p, "recorded positions are used on the vector as scanned (%d length-changing op(s), %d indexed "
                               "use(s))" % (nc, nu), True, crate=crate.kind, nontrivial=bool(nc or nu))
    return n
