"""E-ISPACE: character indexes and byte offsets are different index spaces.

A value counted in characters (the counter of `chars().enumerate()`, `chars().count()`, `chars().position()`)
must not be used where a byte offset is expected (indexing `as_bytes()`, slicing a `str`, `String::insert /
remove / truncate / split_off / drain / replace_range`, `split_at`, `is_char_boundary`, or a return value
that an API contract defines as a byte offset), unless it went through a conversion that adds, for every
character passed, `len_utf8() - 1`.  With ASCII-only input both spaces coincide, which is why tests never see
the difference; one multi-byte character before the cursor shifts every later look-up.
"""
from . import flow, mir
from .mir import last_seg, strip_sites

BYTE_INDEX_CALLS = {"insert", "insert_str", "remove", "truncate", "split_off", "drain", "replace_range", "split_at",
                    "is_char_boundary", "get", "get_mut", "get_unchecked", "index", "index_mut", "split_at_mut"}


def _is_stringy(callee, body, bb):
    """is the receiver of the call a str / String / byte slice of a string"""
    s = mir.short(callee)
    if any(k in s for k in ("Vec", "HashMap", "HashSet", "BTreeMap", "VecDeque", "Captures")):
        return False
    t = body.term(bb)
    if not t["args"]:
        return False
    a = t["args"][0]
    pl = a.get("move") or a.get("copy")
    ty = pl["ty"] if pl else ""
    ty = ty.replace("&mut ", "").replace("&", "").strip()
    return ty in ("str", "std::string::String", "[u8]") or ty.startswith("str")


def char_sources(body, ret_char=frozenset()):
    """predicate on sub-expressions: a character-space value"""
    enum_locals = {l for l, loc in enumerate(body.locals) if "Enumerate<std::str::Chars" in loc["ty"]}

    def pred(e):
        if e[0] == "call" and e[1] in ret_char:
            return True
        if e[0] == "field" and e[1] == 0:
            inner = e[2]
            # (Enumerate::next(iter) as Some).0 .0
            if inner[0] == "field" and inner[1] == 0 and inner[2][0] == "downcast":
                c = inner[2][2]
                if c[0] == "call" and last_seg(c[1]) == "next" and "Enumerate" in c[1] and c[2]:
                    root = mir.root_local_expr(c[2][0])
                    if root in enum_locals:
                        return True
        if e[0] == "call" and last_seg(e[1]) in ("count", "position", "rposition") and e[2]:
            for sub in mir.subexprs(e[2][0]):
                if sub[0] == "call" and last_seg(sub[1]) == "chars":
                    return True
        return False
    return pred, bool(enum_locals)


def is_conversion(e):
    """a term that accounts for the width of characters (a running `len_utf8() - 1` correction); byte offsets
    obtained elsewhere (char_indices, find, len) are not corrections: adding a character count to them is still wrong"""
    return e[0] == "call" and last_seg(e[1]) == "len_utf8"


def byte_sinks(body, param_byte=None):
    """[(bb, description, index expression)]"""
    out = []
    if param_byte:
        for bb, t, c in body.calls():
            ci = body.callee_info(t)
            callee = (ci or {}).get("resolved") or c
            ks = param_byte.get(callee)
            if ks:
                args = body.call_args(bb)
                for k in sorted(ks):
                    if k - 1 < len(args):
                        out.append((bb, "argument %d of %s (used there as a byte offset)" % (k, mir.short(callee)), args[k - 1]))
    for bb in sorted(body.reachable):
        t = body.term(bb)
        if t["k"] == "assert" and t["kind"] == "bounds":
            ops = [body.operand_expr(o) for o in t["ops"]]
            if len(ops) == 2:
                lenx = body.expand_vars(strip_sites(ops[0]))
                if any(s[0] == "call" and last_seg(s[1]) in ("as_bytes", "as_bytes_mut", "bytes", "as_str") for s in mir.subexprs(lenx)):
                    out.append((bb, "index into the bytes of a string", ops[1]))
        elif t["k"] == "call":
            callee = body.callee(t)
            ls = last_seg(callee)
            if ls in BYTE_INDEX_CALLS and _is_stringy(callee, body, bb):
                args = body.call_args(bb)
                if len(args) >= 2:
                    out.append((bb, "%s on a string" % mir.short(callee), args[1]))
    return out


def returns(body):
    """expressions assigned to the return place"""
    out = []
    for bi, si in body.defs.get(0, []):
        out.append((bi, body.def_expr(bi, si)))
    return out


def classify(body, e, ret_char=frozenset()):
    """'char' if a character-space value reaches e unconverted, 'converted' if together with a width term, else None"""
    pred, any_enum = char_sources(body, ret_char)
    hit = flow.backward(body, e, pred)
    if hit is None:
        return None
    conv = flow.backward(body, e, is_conversion)
    return "converted" if conv is not None else "char"


def width_accounting(body):
    """For a loop over `chars().enumerate()` that keeps a running byte correction (a local incremented from
    len_utf8): every path through one iteration either passes the len_utf8 call, or is taken only for a
    character known to be a one-byte (ASCII) constant.  Returns (found, [(bb, description)] offending paths)."""
    from .mir import FactWalker, const_char
    res = []
    found = False
    for h, blocks in sorted(body.loops().items()):
        nb = None
        for bb in blocks:
            t = body.term(bb)
            if t["k"] == "call" and last_seg(body.callee(t)) == "next" and "Enumerate" in body.callee(t):
                a = body.call_args(bb)
                if a and "Enumerate<std::str::Chars" in body.locals[mir.root_local_expr(a[0]) or 0]["ty"]:
                    nb = bb
        if nb is None:
            continue
        widths = {bb for bb in blocks if body.term(bb)["k"] == "call" and last_seg(body.callee(body.term(bb))) == "len_utf8"}
        if not widths:
            continue
        found = True
        nx = strip_sites(body.call_expr(nb))
        cexpr = mir.fld(1, mir.fld(0, ("downcast", "Some", nx), "0"))
        some_t = [tgt for tgt, atom, val in body.switch_edges(body.succs[nb][0]) if val == "Some"] if body.succs[nb] else []
        if not some_t:
            res.append((nb, "loop shape not recognised"))
            continue
        back = {(x, y) for x, y in body.back_edges() if y == h}
        bad = []
        walker = FactWalker(body, lambda a: False)

        def step(bb, st):
            counted, ascii_known = st
            if bb in widths:
                counted = True
            out = []
            for nb2, atom, val in walker.edges(bb):
                if nb2 not in blocks:
                    continue
                a2 = ascii_known
                if atom is not None:
                    a = strip_sites(atom)
                    if a[0] == "bin" and a[1] in ("Eq", "Ne") and a[2] == cexpr and const_char(a[3]) is not None:
                        is_eq = (a[1] == "Eq") == bool(val)
                        if is_eq and ord(const_char(a[3])) < 128:
                            a2 = True
                if (bb, nb2) in back:
                    if not counted and not a2:
                        bad.append(bb)
                    continue
                out.append((nb2, (counted, a2)))
            return out

        mir.explore(body, some_t[0], (False, False), step, limit=200000)
        for bb in sorted(set(bad)):
            res.append((bb, "an iteration can end without accounting for the width of a character that is not known "
                            "to be ASCII"))
    return found, res


def summaries(crate):
    """(RET_CHAR, PARAM_BYTE): functions whose return value is a bare character count, and {function: parameter
    numbers used as byte offsets} - closed over calls (two rounds reach the fixpoint on this crate; a third checks)"""
    cached = crate.__dict__.get("_ispace_summaries")
    if cached is not None:
        return cached
    ret_char, param_byte = set(), {}
    bodies = [b for b in crate.bodies.values() if b.kind == "fn"]
    # only functions that can matter: they mention chars()/enumerate or take / return usize
    def interesting(b):
        return any("usize" in b.locals[l]["ty"] for l in range(0, b.arg_count + 1))
    bodies = [b for b in bodies if interesting(b)]
    for _ in range(4):
        changed = False
        for b in bodies:
            if b.path not in ret_char and "usize" in b.locals[0]["ty"]:
                for bi, e in returns(b):
                    if classify(b, e, frozenset(ret_char)) == "char":
                        ret_char.add(b.path)
                        changed = True
                        break
            usize_params = [l for l in range(1, b.arg_count + 1) if b.locals[l]["ty"] == "usize"]
            if usize_params:
                for bb, desc, idx in byte_sinks(b, param_byte):
                    for l in usize_params:
                        if l in param_byte.get(b.path, ()):
                            continue
                        pe = strip_sites(b.local_expr(l))
                        if flow.backward(b, idx, lambda z, pe=pe: z == pe, through_containers=False) is not None:
                            param_byte.setdefault(b.path, set()).add(l)
                            changed = True
        if not changed:
            break
    crate.__dict__["_ispace_summaries"] = (frozenset(ret_char), param_byte)
    return crate.__dict__["_ispace_summaries"]


BYTE_RETURNS = {
    "completers::escaped_word_start": "lineread's Completer::word_start contract: the start of the word as a byte offset "
                                      "into the line (it slices buffer[start..end])",
}


def rule(ctx, crate, rule_id, paths, with_returns=True, panicking_only=False):
    """run E-ISPACE over the given functions; returns the number of (source-bearing function, sink) pairs looked at"""
    n = 0
    ret_char, param_byte = summaries(crate)
    for p in paths:
        b = crate.fn(p)
        if b is None:
            continue
        pred, any_enum = char_sources(b, ret_char)
        has_src = any_enum or any(last_seg(c) == "count" and "Chars" in c for bb, t, c in b.calls()) or any(
            ((b.callee_info(t) or {}).get("resolved") or c) in ret_char for bb, t, c in b.calls())
        if not has_src:
            if with_returns and p in BYTE_RETURNS:
                # no character counter at all in a function that must return a byte offset (positions taken from
                # char_indices() / len() / find()): the obligation is met by construction, and still counted
                ctx.analysed(b)
                for bi, e in returns(b):
                    n += 1
                    ctx.ob(rule_id, p, "return value (%s): no character count exists in the function to be confused with it" %
                           BYTE_RETURNS[p][:60], True, where=b.loc(bi), crate=crate.kind, nontrivial=False)
            continue
        ctx.analysed(b)
        sinks = byte_sinks(b, param_byte)
        if panicking_only:
            # a character count used on as_bytes() reads the wrong byte but stays in bounds (count <= len): not a panic
            sinks = [x for x in sinks if not x[1].startswith("index into the bytes") and not any(
                k in x[1] for k in ("::get on", "::get_mut on", "is_char_boundary on"))]      # these return None / false
        if with_returns and p in BYTE_RETURNS:
            for bi, e in returns(b):
                sinks.append((bi, "return value (%s)" % BYTE_RETURNS[p][:60], e))
        counts = {}
        for bb, desc, e in sinks:
            n += 1
            cls = classify(b, e, ret_char)
            k = counts.get(desc, 0)
            counts[desc] = k + 1
            ctx.ob(rule_id, p, "%s: the index is not a bare character count" % desc, cls != "char",
                   key="%s|%s|char-index-as-byte-offset|%s#%d" % (rule_id, p, desc[:50], k), where=b.loc(bb), crate=crate.kind,
                   detail=None if cls != "char" else "the index derives from the counter of chars().enumerate() / chars().count(); "
                   "after one multi-byte character it addresses a different (or no) character")
        found, bad = width_accounting(b)
        if found:
            n += 1
            ctx.ob(rule_id, p, "the running byte correction accounts for every character that is not a known ASCII constant",
                   not bad, key="%s|%s|width-accounting" % (rule_id, p), where=b.loc(bad[0][0]) if bad else "",
                   crate=crate.kind, detail=bad[0][1] if bad else None)
        if not sinks and not found:
            ctx.ob(rule_id, p, "character indexes are only compared with each other / passed to chars().nth()", True,
                   crate=crate.kind, nontrivial=False)
    return n
