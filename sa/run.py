"""Runner: ./check <ID> --tier quick|thorough [--replay file]

Extracts facts from /repo's current working tree, runs the rules of one
property over both crates (lib and bin), writes evidence/<ID>.json, prints
KNOWN-FINDING / VIOLATION lines and sets the exit code."""
import argparse
import importlib
import json
import os
import sys
import time
import traceback

VERIF = os.path.dirname(os.path.dirname(os.path.abspath(__file__)))
sys.path.insert(0, VERIF)

from sa import facts as factsmod  # noqa: E402
from sa import mir  # noqa: E402

EVID = os.path.join(VERIF, "evidence")
KNOWN = os.path.join(VERIF, "known_findings.json")


class Ctx:
    def __init__(self, prop, tier, crates, root):
        self.prop = prop
        self.tier = tier
        self.crates = crates          # list of mir.Crate (lib, bin)
        self.root = root
        self.violations = {}          # key -> dict
        self.obligations = []         # dicts
        self.functions = set()
        self.notes = []
        self.paths_enumerated = 0
        self.trusted = []
        self.assumptions = []
        self.selfcheck = []
        self.rule_texts = {}

    # -- bookkeeping -------------------------------------------------
    def rule(self, rid, text):
        self.rule_texts[rid] = text

    def analysed(self, body):
        self.functions.add(body.path if hasattr(body, "path") else str(body))

    def ob(self, rule, fn, what, ok, key=None, where="", nontrivial=True, detail=None, crate=""):
        """record one rule instance (obligation) and its verdict."""
        o = {"rule": rule, "fn": fn, "what": what, "ok": bool(ok), "where": where,
             "nontrivial": nontrivial, "crate": crate}
        if detail:
            o["detail"] = detail
        self.obligations.append(o)
        if not ok:
            self.violation(rule, key or "%s|%s|%s" % (rule, fn, what), what, fn, where, detail)
        return ok

    def violation(self, rule, key, what, fn="", where="", detail=None):
        if key in self.violations:
            return
        self.violations[key] = {"rule": rule, "key": key, "what": what, "fn": fn,
                                "where": where, "detail": detail,
                                "rule_text": self.rule_texts.get(rule, "")}

    def require(self, cond, rule, key, what, fn="", where=""):
        """fail closed: a missing anchor / count below floor is a violation of the rule."""
        if not cond:
            self.violation(rule, key, "cannot establish: " + what, fn, where)
        return bool(cond)

    def floor(self, rule, crate, name, got, floor):
        """vacuity guard: `floor` instances were confirmed by hand on the reference tree.  A clean-up that merges
        duplicated code lowers such counts without changing behaviour, so the alarm threshold is 60 % of the confirmed
        number (never below 2, exact for floors of 1 and 2); the evidence records both numbers."""
        eff = floor if floor <= 2 else max(2, (floor * 3 + 4) // 5)
        ok = got >= eff
        self.obligations.append({"rule": rule, "fn": "", "what": "floor %s: %d found, %d confirmed by hand, alarm below %d"
                                 % (name, got, floor, eff), "ok": ok, "where": "", "nontrivial": False, "crate": crate.kind})
        if not ok:
            self.violation(rule, "%s|floor|%s" % (rule, name),
                           "cannot establish: only %d instance(s) of %s found, %d confirmed by hand (alarm below %d)"
                           % (got, name, floor, eff))
        return ok


def load_known():
    if not os.path.exists(KNOWN):
        return []
    with open(KNOWN) as fh:
        return json.load(fh)


def write_evidence(prop, tier, seed, ctx, wall, nviol, extra=None, explanation=""):
    os.makedirs(EVID, exist_ok=True)
    obs = ctx.obligations if ctx else []
    distinct = set()
    for o in obs:
        if o.get("nontrivial"):
            distinct.add((o["rule"], o["fn"], o["what"]))
    samples = []
    seen_rules = {}
    for o in obs:
        if not o.get("nontrivial"):
            continue
        c = seen_rules.get(o["rule"], 0)
        if c < 3:
            seen_rules[o["rule"]] = c + 1
            samples.append({k: o[k] for k in ("rule", "fn", "what", "ok", "where") if k in o})
    if not samples:
        samples = [{"note": "no obligations evaluated"}]
    cov = {
        "explanation": explanation or "static rules over MIR facts of /repo's current tree",
        "evaluations": max(1, len(obs)),
        "distinct_nontrivial": len(distinct),
        "rule": "one evaluation per rule instance (call site / path obligation / table row) per crate; "
                "distinct = distinct (rule, function, instance) triples whose verdict needed a "
                "dominance / path / dataflow computation rather than a lookup",
        "samples": samples[:40],
        "obligations": len(obs),
        "discharged": sum(1 for o in obs if o["ok"]),
        "functions_analysed": sorted(ctx.functions) if ctx else [],
        "rules": ctx.rule_texts if ctx else {},
        "trusted_base": (ctx.trusted if ctx else []) or [
            "rustc MIR construction and callee resolution (nightly, -Zmir-opt-level=0)",
            "std / libc / nix / regex / pest behave as documented"],
        "exhaustive": False,
    }
    if ctx and ctx.paths_enumerated:
        cov["paths_enumerated"] = ctx.paths_enumerated
    if ctx and ctx.selfcheck:
        cov["self_validation"] = ctx.selfcheck
    if ctx and ctx.notes:
        cov["notes"] = ctx.notes
    if extra:
        cov.update(extra)
    ev = {
        "property_id": prop, "tier": tier, "seed": seed, "level": "other",
        "coverage": cov,
        "assumptions": (ctx.assumptions if ctx else []) or [
            "facts describe the crates cargo builds for --lib --bin cicada (tests excluded)"],
        "wall_s": round(wall, 3),
        "violations": nviol,
    }
    tmp = os.path.join(EVID, ".%s.json.tmp" % prop)
    with open(tmp, "w") as fh:
        json.dump(ev, fh, indent=1, default=str)
    os.replace(tmp, os.path.join(EVID, "%s.json" % prop))


def run_property(prop, tier, root=None, quiet=False):
    """returns (ctx, facts_info)"""
    f = factsmod.extract(root)
    crates = [mir.Crate(f["lib"]), mir.Crate(f["bin"])]
    ctx = Ctx(prop, tier, crates, f["root"])
    mod = importlib.import_module("sa.rules.%s" % prop.lower())
    mod.run(ctx)
    return ctx, f


def main(argv=None):
    ap = argparse.ArgumentParser()
    ap.add_argument("prop")
    ap.add_argument("--tier", default=os.environ.get("VERIF_TIER", "quick"))
    ap.add_argument("--replay", default=None)
    ap.add_argument("--root", default=None)
    ap.add_argument("--json", action="store_true", help="print violations as JSON (no evidence written)")
    a = ap.parse_args(argv)
    prop = a.prop.upper()
    tier = a.tier if a.tier in ("quick", "thorough") else "quick"
    seed = int(os.environ.get("VERIF_SEED", "0") or 0)
    t0 = time.time()
    try:
        ctx, finfo = run_property(prop, tier, a.root)
    except factsmod.ExtractError as e:
        print("ERROR: cannot extract facts: %s" % e)
        if not a.json:
            write_evidence(prop, tier, seed, None, time.time() - t0, 1,
                           explanation="fact extraction failed: %s" % str(e)[:500])
            rp = _write_replay(prop, 0, {"rule": "extract", "key": "extract", "what": str(e)[:2000]})
            print("VIOLATION property=%s replay=%s" % (prop, rp))
        return 1
    except Exception:
        traceback.print_exc()
        if not a.json:
            write_evidence(prop, tier, seed, None, time.time() - t0, 1,
                           explanation="checker crashed (fail closed)")
            rp = _write_replay(prop, 0, {"rule": "internal", "key": "internal",
                                         "what": traceback.format_exc()[-3000:]})
            print("VIOLATION property=%s replay=%s" % (prop, rp))
        return 1

    if a.json:
        print(json.dumps(sorted(ctx.violations.values(), key=lambda v: v["key"]), indent=1, default=str))
        return 1 if ctx.violations else 0

    if a.replay:
        with open(a.replay) as fh:
            want = json.load(fh)
        hit = ctx.violations.get(want.get("key"))
        if hit:
            print("replay: violation still present: %s" % hit["key"])
            print("VIOLATION property=%s replay=%s" % (prop, a.replay))
            return 1
        print("replay: violation not present on the current tree")
        return 0

    thorough_extra = None
    if tier == "thorough":
        try:
            from sa import selftest
            thorough_extra = selftest.run_for(prop, ctx)
        except Exception:
            ctx.notes.append("self-validation crashed: " + traceback.format_exc()[-800:])

    known = [k for k in load_known() if k.get("property") == prop and k.get("status") == "open"]
    known_keys = {k["key"]: k for k in known}
    new = []
    for key in sorted(ctx.violations):
        v = ctx.violations[key]
        if key in known_keys:
            print("KNOWN-FINDING: property=%s %s -- %s" % (prop, key, known_keys[key].get("what", v["what"])))
        else:
            new.append(v)
    rc = 0
    for i, v in enumerate(new):
        rp = _write_replay(prop, i, v)
        print("  %s: %s [%s] at %s" % (v["rule"], v["what"], v["key"], v["where"]))
        print("VIOLATION property=%s replay=%s" % (prop, rp))
        rc = 1
    wall = time.time() - t0
    expl = getattr(importlib.import_module("sa.rules.%s" % prop.lower()), "EXPLANATION", "")
    write_evidence(prop, tier, seed, ctx, wall, len(new),
                   extra={"facts_hash": finfo["hash"], "facts_cached": finfo["cached"],
                          "known_findings_present": sorted(k for k in ctx.violations if k in known_keys),
                          **(thorough_extra or {})},
                   explanation=expl)
    nob = len(ctx.obligations)
    print("%s %s: %d rule instances, %d discharged, %d known finding(s), %d new violation(s), %.1fs"
          % (prop, tier, nob, sum(1 for o in ctx.obligations if o["ok"]),
             len(ctx.violations) - len(new), len(new), wall))
    return rc


def _write_replay(prop, i, v):
    d = os.path.join(EVID, "replay")
    os.makedirs(d, exist_ok=True)
    p = os.path.join(d, "%s-%d.json" % (prop, i))
    with open(p, "w") as fh:
        json.dump(v, fh, indent=1, default=str)
    return p


if __name__ == "__main__":
    sys.exit(main())
