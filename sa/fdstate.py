"""E-FD: ownership typestate for scalar raw descriptors.

A *source* is a call site that hands the caller an owned descriptor (or a tuple / Option / Result
holding descriptors).  Each descriptor component must, on every path from the source to an exit of
the function, be released (close / File::from_raw_fd), handed to the caller (flow into the return
value), or proven absent on that path (== -1, Err, None).  dup2(x, n) and dup(x) do not release x.
"""
from . import mir
from .mir import FactWalker, const_int, last_seg, strip_sites

# callee last segment -> list of component selectors; () = the value itself / its Ok or Some payload,
# (i,) = tuple field i (then its Some payload)
SOURCES = {
    "dup": [()],
    "open": [()],                       # nix::fcntl::open only (filtered by path below)
    "create_raw_fd_from_file": [()],
    "get_fd_from_file": [()],
    "_get_std_fds": [(0,), (1,)],
    "_get_dupped_stdout_fd": [()],
    "_get_dupped_stderr_fd": [()],
}
RELEASERS = {"close", "from_raw_fd"}
NOT_CLOEXEC = {"dup"}   # descriptors that survive exec (pipe() is handled by the plumbing model)


def is_source(callee):
    ls = last_seg(callee)
    if ls not in SOURCES:
        return False
    if ls == "open":
        return "fcntl" in callee
    if ls == "dup":
        return callee.startswith("libc::") or callee.startswith("libs::")
    return True


def mentions_component(e, callnode, sel):
    """does expression e contain the component (callnode, sel)?"""
    for sub in mir.subexprs(e):
        if sel == ():
            if sub == callnode:
                return True
        else:
            if sub[0] == "field" and sub[1] == sel[0] and sub[2] == callnode:
                return True
    return False


def mentions_other_component(e, callnode, sel, all_sels):
    for o in all_sels:
        if o != sel and mentions_component(e, callnode, o):
            return True
    return False


class SiteResult:
    def __init__(self, body, bb, callee, sel):
        self.body = body
        self.bb = bb
        self.callee = callee
        self.sel = sel
        self.leaks = []        # list of (exit_bb, kind)
        self.escapes_to = None  # multi-def variable the value is stored into
        self.states = 0

    def desc(self):
        s = mir.short(self.callee).split("::")[-1] + "()"
        if self.sel:
            s += ".%d" % self.sel[0]
        return s


def analyse_site(body, bb, exits, region=None):
    """typestate of every component of the source call at block bb.
    exits: function bb -> kind string or None ('return' / 'exec').
    region: optional set of blocks to stay within."""
    t = body.term(bb)
    callee = body.callee(t)
    sels = SOURCES[last_seg(callee)]
    callnode = body.expand_vars(strip_sites(body.call_expr(bb)))
    results = []
    canon_cache = {}

    def canon(e):
        r = canon_cache.get(e)
        if r is None:
            r = body.expand_vars(strip_sites(e))
            canon_cache[e] = r
        return r

    # pre-compute per block: release events / escapes per component
    for sel in sels:
        res = SiteResult(body, bb, callee, sel)
        rel_blocks = set()
        ret_blocks = set()
        esc_blocks = {}
        for x in sorted(body.reachable):
            tx = body.term(x)
            if tx["k"] == "call" and last_seg(body.callee(tx)) in RELEASERS:
                for a in body.call_args(x):
                    if mentions_component(canon(a), callnode, sel):
                        rel_blocks.add(x)
            for si, s in enumerate(body.blocks[x]["stmts"]):
                if s["k"] != "assign":
                    continue
                l = s["place"]["l"]
                e = canon(body.rvalue_expr(s["rv"]))
                if not mentions_component(e, callnode, sel):
                    continue
                if l == 0:
                    ret_blocks.add(x)
                elif l in body.names and len(body.defs.get(l, [])) + len(body.defs.get(("partial", l), [])) > 1:
                    esc_blocks[x] = body.names[l]
            if tx["k"] == "call" and tx["dest"]["l"] == 0:
                if any(mentions_component(canon(a), callnode, sel) for a in body.call_args(x)):
                    # e.g. `Ok(fd)` built by a call, or the value passed through a wrapper into the return slot
                    ret_blocks.add(x)

        def relevant(atom):
            atom = canon(atom)
            return mentions_component(atom, callnode, sel) or (
                sel != () and any(sub == callnode for sub in mir.subexprs(atom)))

        w = FactWalker(body, relevant, cut_back_edges=False)

        def absent(atom, val):
            atom = canon(atom)
            # == -1
            if atom[0] == "bin" and atom[1] in ("Eq", "Ne") and isinstance(val, bool):
                a, b2 = atom[2], atom[3]
                for x, y in ((a, b2), (b2, a)):
                    if const_int(y) == -1 and mentions_component(x, callnode, sel):
                        return val if atom[1] == "Eq" else (not val)
            if atom[0] == "bin" and atom[1] in ("Lt", "Ge") and isinstance(val, bool):
                if const_int(atom[3]) == 0 and mentions_component(atom[2], callnode, sel):
                    return val if atom[1] == "Lt" else (not val)
            if atom[0] == "discr" and val in ("None", "Err"):
                if mentions_component(atom[1], callnode, sel) and not mentions_other_component(atom[1], callnode, sel, sels):
                    return True
                if sel == () and atom[1] == callnode:
                    return True
            return False

        def step(x, st):
            facts, state = st
            if x == bb and state == "OWNED":
                # the creating call runs again while the previous descriptor is still owned
                reentry.append(x)
                return []
            if state == "OWNED":
                if x in rel_blocks:
                    state = "RELEASED"
                elif x in ret_blocks:
                    state = "RETURNED"
                elif x in esc_blocks:
                    state = "ESCAPED:" + esc_blocks[x]
            out = []
            for nb, f2 in w.step(x, facts):
                if region is not None and nb not in region:
                    continue
                st2 = state
                if st2 == "OWNED":
                    for atom, val in f2 - facts:
                        if absent(atom, val):
                            st2 = "ABSENT"
                out.append((nb, (f2, st2)))
            return out

        reentry = []
        start = body.succs[bb][0] if body.succs[bb] else None
        if start is None:
            results.append(res)
            continue
        seen = mir.explore(body, start, (frozenset(), "OWNED"), step)
        res.states = len(seen)
        if reentry:
            res.leaks.append((bb, "overwritten by the next loop iteration"))
        for x, (facts, state) in seen:
            kind = exits(x)
            if kind is None:
                continue
            # the exit block itself may release (call at the exit block)
            if state == "OWNED" and (x in rel_blocks or x in ret_blocks):
                continue
            if state == "OWNED":
                res.leaks.append((x, kind))
            if state.startswith("ESCAPED:"):
                res.escapes_to = state.split(":", 1)[1]
        results.append(res)
    return results


def variable_reaches_sink(body, name):
    """flow-insensitive: a multi-def variable holding descriptors is closed, wrapped or returned somewhere,
    possibly after being copied into other variables"""
    names = {name}
    changed = True
    while changed:
        changed = False
        locs = {l for l, n in body.names.items() if n in names}
        for x in sorted(body.reachable):
            tx = body.term(x)
            if tx["k"] == "call" and last_seg(body.callee(tx)) in RELEASERS:
                for a in body.call_args(x):
                    if mir.locals_in(body.expand_vars(strip_sites(a))) & locs:
                        return True
            for s in body.blocks[x]["stmts"]:
                if s["k"] != "assign":
                    continue
                used = mir.locals_in(body.expand_vars(strip_sites(body.rvalue_expr(s["rv"])))) & locs
                if not used:
                    continue
                l = s["place"]["l"]
                if l == 0:
                    return True
                n2 = body.names.get(l)
                if n2 is not None and n2 not in names:
                    names.add(n2)
                    changed = True
    return False
