"""Grammar facts (via tools/pestfacts = pest_meta, the parser pest_derive uses)."""
import json
import os
import subprocess

from .facts import VERIF

TOOL = os.path.join(VERIF, "tools", "pestfacts", "target", "release", "pestfacts")
BUILTIN_SILENT = {"ANY", "SOI", "NEWLINE", "PEEK", "PEEK_ALL", "POP", "POP_ALL", "DROP", "ASCII_DIGIT",
                  "ASCII_NONZERO_DIGIT", "ASCII_BIN_DIGIT", "ASCII_OCT_DIGIT", "ASCII_HEX_DIGIT", "ASCII_ALPHA_LOWER",
                  "ASCII_ALPHA_UPPER", "ASCII_ALPHA", "ASCII_ALPHANUMERIC", "ASCII"}


def ensure_tool():
    if os.path.exists(TOOL):
        return
    env = dict(os.environ)
    env["CARGO_NET_OFFLINE"] = "true"
    subprocess.run(["cargo", "build", "--release", "--offline"], cwd=os.path.join(VERIF, "tools", "pestfacts"),
                   env=env, capture_output=True, text=True)
    if not os.path.exists(TOOL):
        raise RuntimeError("cannot build tools/pestfacts")


class Grammar:
    def __init__(self, path):
        ensure_tool()
        r = subprocess.run([TOOL, path], capture_output=True, text=True)
        d = json.loads(r.stdout)
        if "error" in d:
            raise RuntimeError("grammar %s: %s" % (path, d["error"]))
        self.rules = {x["name"]: x for x in d["rules"]}
        self.order = [x["name"] for x in d["rules"]]

    def is_silent(self, name):
        r = self.rules.get(name)
        return r is not None and r["ty"] == "silent"

    def children(self, name):
        """non-silent rule names that can appear as direct child pairs of a node `name` (EOI included)"""
        r = self.rules[name]
        if r["ty"] == "atomic":
            return set()
        return self._ch(r["expr"], set())

    def _ch(self, e, seen):
        k = e["k"]
        if k in ("str", "insens", "range", "skip", "other"):
            return set()
        if k in ("pospred", "negpred"):
            return set()
        if k == "ident":
            v = e["v"]
            if v == "EOI":
                return {"EOI"}
            if v in BUILTIN_SILENT or v.isupper() and v not in self.rules and v != "EOI":
                return set()
            if v not in self.rules:
                return set()
            if self.is_silent(v):
                if v in seen:
                    return set()
                return self._ch(self.rules[v]["expr"], seen | {v})
            return {v}
        if k in ("seq", "choice"):
            return self._ch(e["a"], seen) | self._ch(e["b"], seen)
        if "e" in e:
            return self._ch(e["e"], seen)
        return set()

    def ends_with_eoi(self, name):
        return self._ends(self.rules[name]["expr"], set())

    def _ends(self, e, seen):
        k = e["k"]
        if k == "ident":
            if e["v"] == "EOI":
                return True
            if self.is_silent(e["v"]) and e["v"] not in seen:
                return self._ends(self.rules[e["v"]]["expr"], seen | {e["v"]})
            return False
        if k == "seq":
            return self._ends(e["b"], seen)
        if k == "choice":
            return self._ends(e["a"], seen) and self._ends(e["b"], seen)
        return False

    def starts_with_soi(self, name):
        e = self.rules[name]["expr"]
        while e["k"] == "seq":
            e = e["a"]
        return e["k"] == "ident" and e["v"] == "SOI"

    def literal_of(self, name):
        """the single string literal a rule consists of (operators), else None"""
        e = self.rules[name]["expr"]
        return e["v"] if e["k"] == "str" else None


    # ---- implicit whitespace: where can leading blanks be skipped?
    def nullable(self, e, seen=frozenset()):
        k = e["k"]
        if k in ("str", "insens"):
            return e["v"] == ""
        if k in ("range",):
            return False
        if k in ("pospred", "negpred", "opt", "rep", "repmax", "skip"):
            return True
        if k in ("repmin", "repmm", "repn"):
            return int(e.get("n", e.get("a", 1))) == 0 or self.nullable(e["e"], seen)
        if k in ("rep1", "push"):
            return self.nullable(e["e"], seen)
        if k == "seq":
            return self.nullable(e["a"], seen) and self.nullable(e["b"], seen)
        if k == "choice":
            return self.nullable(e["a"], seen) or self.nullable(e["b"], seen)
        if k == "ident":
            v = e["v"]
            if v in ("SOI", "EOI", "PEEK_ALL", "POP_ALL", "DROP"):
                return True
            if v not in self.rules or v in seen:
                return False
            return self.nullable(self.rules[v]["expr"], seen | {v})
        return False

    def leading_skip(self, e, seen=frozenset()):
        """in a non-atomic context: is there an implicit-WHITESPACE point before the first consuming terminal of e?
        (pest rewrites `a ~ b` to `a ~ skip ~ b`, so a nullable first element of a sequence buys one)"""
        k = e["k"]
        if k == "seq":
            if self.leading_skip(e["a"], seen):
                return True
            return self.nullable(e["a"], seen) and True
        if k == "choice":
            return self.leading_skip(e["a"], seen) and self.leading_skip(e["b"], seen)
        if k in ("opt", "rep", "rep1", "repmin", "repmax", "repmm", "repn", "push"):
            return self.leading_skip(e["e"], seen)
        if k == "ident":
            v = e["v"]
            if v not in self.rules or v in seen:
                return False
            if self.rules[v]["ty"] in ("atomic", "compound_atomic"):
                return False
            return self.leading_skip(self.rules[v]["expr"], seen | {v})
        return False

    def first_alternatives(self, name):
        """the alternatives that can start at the very first position of rule `name` without an implicit skip
        before them: [] when the rule begins with a nullable element followed by `~` (then everything is
        preceded by a skip).  Returns [(label, expr)]"""
        e = self.rules[name]["expr"]
        while e["k"] == "seq":
            if self.nullable(e["a"]) and e["a"]["k"] not in ("rep", "rep1", "opt", "repmin", "repmm", "repmax"):
                return []           # e.g. SOI ~ ... : a skip follows
            e = e["a"]
        while e["k"] in ("rep", "rep1", "opt", "repmin", "repmax", "repmm", "repn", "push"):
            e = e["e"]
        alts = []

        def flat(x):
            if x["k"] == "choice":
                flat(x["a"])
                flat(x["b"])
            else:
                alts.append(x)
        flat(e)
        return [((a["v"] if a["k"] == "ident" else a["k"]), a) for a in alts]


    def seq_elements(self, e):
        out = []

        def flat(x):
            if x["k"] == "seq":
                flat(x["a"])
                flat(x["b"])
            else:
                out.append(x)
        flat(e)
        return out

    def mentions(self, e, name, seen=frozenset()):
        if e["k"] == "ident":
            if e["v"] == name:
                return True
            if e["v"] in self.rules and e["v"] not in seen:
                return self.mentions(self.rules[e["v"]]["expr"], name, seen | {e["v"]})
            return False
        return any(self.mentions(v, name, seen) for k, v in e.items() if isinstance(v, dict))


    # ---- a PEG evaluator for small, atomic rules (used to compare a token rule with the syntax a Rust parser accepts)
    def peg_match(self, e, text, pos=0, depth=0):
        """end position if expression e matches a prefix of text[pos:] (PEG semantics, no implicit whitespace:
        only meant for atomic rules), else None"""
        if depth > 200:
            return None
        k = e["k"]
        if k == "str":
            return pos + len(e["v"]) if text.startswith(e["v"], pos) else None
        if k == "insens":
            return pos + len(e["v"]) if text[pos:pos + len(e["v"])].lower() == e["v"].lower() else None
        if k == "range":
            return pos + 1 if pos < len(text) and e["a"] <= text[pos] <= e["b"] else None
        if k == "ident":
            v = e["v"]
            if v == "ASCII_DIGIT":
                return pos + 1 if pos < len(text) and text[pos] in "0123456789" else None
            if v == "ASCII_NONZERO_DIGIT":
                return pos + 1 if pos < len(text) and text[pos] in "123456789" else None
            if v == "ANY":
                return pos + 1 if pos < len(text) else None
            if v == "SOI":
                return pos if pos == 0 else None
            if v == "EOI":
                return pos if pos == len(text) else None
            if v in self.rules:
                return self.peg_match(self.rules[v]["expr"], text, pos, depth + 1)
            return None
        if k == "seq":
            p1 = self.peg_match(e["a"], text, pos, depth + 1)
            return None if p1 is None else self.peg_match(e["b"], text, p1, depth + 1)
        if k == "choice":
            p1 = self.peg_match(e["a"], text, pos, depth + 1)
            return p1 if p1 is not None else self.peg_match(e["b"], text, pos, depth + 1)
        if k == "opt":
            p1 = self.peg_match(e["e"], text, pos, depth + 1)
            return pos if p1 is None else p1
        if k in ("rep", "rep1"):
            n, cur = 0, pos
            while True:
                p1 = self.peg_match(e["e"], text, cur, depth + 1)
                if p1 is None or p1 == cur:
                    break
                cur, n = p1, n + 1
            return cur if (k == "rep" or n >= 1) else None
        if k == "pospred":
            return pos if self.peg_match(e["e"], text, pos, depth + 1) is not None else None
        if k == "negpred":
            return pos if self.peg_match(e["e"], text, pos, depth + 1) is None else None
        return None

    def full_matches(self, rule, alphabet, maxlen):
        """all strings over `alphabet` up to `maxlen` characters that rule matches entirely"""
        import itertools
        e = self.rules[rule]["expr"]
        out = []
        for n in range(1, maxlen + 1):
            for tup in itertools.product(alphabet, repeat=n):
                s = "".join(tup)
                if self.peg_match(e, s, 0) == n:
                    out.append(s)
        return out


    # ---- PEG evaluation with pest's implicit whitespace (non-atomic rules)
    def _skip(self, text, pos):
        ws = self.rules.get("WHITESPACE")
        cm = self.rules.get("COMMENT")
        while True:
            moved = False
            for r in (ws, cm):
                if r is None:
                    continue
                p1 = self.peg(r["expr"], text, pos, True)
                if p1 is not None and p1 > pos:
                    pos, moved = p1, True
            if not moved:
                return pos

    def peg(self, e, text, pos=0, atomic=False, depth=0):
        """end position of the match of e at pos, or None; `~` and repetitions skip WHITESPACE / COMMENT between
        their elements unless atomic (pest's rewriting of non-atomic rules)"""
        if depth > 400:
            return None
        k = e["k"]
        if k in ("str", "insens", "range"):
            return self.peg_match(e, text, pos)
        if k == "ident":
            v = e["v"]
            if v == "NEWLINE":
                for nl in ("\r\n", "\n", "\r"):
                    if text.startswith(nl, pos):
                        return pos + len(nl)
                return None
            if v in ("ASCII_DIGIT", "ASCII_NONZERO_DIGIT", "ANY", "SOI", "EOI"):
                return self.peg_match(e, text, pos)
            if v == "ASCII_ALPHA":
                return pos + 1 if pos < len(text) and text[pos].isascii() and text[pos].isalpha() else None
            if v == "ASCII_ALPHANUMERIC":
                return pos + 1 if pos < len(text) and text[pos].isascii() and text[pos].isalnum() else None
            r = self.rules.get(v)
            if r is None:
                return None
            at = atomic
            if r["ty"] in ("atomic", "compound_atomic"):
                at = True
            elif r["ty"] == "non_atomic":
                at = False
            return self.peg(r["expr"], text, pos, at, depth + 1)
        if k == "seq":
            p1 = self.peg(e["a"], text, pos, atomic, depth + 1)
            if p1 is None:
                return None
            if not atomic:
                p1 = self._skip(text, p1)
            return self.peg(e["b"], text, p1, atomic, depth + 1)
        if k == "choice":
            p1 = self.peg(e["a"], text, pos, atomic, depth + 1)
            return p1 if p1 is not None else self.peg(e["b"], text, pos, atomic, depth + 1)
        if k == "opt":
            p1 = self.peg(e["e"], text, pos, atomic, depth + 1)
            return pos if p1 is None else p1
        if k in ("rep", "rep1"):
            cur = self.peg(e["e"], text, pos, atomic, depth + 1)
            if cur is None:
                return pos if k == "rep" else None
            while True:
                nxt = cur if atomic else self._skip(text, cur)
                p1 = self.peg(e["e"], text, nxt, atomic, depth + 1)
                if p1 is None or p1 == nxt:
                    break
                cur = p1
            return cur
        if k == "pospred":
            return pos if self.peg(e["e"], text, pos, atomic, depth + 1) is not None else None
        if k == "negpred":
            return pos if self.peg(e["e"], text, pos, atomic, depth + 1) is None else None
        if k == "push":
            return self.peg(e["e"], text, pos, atomic, depth + 1)
        return None

    def accepts(self, rule, text):
        r = self.rules[rule]
        p1 = self.peg(r["expr"], text, 0, r["ty"] in ("atomic", "compound_atomic"))
        return p1 is not None
