"""Inlining of NEW local helper functions into their callers, on the JSON facts, before any rule looks at them.

The rules read one function body at a time (CFG, dominators, path facts).  "Extract a helper" is the most common
behaviour-preserving edit, and it moves the calls a rule is looking for into another body.  To keep the rules exact
without teaching each of them about helpers, every function that did not exist when the rules were written - its path
is not in sa/baseline_fns.json, the list of functions of the tree the rule instances were confirmed on - is spliced
into its callers: parameters become locals assigned from the arguments, `return` becomes a jump to a landing block
that moves the callee's return place into the call's destination.  A helper all of whose calls were spliced is
dropped from the crate (its sites are analysed in context, not twice).

Bounds: helpers of at most MAX_BLOCKS blocks, not recursive, depth MAX_DEPTH, a caller grows to at most MAX_TOTAL
blocks.  On the tree the baseline was taken from nothing is inlined at all.
"""
import json
import os

MAX_BLOCKS = 400
MAX_DEPTH = 3
MAX_TOTAL = 2500
BASELINE = os.path.join(os.path.dirname(os.path.abspath(__file__)), "baseline_fns.json")


def load_baseline():
    try:
        with open(BASELINE) as fh:
            return json.load(fh)
    except (OSError, ValueError):
        return None


def _shift_place(pl, off_l):
    out = dict(pl)
    out["l"] = pl["l"] + off_l
    if pl.get("p"):
        np = []
        for e in pl["p"]:
            if isinstance(e, dict) and "idx" in e:
                e = dict(e)
                e["idx"] = e["idx"] + off_l
            np.append(e)
        out["p"] = np
    return out


def _shift(o, off_l):
    """deep copy of a statement / rvalue / operand with every local shifted"""
    if isinstance(o, dict):
        if "l" in o and "p" in o and isinstance(o.get("l"), int):
            return _shift_place(o, off_l)
        return {k: _shift(v, off_l) for k, v in o.items()}
    if isinstance(o, list):
        return [_shift(v, off_l) for v in o]
    return o


def _shift_block(blk, off_l, off_b, land):
    nb = {"stmts": [_shift(s, off_l) for s in blk["stmts"]], "cleanup": blk.get("cleanup", False)}
    t = blk["term"]
    k = t["k"]
    nt = {"k": k, "span": t.get("span")}
    if k == "goto":
        nt["target"] = t["target"] + off_b
    elif k == "switch":
        nt.update({"op": _shift(t["op"], off_l), "ty": t["ty"], "otherwise": t["otherwise"] + off_b,
                   "targets": [[v, tg + off_b] for v, tg in t["targets"]]})
    elif k == "call":
        nt.update({"func": _shift(t["func"], off_l), "args": _shift(t["args"], off_l), "dest": _shift_place(t["dest"], off_l),
                   "target": (t["target"] + off_b) if t["target"] is not None else None})
    elif k == "assert":
        nt.update({"cond": _shift(t["cond"], off_l), "expected": t["expected"], "kind": t["kind"], "ops": _shift(t["ops"], off_l),
                   "target": t["target"] + off_b})
    elif k == "drop":
        nt.update({"place": _shift_place(t["place"], off_l), "target": t["target"] + off_b})
    elif k == "return":
        nt = {"k": "goto", "target": land, "span": t.get("span")}
    else:                       # abort / resume / unreachable
        pass
    nb["term"] = nt
    return nb


def _callee_of(t):
    f = t.get("func") or {}
    c = f.get("const") if isinstance(f, dict) else None
    if not c or c.get("k") != "fn" or not c.get("local"):
        return None
    return c.get("resolved") or c.get("path")



# Option / Result combinators taking a closure, rewritten into the `match` they stand for (the closure body is spliced in):
#   name -> (variant whose payload goes to the closure, what the other variant yields, wrap the closure's result?)
COMBINATORS = {
    ("Option", "map_or"): ("Some", "default", None),
    ("Option", "is_some_and"): ("Some", False, None),
    ("Option", "is_none_or"): ("Some", True, None),
    ("Option", "map"): ("Some", "None", "Some"),
    ("Option", "and_then"): ("Some", "None", None),
    ("Result", "map_or"): ("Ok", "default", None),
    ("Result", "is_ok_and"): ("Ok", False, None),
    # lazily computed alternatives: the closure takes no payload and runs in the OTHER arm
    ("Option", "or_else"): ("None", "self", None),
    ("Option", "unwrap_or_else"): ("None", "payload", None),
}
DISCR = {"Some": 1, "None": 0, "Ok": 0, "Err": 1}


def _combinator_of(t):
    f = t.get("func") or {}
    c = f.get("const") if isinstance(f, dict) else None
    if not c or c.get("k") != "fn":
        return None
    p = c.get("resolved") or c.get("path") or ""
    name = p.split("::")[-1]
    for fam in ("Option", "Result"):
        if ("::%s::<" % fam) in p and (fam, name) in COMBINATORS:
            return fam, name
    return None


def combinator_sites(body):
    """[(block index, family, name)] of the combinator calls of one body"""
    out = []
    for i, blk in enumerate(body["blocks"]):
        t = blk["term"]
        if t["k"] == "call" and t.get("target") is not None:
            c = _combinator_of(t)
            if c:
                out.append((i, c[0], c[1]))
    return out


def _closure_path_of(js, blocks, op):
    """path of the closure an operand holds: a constant closure, or a local assigned a closure aggregate exactly once"""
    if "const" in op:
        c = op["const"]
        return c.get("path") if c.get("k") == "closure" else None
    pl = op.get("move") or op.get("copy")
    if not pl or pl.get("p"):
        return None
    found = []
    for blk in blocks:
        for st in blk["stmts"]:
            if st["k"] == "assign" and st["place"]["l"] == pl["l"] and not st["place"].get("p"):
                rv = st["rv"]
                found.append(rv.get("path") if rv.get("k") == "agg" and rv.get("agg") == "closure" else None)
        t = blk["term"]
        if t["k"] == "call" and t["dest"]["l"] == pl["l"]:
            found.append(None)
    return found[0] if len(found) == 1 else None


def signature(b):
    return "|".join(l["ty"] for l in b["locals"][:b["arg_count"] + 1])


def _module(path):
    return path.rsplit("::", 1)[0] if "::" in path else ""


def undo_renames(facts, baseline_paths, baseline_sig):
    """A baseline function that is gone while exactly one new function with the same signature exists in the same module
    (and no other gone function competes for it) was renamed: every occurrence of the new path in the facts - the body,
    its closures, callee references - is rewritten to the baseline name, so that anchors, callee tests and finding keys
    keep working.  Returns {new: old}."""
    if not baseline_paths or not baseline_sig:
        return {}
    have = {b["path"]: b for b in facts["bodies"] if b["kind"] == "fn"}
    base = set(baseline_paths)
    gone = [p for p in base if p not in have and "::tests::" not in p]
    fresh = [p for p in have if p not in base and "::tests::" not in p]
    if not gone or not fresh:
        return {}
    callers = {}
    for b in facts["bodies"]:
        top = b.get("parent") or b["path"]
        while "::{closure" in top:
            top = top[:top.rindex("::{closure")]
        for blk in b["blocks"]:
            t = blk["term"]
            if t["k"] == "call":
                cp = _callee_of(t)
                if cp:
                    callers.setdefault(cp, set()).add(top)
    ren = {}
    for g in gone:
        sig = baseline_sig.get(g)
        cands = [f for f in fresh if _module(f) == _module(g) and signature(have[f]) == sig]
        if len(cands) > 1:
            # a helper extracted from the renamed function is called by new code only; the renamed function itself is
            # still called from code that was there before
            cands = [f for f in cands if any(c not in fresh for c in callers.get(f, ()))]
        rivals = [g2 for g2 in gone if g2 != g and _module(g2) == _module(g) and baseline_sig.get(g2) == sig]
        if len(cands) == 1 and not rivals:
            ren[cands[0]] = g
    if not ren:
        return {}

    def fix(sv):
        for new, old in ren.items():
            if sv == new:
                return old
            if sv.startswith(new + "::{closure"):
                return old + sv[len(new):]
        return sv

    def walk(o):
        if isinstance(o, dict):
            for k, v in o.items():
                if isinstance(v, str):
                    if k in ("path", "resolved", "parent"):
                        o[k] = fix(v)
                else:
                    walk(v)
        elif isinstance(o, list):
            for v in o:
                walk(v)
    for b in facts["bodies"]:
        walk(b)
    return ren


def inline_crate(facts, baseline_paths, baseline_comb=None):
    """facts: one crate's facts dict (mutated: 'bodies' replaced).  Returns the list of helper paths that were spliced."""
    if baseline_paths is None:
        return []
    base = set(baseline_paths)
    by_path = {b["path"]: b for b in facts["bodies"]}
    new = {p for p, b in by_path.items() if b["kind"] == "fn" and p not in base and "::tests::" not in p and p != "main"
           and len(b["blocks"]) <= MAX_BLOCKS}
    # combinator calls the confirmed tree did not have (per body and combinator: more calls than the baseline counted)
    excess = set()
    if baseline_comb is not None:
        for p_, b in by_path.items():
            if b["kind"] not in ("fn", "closure") or "::tests::" in p_:
                continue
            cnt = {}
            for i, fam, name in combinator_sites(b):
                cnt[(fam, name)] = cnt.get((fam, name), 0) + 1
            for (fam, name), n in cnt.items():
                if n > baseline_comb.get("%s|%s|%s" % (p_, fam, name), 0):
                    excess.add((p_, fam, name))
    if not new and not excess:
        return []
    memo, stack = {}, []
    eaten = set()           # closures whose body was spliced into the match that replaced their combinator

    def inlined(path):
        if path in memo:
            return memo[path]
        if path in stack or len(stack) >= MAX_DEPTH:
            return by_path[path]
        stack.append(path)
        r = splice(by_path[path])
        stack.pop()
        memo[path] = r
        return r

    used = set()
    left = set()

    def splice(js):
        blocks = list(js["blocks"])
        locals_ = list(js["locals"])
        debug = list(js["debug"])
        changed = False
        i = 0
        n0 = len(blocks)
        while i < n0:
            blk = blocks[i]
            t = blk["term"]
            comb = _combinator_of(t) if t["k"] == "call" and t.get("target") is not None else None
            if comb and (js["path"], comb[0], comb[1]) in excess:
                variant, other, wrap = COMBINATORS[comb]
                cpth = _closure_path_of(js, blocks, t["args"][-1])
                cal = inlined(cpth) if cpth in by_path and cpth not in stack else None
                a0 = t["args"][0]
                pl0 = a0.get("move") or a0.get("copy")
                lazy = variant == "None"
                if cal is not None and cal["arg_count"] == (1 if lazy else 2) and pl0 is not None and \
                        len(blocks) + len(cal["blocks"]) < MAX_TOTAL:
                    sp = t.get("span")
                    l_opt, l_d = len(locals_), len(locals_) + 1
                    locals_.append({"ty": pl0.get("ty", "?"), "mut": False})
                    locals_.append({"ty": "isize", "mut": False})
                    coff = len(locals_)
                    locals_.extend(cal["locals"])
                    for d in cal["debug"]:
                        if d["place"]["l"] in ((1,) if lazy else (1, 2)):
                            continue            # the closure itself (captures) and its parameter stay anonymous
                        nd = dict(d)
                        nd["place"] = _shift_place(d["place"], coff)
                        debug.append(nd)
                    off_b = len(blocks)
                    b_some, entry = off_b, off_b + 1
                    land = entry + len(cal["blocks"])
                    b_none = land + 1
                    variants = [[0, "None"], [1, "Some"]] if comb[0] == "Option" else [[0, "Ok"], [1, "Err"]]
                    pay_ty = cal["locals"][2]["ty"] if not lazy else cal["locals"][0]["ty"]
                    opt_pl = {"l": l_opt, "p": [], "ty": pl0.get("ty", "?")}
                    d_pl = {"l": l_d, "p": [], "ty": "isize"}
                    blocks[i] = {"stmts": list(blk["stmts"]) + [
                        {"k": "assign", "place": opt_pl, "rv": {"k": "use", "op": a0}, "span": sp},
                        {"k": "assign", "place": d_pl, "rv": {"k": "discr", "place": opt_pl, "variants": variants}, "span": sp}],
                        "cleanup": blk.get("cleanup", False),
                        "term": {"k": "switch", "op": {"copy": d_pl}, "ty": "isize", "targets": [[DISCR[variant], b_some]],
                                 "otherwise": b_none, "span": sp}}
                    payload = {"l": l_opt, "p": [{"downcast": variant}, {"f": 0, "name": "0", "bty": pay_ty}], "ty": pay_ty}
                    pre_ = [{"k": "assign", "place": {"l": coff + 1, "p": [], "ty": cal["locals"][1]["ty"]},
                             "rv": {"k": "use", "op": t["args"][-1]}, "span": sp}]
                    if not lazy:
                        pre_.append({"k": "assign", "place": {"l": coff + 2, "p": [], "ty": pay_ty},
                                     "rv": {"k": "use", "op": {"move": payload}}, "span": sp})
                    blocks.append({"stmts": pre_, "cleanup": False, "term": {"k": "goto", "target": entry, "span": sp}})
                    for cb in cal["blocks"]:
                        blocks.append(_shift_block(cb, coff, entry, land))
                    ret = {"move": {"l": coff, "p": [], "ty": cal["locals"][0]["ty"]}}
                    rv_some = {"k": "use", "op": ret} if wrap is None else \
                        {"k": "agg", "agg": "adt", "adt": "std::option::Option", "variant": "Some", "fields": ["0"], "ops": [ret]}
                    blocks.append({"stmts": [{"k": "assign", "place": t["dest"], "rv": rv_some, "span": sp}], "cleanup": False,
                                   "term": {"k": "goto", "target": t["target"], "span": sp}})
                    if other == "default":
                        rv_none = {"k": "use", "op": t["args"][1]}
                    elif other == "self":
                        rv_none = {"k": "use", "op": {"move": opt_pl}}
                    elif other == "payload":
                        some_pl = {"l": l_opt, "p": [{"downcast": "Some"}, {"f": 0, "name": "0", "bty": pay_ty}], "ty": pay_ty}
                        rv_none = {"k": "use", "op": {"move": some_pl}}
                    elif other == "None":
                        rv_none = {"k": "agg", "agg": "adt", "adt": "std::option::Option", "variant": "None", "fields": [], "ops": []}
                    else:
                        rv_none = {"k": "use", "op": {"const": {"k": "val", "ty": "bool", "v": other}}}
                    blocks.append({"stmts": [{"k": "assign", "place": t["dest"], "rv": rv_none, "span": sp}], "cleanup": False,
                                   "term": {"k": "goto", "target": t["target"], "span": sp}})
                    eaten.add(cpth)
                    changed = True
                    i += 1
                    continue
            if t["k"] == "call" and t.get("target") is not None:
                cp = _callee_of(t)
                if cp in new and cp != js["path"]:
                    cal = inlined(cp) if cp not in stack else None
                    if cal is not None and len(t["args"]) == cal["arg_count"] and len(blocks) + len(cal["blocks"]) < MAX_TOTAL:
                        off_l, off_b = len(locals_), len(blocks)
                        locals_.extend(cal["locals"])
                        for d in cal["debug"]:
                            if not d["place"]["p"] and 1 <= d["place"]["l"] <= cal["arg_count"]:
                                continue            # parameters become anonymous: they stand for the argument expressions
                            nd = dict(d)
                            nd["place"] = _shift_place(d["place"], off_l)
                            debug.append(nd)
                        pre = []
                        for j, a in enumerate(t["args"]):
                            pre.append({"k": "assign", "place": {"l": off_l + 1 + j, "p": [], "ty": cal["locals"][1 + j]["ty"]},
                                        "rv": {"k": "use", "op": a}, "span": t.get("span")})
                        land = off_b + len(cal["blocks"])
                        blocks[i] = {"stmts": list(blk["stmts"]) + pre, "cleanup": blk.get("cleanup", False),
                                     "term": {"k": "goto", "target": off_b, "span": t.get("span")}}
                        for cb in cal["blocks"]:
                            blocks.append(_shift_block(cb, off_l, off_b, land))
                        blocks.append({"stmts": [{"k": "assign", "place": t["dest"],
                                                  "rv": {"k": "use", "op": {"move": {"l": off_l, "p": [], "ty": cal["locals"][0]["ty"]}}},
                                                  "span": t.get("span")}],
                                       "cleanup": False, "term": {"k": "goto", "target": t["target"], "span": t.get("span")}})
                        used.add(cp)
                        changed = True
                    else:
                        left.add(cp)
            i += 1
        if not changed:
            return js
        out = dict(js)
        out["blocks"], out["locals"], out["debug"] = blocks, locals_, debug
        out["inlined"] = True
        return out

    result = []
    for b in facts["bodies"]:
        if b["kind"] in ("fn", "closure") and "::tests::" not in b["path"]:
            result.append(inlined(b["path"]) if b["path"] not in new else b)
        else:
            result.append(b)
    # new helpers: their own bodies get their nested helpers spliced too; drop the ones spliced everywhere
    final = []
    for b in result:
        if b["path"] in eaten:
            continue
        if b["path"] in new:
            b2 = inlined(b["path"])
            if b["path"] in used and b["path"] not in left and not _referenced_otherwise(result, b["path"]):
                continue
            final.append(b2)
        else:
            final.append(b)
    facts["bodies"] = final
    return sorted(used | eaten)


def _referenced_otherwise(bodies, path):
    """is the function used as a value (fn pointer / passed to map, for_each ..) somewhere?  then keep its body"""
    needle = json.dumps(path)
    for b in bodies:
        if b["path"] == path:
            continue
        for blk in b["blocks"]:
            for s in blk["stmts"]:
                if needle in json.dumps(s):
                    return True
            t = blk["term"]
            if t["k"] == "call":
                if needle in json.dumps(t.get("args")):
                    return True
    return False
