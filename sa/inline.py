"""Inlining of NEW local helper functions into their callers, on the JSON facts, before any rule looks at them.

The rules read one function body at a time (CFG, dominators, path facts).  "Extract a helper" is the most common
behaviour-preserving edit, and it moves the calls a rule is looking for into another body.  To keep the rules exact
without teaching each of them about helpers, every function that did not exist when the rules were written - its path
is not in sa/baseline_fns.json, the list of functions of the tree the rule instances were confirmed on - is spliced
into its callers: parameters become locals assigned from the arguments, `return` becomes a jump to a landing block
that moves the callee's return place into the call's destination.  A helper all of whose calls were spliced is
dropped from the crate (its sites are analysed in context, not twice).

Bounds: helpers of at most MAX_BLOCKS blocks, not recursive, depth MAX_DEPTH, a caller grows to at most MAX_TOTAL
blocks.  On the tree the baseline was taken from nothing is inlined at all.
"""
import json
import os

MAX_BLOCKS = 400
MAX_DEPTH = 3
MAX_TOTAL = 2500
BASELINE = os.path.join(os.path.dirname(os.path.abspath(__file__)), "baseline_fns.json")


def load_baseline():
    try:
        with open(BASELINE) as fh:
            return json.load(fh)
    except (OSError, ValueError):
        return None


def _shift_place(pl, off_l):
    out = dict(pl)
    out["l"] = pl["l"] + off_l
    if pl.get("p"):
        np = []
        for e in pl["p"]:
            if isinstance(e, dict) and "idx" in e:
                e = dict(e)
                e["idx"] = e["idx"] + off_l
            np.append(e)
        out["p"] = np
    return out


def _shift(o, off_l):
    """deep copy of a statement / rvalue / operand with every local shifted"""
    if isinstance(o, dict):
        if "l" in o and "p" in o and isinstance(o.get("l"), int):
            return _shift_place(o, off_l)
        return {k: _shift(v, off_l) for k, v in o.items()}
    if isinstance(o, list):
        return [_shift(v, off_l) for v in o]
    return o


def _shift_block(blk, off_l, off_b, land):
    nb = {"stmts": [_shift(s, off_l) for s in blk["stmts"]], "cleanup": blk.get("cleanup", False)}
    t = blk["term"]
    k = t["k"]
    nt = {"k": k, "span": t.get("span")}
    if k == "goto":
        nt["target"] = t["target"] + off_b
    elif k == "switch":
        nt.update({"op": _shift(t["op"], off_l), "ty": t["ty"], "otherwise": t["otherwise"] + off_b,
                   "targets": [[v, tg + off_b] for v, tg in t["targets"]]})
    elif k == "call":
        nt.update({"func": _shift(t["func"], off_l), "args": _shift(t["args"], off_l), "dest": _shift_place(t["dest"], off_l),
                   "target": (t["target"] + off_b) if t["target"] is not None else None})
    elif k == "assert":
        nt.update({"cond": _shift(t["cond"], off_l), "expected": t["expected"], "kind": t["kind"], "ops": _shift(t["ops"], off_l),
                   "target": t["target"] + off_b})
    elif k == "drop":
        nt.update({"place": _shift_place(t["place"], off_l), "target": t["target"] + off_b})
    elif k == "return":
        nt = {"k": "goto", "target": land, "span": t.get("span")}
    else:                       # abort / resume / unreachable
        pass
    nb["term"] = nt
    return nb


def _callee_of(t):
    f = t.get("func") or {}
    c = f.get("const") if isinstance(f, dict) else None
    if not c or c.get("k") != "fn" or not c.get("local"):
        return None
    return c.get("resolved") or c.get("path")


def inline_crate(facts, baseline_paths):
    """facts: one crate's facts dict (mutated: 'bodies' replaced).  Returns the list of helper paths that were spliced."""
    if baseline_paths is None:
        return []
    base = set(baseline_paths)
    by_path = {b["path"]: b for b in facts["bodies"]}
    new = {p for p, b in by_path.items() if b["kind"] == "fn" and p not in base and "::tests::" not in p and p != "main"
           and len(b["blocks"]) <= MAX_BLOCKS}
    if not new:
        return []
    memo, stack = {}, []

    def inlined(path):
        if path in memo:
            return memo[path]
        if path in stack or len(stack) >= MAX_DEPTH:
            return by_path[path]
        stack.append(path)
        r = splice(by_path[path])
        stack.pop()
        memo[path] = r
        return r

    used = set()
    left = set()

    def splice(js):
        blocks = list(js["blocks"])
        locals_ = list(js["locals"])
        debug = list(js["debug"])
        changed = False
        i = 0
        n0 = len(blocks)
        while i < n0:
            blk = blocks[i]
            t = blk["term"]
            if t["k"] == "call" and t.get("target") is not None:
                cp = _callee_of(t)
                if cp in new and cp != js["path"]:
                    cal = inlined(cp) if cp not in stack else None
                    if cal is not None and len(t["args"]) == cal["arg_count"] and len(blocks) + len(cal["blocks"]) < MAX_TOTAL:
                        off_l, off_b = len(locals_), len(blocks)
                        locals_.extend(cal["locals"])
                        for d in cal["debug"]:
                            if not d["place"]["p"] and 1 <= d["place"]["l"] <= cal["arg_count"]:
                                continue            # parameters become anonymous: they stand for the argument expressions
                            nd = dict(d)
                            nd["place"] = _shift_place(d["place"], off_l)
                            debug.append(nd)
                        pre = []
                        for j, a in enumerate(t["args"]):
                            pre.append({"k": "assign", "place": {"l": off_l + 1 + j, "p": [], "ty": cal["locals"][1 + j]["ty"]},
                                        "rv": {"k": "use", "op": a}, "span": t.get("span")})
                        land = off_b + len(cal["blocks"])
                        blocks[i] = {"stmts": list(blk["stmts"]) + pre, "cleanup": blk.get("cleanup", False),
                                     "term": {"k": "goto", "target": off_b, "span": t.get("span")}}
                        for cb in cal["blocks"]:
                            blocks.append(_shift_block(cb, off_l, off_b, land))
                        blocks.append({"stmts": [{"k": "assign", "place": t["dest"],
                                                  "rv": {"k": "use", "op": {"move": {"l": off_l, "p": [], "ty": cal["locals"][0]["ty"]}}},
                                                  "span": t.get("span")}],
                                       "cleanup": False, "term": {"k": "goto", "target": t["target"], "span": t.get("span")}})
                        used.add(cp)
                        changed = True
                    else:
                        left.add(cp)
            i += 1
        if not changed:
            return js
        out = dict(js)
        out["blocks"], out["locals"], out["debug"] = blocks, locals_, debug
        out["inlined"] = True
        return out

    result = []
    for b in facts["bodies"]:
        if b["kind"] in ("fn", "closure") and "::tests::" not in b["path"]:
            result.append(inlined(b["path"]) if b["path"] not in new else b)
        else:
            result.append(b)
    # new helpers: their own bodies get their nested helpers spliced too; drop the ones spliced everywhere
    final = []
    for b in result:
        if b["path"] in new:
            b2 = inlined(b["path"])
            if b["path"] in used and b["path"] not in left and not _referenced_otherwise(result, b["path"]):
                continue
            final.append(b2)
        else:
            final.append(b)
    facts["bodies"] = final
    return sorted(used)


def _referenced_otherwise(bodies, path):
    """is the function used as a value (fn pointer / passed to map, for_each ..) somewhere?  then keep its body"""
    needle = json.dumps(path)
    for b in bodies:
        if b["path"] == path:
            continue
        for blk in b["blocks"]:
            for s in blk["stmts"]:
                if needle in json.dumps(s):
                    return True
            t = blk["term"]
            if t["k"] == "call":
                if needle in json.dumps(t.get("args")):
                    return True
    return False
