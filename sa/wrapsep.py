"""World-based reading of tools::wrap_sep_string: for a quote tag `sep` and a character `c` of the text, is a backslash
pushed in front of `c`?

The per-character loop body is explored once per world (sep in {"", '"', "'", "`"}, c a concrete character): branch
conditions that the world decides - `sep.is_empty()`, `c == '<const>'`, `c.to_string() == sep`, bools defined from
these, negations - are followed only along the consistent edge; everything else (the running `met_subsep` state) is
followed both ways.  `must` = every consistent path from the loop body's entry to the push of `c` itself passes a
`push('\\\\')`; `may` = some path does.  The form of the conditions (nested ifs, `||`, hoisted lets, a helper spliced
in) does not matter."""
from . import mir
from .mir import const_char, last_seg, strip_sites

TAGS = ("\"", "'", "`")


class WrapSep:
    def __init__(self, crate):
        self.ok = False
        w = crate.fn("tools::wrap_sep_string")
        self.w = w
        if w is None:
            return
        self.bs = [bb for bb, t, c in w.calls() if last_seg(c) == "push" and "String" in c and
                   len(w.call_args(bb)) == 2 and const_char(w.call_args(bb)[1]) == "\\"]
        self.pc = [bb for bb, t, c in w.calls() if last_seg(c) == "push" and "String" in c and
                   len(w.call_args(bb)) == 2 and const_char(w.call_args(bb)[1]) is None]
        nexts = [bb for bb, t, c in w.calls() if last_seg(c) == "next" and "Chars" in c]
        if not self.bs or len(self.pc) != 1 or len(nexts) != 1:
            return
        self.nb = nexts[0]
        some = [tgt for tgt, atom, val in w.switch_edges(w.succs[self.nb][0]) if val == "Some"] if w.succs[self.nb] else []
        if not some:
            return
        self.entry = some[0]
        self.loop = None
        for h, blocks in w.loops().items():
            if self.nb in blocks and (self.loop is None or len(blocks) > len(self.loop[1])):
                self.loop = (h, blocks)
        if self.loop is None:
            return
        self.consts = set()
        for bb in self.loop[1]:
            for tgt, atom, val in w.switch_edges(bb):
                for s in mir.subexprs(atom):
                    if s[0] == "bin" and s[1] in ("Eq", "Ne") and const_char(s[3]):
                        self.consts.add(const_char(s[3]))
        for l, loc in enumerate(w.locals):
            if loc["ty"] == "bool":
                for e in mir.bool_sources(w, l):
                    for s in mir.subexprs(e):
                        if s[0] == "bin" and s[1] in ("Eq", "Ne") and const_char(s[3]):
                            self.consts.add(const_char(s[3]))
        self.ok = True
        self._memo = {}

    def _is_char(self, e):
        return any(s[0] == "call" and last_seg(s[1]) == "next" for s in mir.subexprs(self.w.expand_vars(e)))

    def _eval(self, e, sep, c, depth=0):
        w = self.w
        e = strip_sites(e)
        if depth > 8:
            return None
        cb = mir.const_bool(e)
        if cb is not None:
            return cb
        if e[0] == "un" and e[1] == "Not":
            v = self._eval(e[2], sep, c, depth + 1)
            return None if v is None else (not v)
        if e[0] == "call" and last_seg(e[1]) == "is_empty" and e[2] and \
                any(s[0] == "param" for s in mir.subexprs(w.expand_vars(e[2][0]))):
            return sep == ""
        if e[0] == "bin" and e[1] in ("Eq", "Ne") and const_char(e[3]) and self._is_char(e[2]):
            return (c == const_char(e[3])) == (e[1] == "Eq")
        if e[0] == "call" and last_seg(e[1]) in ("eq", "ne") and len(e[2]) == 2 and any(
                s[0] == "call" and last_seg(s[1]) == "to_string" for s in mir.subexprs(e)) and any(
                s[0] == "param" for s in mir.subexprs(w.expand_vars(e))):
            return (c == sep) == (last_seg(e[1]) == "eq")
        if e[0] == "var" and w.locals[e[1]]["ty"] == "bool":
            if e[1] in w.names and len(w.defs.get(e[1], [])) > 1 and any(
                    any(bi in blocks for blocks in w.loops().values()) and mir.const_bool(w.def_expr(bi, si)) is not None
                    for bi, si in w.defs.get(e[1], [])) and any(
                    not any(bi in blocks for blocks in w.loops().values()) for bi, si in w.defs.get(e[1], [])):
                return None         # running state (`met_subsep`): set before the loop and flipped inside it
            vals = {self._eval(x, sep, c, depth + 1) for x in mir.bool_sources(w, e[1])}
            if len(vals) == 1:
                return vals.pop()
            return None
        ee = w.expand_vars(e)
        if ee != e:
            return self._eval(ee, sep, c, depth + 1)
        return None

    def escape(self, sep, c):
        """(may, must) a backslash precede character c under tag sep"""
        key = (sep, c)
        if key in self._memo:
            return self._memo[key]
        w = self.w
        h, blocks = self.loop
        bs, pc = set(self.bs), self.pc[0]
        # paths from the body entry to the push of c that avoid every backslash push
        seen, todo, bare = set(), [self.entry], False
        while todo:
            x = todo.pop()
            if x in seen or x not in blocks or x in bs:
                continue
            seen.add(x)
            if x == pc:
                bare = True
                continue
            if x == h:
                continue
            todo.extend(self._succs(x, sep, c))
        # some path through a backslash push
        seen2, todo, esc = set(), [self.entry], False
        while todo:
            x = todo.pop()
            if x in seen2 or x not in blocks:
                continue
            seen2.add(x)
            if x in bs:
                esc = True
                break
            if x == pc or x == h:
                continue
            todo.extend(self._succs(x, sep, c))
        r = (esc, esc and not bare)
        self._memo[key] = r
        return r

    def _succs(self, x, sep, c):
        w = self.w
        edges = w.switch_edges(x)
        if not edges:
            return list(w.succs[x])
        out = []
        for tgt, atom, val in edges:
            tv = self._eval(atom, sep, c) if isinstance(val, bool) else None
            if tv is None or tv == val:
                out.append(tgt)
        return out

    # the summaries the rules use
    def untagged_escapes(self):
        return {ch for ch in self.consts | {" "} if self.escape("", ch)[0]}

    def tag_always_escaped(self):
        return all(self.escape(q, q)[1] for q in TAGS)

    def tag_escaped(self):
        return all(self.escape(q, q)[0] for q in TAGS)

    def tagged_extra(self, q="\""):
        return {ch for ch in self.consts if ch != q and self.escape(q, ch)[0]}
