"""Program model over the JSON MIR facts: CFG, dominators, loops, expression
rebuild, branch atoms, generic fact-carrying path exploration.

Expressions are nested tuples:
  ('param', local, name) ('var', local, name) ('tmp', local)
  ('const', value)  value = int | bool | ('str', s) | ('char', c) | 'zst' | ('fn', path) | ('other', ty)
  ('field', i, e) ('index', e, ie) ('downcast', variant, e)
  ('bin', op, a, b) ('un', op, a) ('cast', ty, e) ('discr', e)
  ('agg', name, (ops...)) ('call', path, (args...), site)
  ('unknown', why)
Ref / Deref are dropped: a reference and its referent are the same value for
every rule here.
"""
import os
import re
import sys

sys.setrecursionlimit(10000)

IDENTITY_CALLS = (
    "::clone", "::to_string", "::to_owned", "::as_str", "::deref", "::borrow",
    "::as_ref", "::into", "::from", "::as_mut_str", "::deref_mut", "::to_str",
    "::as_slice", "::as_mut_slice", "::into_iter", "::iter", "::as_bytes",
)


PURE_LAST = {
    "eq", "ne", "lt", "le", "gt", "ge", "cmp", "partial_cmp", "is_empty", "len", "starts_with", "ends_with",
    "contains", "is_match", "re_contains", "is_some", "is_none", "is_ok", "is_err", "trim", "trim_start",
    "trim_end", "chars", "count", "as_bytes", "not", "contains_key", "get", "first", "last", "index",
    "unwrap", "expect", "as_str", "deref", "clone", "to_string", "to_owned", "borrow", "as_ref", "into", "from",
    "as_mut_str", "deref_mut", "to_str", "as_slice", "as_mut_slice", "as_c_str", "display", "exists", "is_dir",
    "is_file", "captures", "find", "new_display", "new_debug", "parse", "is_alias", "is_builtin", "is_env",
    "is_arithmetic", "has_here_string", "has_redirect_from", "is_single_and_builtin", "with_pipeline",
    "is_login", "is_script", "is_command_string", "is_non_tty", "env_in_token", "needs_globbing",
    "need_expand_brace", "should_do_dollar_command_extension", "is_args_in_token", "basename",
    "all_members_stopped", "all_members_running", "is_exited", "is_stopped", "is_continued", "is_signaled",
    "is_error", "is_others", "get_pid", "get_status", "get_signal", "get_errno", "is_signal_handler_enabled",
}


def is_pure_callee(path):
    return last_seg(path) in PURE_LAST


def _strip_angles(s):
    out = []
    d = 0
    i = 0
    while i < len(s):
        c = s[i]
        if c == "<":
            d += 1
        elif c == ">" and i > 0 and s[i - 1] != "-":
            d -= 1
        elif d == 0:
            out.append(c)
        i += 1
    return "".join(out).replace("::::", "::").strip(":")


def _match_angle(s, i):
    d = 0
    j = i
    while j < len(s):
        if s[j] == "<":
            d += 1
        elif s[j] == ">" and s[j - 1] != "-":
            d -= 1
            if d == 0:
                return j
        j += 1
    return -1


_short_cache = {}


def short(path):
    """Readable def path without generic noise:
    `<X<..> as Trait>::m` -> `X::m`; `a::<impl T<..> for X>::m` -> `T::m`;
    `Vec::<T, A>::push` -> `Vec::push`."""
    r = _short_cache.get(path)
    if r is not None:
        return r
    p = path
    if p.startswith("<"):
        j = _match_angle(p, 0)
        if j > 0:
            inner = p[1:j]
            rest = p[j + 1:]
            k = _find_top(inner, " as ")
            ty = inner[:k] if k >= 0 else inner
            p = _strip_angles(ty).lstrip("&").replace("mut ", "").replace("'a ", "").strip() + rest
    k = p.find("<impl ")
    if k >= 0:
        j = _match_angle(p, k)
        if j > 0:
            inner = p[k + 6:j]
            f = _find_top(inner, " for ")
            tr = inner[:f] if f >= 0 else inner
            tr = _strip_angles(tr).split("::")[-1]
            p = tr + p[j + 1:]
    p = _strip_angles(p)
    _short_cache[path] = p
    return p


def _find_top(s, needle):
    d = 0
    for i in range(len(s)):
        if s[i] == "<":
            d += 1
        elif s[i] == ">" and i > 0 and s[i - 1] != "-":
            d -= 1
        elif d == 0 and s.startswith(needle, i):
            return i
    return -1


def last_seg(path):
    return short(path).split("::")[-1]


class Body:
    def __init__(self, js, crate):
        self.js = js
        self.crate = crate
        self.path = js["path"]
        self.kind = js["kind"]
        self.parent = js["parent"]
        self.span = js["span"]
        self.arg_count = js["arg_count"]
        self.locals = js["locals"]
        self.blocks = js["blocks"]
        self.n = len(self.blocks)
        self.names = {}
        self.cap_names = {}
        for d in js["debug"]:
            pl = d["place"]
            if not pl["p"]:
                self.names.setdefault(pl["l"], d["name"])
            else:
                self.cap_names[(pl["l"], _projkey(pl["p"]))] = d["name"]
        self._succs = None
        self._preds = None
        self._dom = None
        self._pdom = None
        self._defs = None
        self._mutborrow = None
        self._expr_cache = {}
        self._reach = None

    # ---------------------------------------------------------------- CFG
    def file(self):
        return self.span["file"]

    def line(self):
        return self.span["line"]

    def term(self, bb):
        return self.blocks[bb]["term"]

    def raw_succs(self, bb):
        t = self.blocks[bb]["term"]
        k = t["k"]
        if k == "goto":
            return [t["target"]]
        if k == "switch":
            # constant condition: prune
            c = self.const_of_operand(t["op"])
            if c is None:
                try:
                    ce = self.operand_expr(t["op"])
                    if ce[0] == "const" and isinstance(ce[1], (int, bool)):
                        c = ce[1]
                except RecursionError:
                    c = None
            if c is not None and isinstance(c, (int, bool)):
                v = int(c)
                for val, tgt in t["targets"]:
                    if val == v:
                        return [tgt]
                return [t["otherwise"]]
            out = []
            for _, tgt in t["targets"]:
                if tgt not in out:
                    out.append(tgt)
            if t["otherwise"] not in out and not self._is_unreachable(t["otherwise"]):
                out.append(t["otherwise"])
            return out
        if k in ("call",):
            return [t["target"]] if t["target"] is not None else []
        if k in ("assert", "drop"):
            return [t["target"]]
        return []

    def _is_unreachable(self, bb):
        b = self.blocks[bb]
        return b["term"]["k"] == "unreachable" and not b["stmts"]

    def const_of_operand(self, op):
        if "const" in op:
            c = op["const"]
            if c.get("k") == "val":
                v = c["v"]
                if isinstance(v, (int, bool)):
                    return v
        return None

    @property
    def succs(self):
        if self._succs is None:
            self._succs = [None] * self.n
            for i in range(self.n):
                if self.blocks[i]["cleanup"]:
                    self._succs[i] = []
                else:
                    self._succs[i] = [s for s in self.raw_succs(i) if not self.blocks[s]["cleanup"]]
            # restrict to blocks reachable from entry
            seen = {0}
            st = [0]
            while st:
                x = st.pop()
                for s in self._succs[x]:
                    if s not in seen:
                        seen.add(s)
                        st.append(s)
            self._reach = seen
            for i in range(self.n):
                if i not in seen:
                    self._succs[i] = []
        return self._succs

    @property
    def reachable(self):
        self.succs
        return self._reach

    @property
    def preds(self):
        if self._preds is None:
            self._preds = [[] for _ in range(self.n)]
            for i in self.reachable:
                for s in self.succs[i]:
                    self._preds[s].append(i)
        return self._preds

    def exits(self):
        """blocks that end the function normally (Return)."""
        return [i for i in self.reachable if self.term(i)["k"] == "return"]

    def dead_ends(self):
        """reachable blocks with no successors that are not Return (diverging calls, unreachable)."""
        return [i for i in self.reachable if not self.succs[i] and self.term(i)["k"] != "return"]

    @property
    def dom(self):
        if self._dom is None:
            self._dom = _dominators(self.n, 0, self.succs, self.preds, self.reachable)
        return self._dom

    def dominates(self, a, b):
        return a in self.dom.get(b, ())

    @property
    def pdom(self):
        """post-dominators w.r.t. a virtual exit joined from Return blocks and dead ends."""
        if self._pdom is None:
            n = self.n
            ex = n
            succs = [list(s) for s in self.succs] + [[]]
            for i in self.reachable:
                if not self.succs[i]:
                    succs[i] = [ex]
            preds = [[] for _ in range(n + 1)]
            for i in list(self.reachable) + [ex]:
                for s in succs[i]:
                    preds[s].append(i)
            reach = set(self.reachable) | {ex}
            self._pdom = _dominators(n + 1, ex, preds, succs, reach)
        return self._pdom

    def back_edges(self):
        out = []
        for a in self.reachable:
            for b in self.succs[a]:
                if self.dominates(b, a):
                    out.append((a, b))
        return out

    def loops(self):
        """natural loops: {header: set(blocks)}"""
        loops = {}
        for a, h in self.back_edges():
            body = loops.setdefault(h, {h})
            st = [a]
            while st:
                x = st.pop()
                if x not in body:
                    body.add(x)
                    st.extend(self.preds[x])
        return loops

    # ------------------------------------------------------- definitions
    @property
    def defs(self):
        """local -> list of (bb, idx) full assignments; idx = stmt index or 'T'."""
        if self._defs is None:
            d = {}
            mb = {}
            for bi in range(self.n):
                b = self.blocks[bi]
                if b["cleanup"]:
                    continue
                for si, s in enumerate(b["stmts"]):
                    if s["k"] == "assign":
                        pl = s["place"]
                        if not pl["p"]:
                            d.setdefault(pl["l"], []).append((bi, si))
                        else:
                            d.setdefault(("partial", pl["l"]), []).append((bi, si))
                        rv = s["rv"]
                        if rv["k"] == "ref" and rv["mut"]:
                            mb.setdefault(rv["place"]["l"], []).append((bi, si))
                        if rv["k"] == "rawptr":
                            mb.setdefault(rv["place"]["l"], []).append((bi, si))
                t = b["term"]
                if t["k"] == "call":
                    pl = t["dest"]
                    if not pl["p"]:
                        d.setdefault(pl["l"], []).append((bi, "T"))
                    else:
                        d.setdefault(("partial", pl["l"]), []).append((bi, "T"))
            self._defs = d
            self._mutborrow = mb
        return self._defs

    @property
    def mutborrows(self):
        self.defs
        return self._mutborrow

    def is_param(self, l):
        return 1 <= l <= self.arg_count

    def name_of(self, l):
        return self.names.get(l)

    # ------------------------------------------------------- expressions
    def local_expr(self, l, depth=0, stack=()):
        key = l
        if key in self._expr_cache:
            return self._expr_cache[key]
        e = self._local_expr(l, depth, stack)
        if not stack:
            self._expr_cache[key] = e
        return e

    def _local_expr(self, l, depth, stack):
        name = self.names.get(l)
        defs = self.defs.get(l, [])
        partial = self.defs.get(("partial", l), [])
        if self.is_param(l):
            if not defs:
                return ("param", l, name or ("_%d" % l))
            return ("var", l, name or ("_%d" % l))
        if len(defs) != 1 or l in stack or depth > 40:
            if name:
                return ("var", l, name)
            if len(defs) == 0:
                return ("tmp", l)
            return ("var", l, "_%d" % l)
        if name is not None and (partial or l in self.mutborrows):
            # user variable mutated in place after its single assignment
            # (vectors, strings, structs): keep as a variable
            # but allow refs (type is a reference) to expand
            if not self.locals[l]["ty"].startswith("&"):
                return ("var", l, name)
        bi, si = defs[0]
        e = self.def_expr(bi, si, depth + 1, stack + (l,))
        if name is not None and _has_multidef_var(e):
            return ("var", l, name)
        return e

    def def_expr(self, bi, si, depth=0, stack=()):
        b = self.blocks[bi]
        if si == "T":
            t = b["term"]
            return self.call_expr(bi, depth, stack)
        s = b["stmts"][si]
        return self.rvalue_expr(s["rv"], depth, stack)

    def call_expr(self, bi, depth=0, stack=()):
        t = self.blocks[bi]["term"]
        callee = self.callee(t)
        args = tuple(self.operand_expr(a, depth + 1, stack) for a in t["args"])
        return ("call", callee, args, bi)

    def callee(self, t):
        f = t["func"]
        if "const" in f and f["const"].get("k") == "fn":
            return f["const"]["resolved"]
        if "const" in f and f["const"].get("k") == "closure":
            return f["const"]["path"]
        return "<indirect>"

    def callee_info(self, t):
        f = t["func"]
        if "const" in f and f["const"].get("k") == "fn":
            return f["const"]
        return None

    def rvalue_expr(self, rv, depth=0, stack=()):
        k = rv["k"]
        if k == "use":
            return self.operand_expr(rv["op"], depth, stack)
        if k in ("ref", "rawptr"):
            return self.place_expr(rv["place"], depth, stack)
        if k == "bin":
            return ("bin", rv["op"], self.operand_expr(rv["a"], depth, stack),
                    self.operand_expr(rv["b"], depth, stack))
        if k == "un":
            return ("un", rv["op"], self.operand_expr(rv["a"], depth, stack))
        if k == "cast":
            inner = self.operand_expr(rv["op"], depth, stack)
            kind = rv["kind"]
            if kind.startswith("PointerCoercion") or kind.startswith("Transmute") or "Ptr" in kind:
                return inner
            return ("cast", rv["ty"], inner)
        if k == "discr":
            return ("discr", self.place_expr(rv["place"], depth, stack))
        if k == "agg":
            if rv["agg"] == "adt":
                name = rv["adt"] + "::" + rv["variant"]
            elif rv["agg"] == "closure":
                name = "closure:" + rv["path"]
            else:
                name = rv["agg"]
            return ("agg", name, tuple(self.operand_expr(o, depth, stack) for o in rv["ops"]))
        if k == "repeat":
            return ("agg", "repeat", (self.operand_expr(rv["op"], depth, stack),))
        return ("unknown", rv.get("dbg", k)[:60])

    def operand_expr(self, op, depth=0, stack=()):
        if "const" in op:
            return self.const_expr(op["const"])
        pl = op.get("copy") or op.get("move")
        if pl is None:
            return ("unknown", "operand")
        return self.place_expr(pl, depth, stack)

    def const_expr(self, c):
        k = c.get("k")
        if k == "val":
            v = c["v"]
            if isinstance(v, dict):
                if "str" in v:
                    return ("const", ("str", v["str"]))
                if "char" in v:
                    return ("const", ("char", v["char"]))
                if "bytes" in v:
                    return ("const", ("bytes", tuple(v["bytes"])))
            if v == "zst":
                return ("const", ("zst", c.get("ty", "")))
            return ("const", v)
        if k == "fn":
            return ("const", ("fn", c["resolved"]))
        if k == "closure":
            return ("const", ("fn", c["path"]))
        if k == "promoted":
            prog = self.crate
            pb = prog.bodies.get("%s::{promoted#%d}" % (c["def"], c["idx"]))
            if pb is not None:
                return pb.return_expr()
            return ("unknown", "promoted")
        if k == "unevaluated":
            return ("const", ("static", c["def"]))
        return ("const", ("other", c.get("ty", "")))

    def return_expr(self):
        """value of _0 (used for promoted bodies)."""
        defs = self.defs.get(0, [])
        if len(defs) == 1:
            return self.def_expr(defs[0][0], defs[0][1])
        return ("unknown", "return")

    def place_expr(self, pl, depth=0, stack=()):
        l = pl["l"]
        proj = pl["p"]
        # closure captures: (_1).field / (*_1).field with a debug name
        if proj and self.kind == "closure" and l == 1:
            for cut in range(len(proj), 0, -1):
                nm = self.cap_names.get((1, _projkey(proj[:cut])))
                if nm is not None:
                    e = ("capture", nm)
                    return self._apply_proj(e, proj[cut:], depth, stack)
        e = self.local_expr(l, depth, stack) if not stack else self._local_expr(l, depth, stack)
        return self._apply_proj(e, proj, depth, stack)

    def _apply_proj(self, e, proj, depth, stack):
        for p in proj:
            if p == "deref":
                continue
            if p == "opaque":
                e = ("unknown", "opaque")
                continue
            if "f" in p:
                e = _mk_field(p["f"], e, (p.get("name", ""), p.get("bty", "")))
            elif "idx" in p:
                ie = self.local_expr(p["idx"], depth + 1, stack) if not stack else self._local_expr(p["idx"], depth + 1, stack)
                e = ("index", e, ie)
            elif "cidx" in p:
                e = ("index", e, ("const", p["cidx"] if not p["from_end"] else ("from_end", p["cidx"])))
            elif "downcast" in p:
                e = ("downcast", p["downcast"], e)
            elif "subslice" in p:
                e = ("subslice", tuple(p["subslice"]), e)
        return e

    def expand_vars(self, e, depth=0):
        """replace single-definition named variables by their defining expression (for matching only)"""
        if not isinstance(e, tuple) or not e or depth > 8:
            return e
        if e[0] == "var":
            defs = self.defs.get(e[1], [])
            l = e[1]
            mutated = (self.defs.get(("partial", l)) or l in self.mutborrows) and \
                not self.locals[l]["ty"].startswith("&")
            if len(defs) == 1 and not self.is_param(l) and not mutated:
                return self.expand_vars(strip_sites(self.def_expr(defs[0][0], defs[0][1])), depth + 1)
            return e
        if e[0] in ("const", "param", "tmp", "capture"):
            return e
        return tuple(self.expand_vars(x, depth) if isinstance(x, tuple) and x and isinstance(x[0], str)
                     else (tuple(self.expand_vars(y, depth) for y in x) if isinstance(x, tuple) else x)
                     for x in e)

    # ------------------------------------------------------------- atoms
    def switch_edges(self, bb):
        """For a switch terminator: list of (succ, atom, value) ; atom is a
        canonical expression (no call-site ids), value a python value:
        True/False for bools, variant name for discriminants, int otherwise;
        for 'otherwise' edges value = ('not', (v1, v2...))."""
        t = self.term(bb)
        if t["k"] != "switch":
            return []
        e = self.operand_expr(t["op"])
        live = set(self.succs[bb])
        return [x for x in self._switch_edges_expr(t, e) if x[0] in live]

    def _switch_edges_expr(self, t, e):
        out = []
        neg = False
        while e[0] == "un" and e[1] == "Not":
            e = e[2]
            neg = not neg
        is_bool = t["ty"] == "bool"
        variants = None
        if e[0] == "discr":
            variants = self._variants_of_switch(t)
            atom = ("discr", strip_sites(e[1]))
        else:
            atom = strip_sites(e)
        vals = []
        for v, tgt in t["targets"]:
            if is_bool:
                val = bool(v) ^ neg
            elif variants is not None:
                val = variants.get(v, v)
            else:
                val = v
            vals.append(val)
            out.append((tgt, atom, val))
        if not self._is_unreachable(t["otherwise"]):
            if is_bool and len(vals) == 1:
                out.append((t["otherwise"], atom, not vals[0]))
            elif variants is not None:
                rest = [n for n in variants.values() if n not in vals]
                if len(rest) == 1:
                    out.append((t["otherwise"], atom, rest[0]))
                else:
                    out.append((t["otherwise"], atom, ("not", tuple(vals))))
            else:
                out.append((t["otherwise"], atom, ("not", tuple(vals))))
        return out

    def _variants_of_switch(self, t):
        # find the discr rvalue feeding this switch
        op = t["op"]
        pl = op.get("copy") or op.get("move")
        if pl is None:
            return None
        defs = self.defs.get(pl["l"], [])
        if len(defs) != 1 or defs[0][1] == "T":
            return None
        s = self.blocks[defs[0][0]]["stmts"][defs[0][1]]
        if s["rv"]["k"] == "discr":
            return {d: n for d, n in s["rv"]["variants"]}
        return None

    # ------------------------------------------------------------ queries
    def calls(self):
        """yield (bb, term, callee_path) for reachable call terminators."""
        for i in sorted(self.reachable):
            t = self.term(i)
            if t["k"] == "call":
                yield i, t, self.callee(t)

    def call_args(self, bb):
        t = self.term(bb)
        return [self.operand_expr(a) for a in t["args"]]

    def stmts(self):
        for i in sorted(self.reachable):
            for si, s in enumerate(self.blocks[i]["stmts"]):
                yield i, si, s

    def span_of(self, bb, si=None):
        if si is None or si == "T":
            return self.term(bb)["span"]
        return self.blocks[bb]["stmts"][si]["span"]

    def loc(self, bb, si=None):
        sp = self.span_of(bb, si)
        return "%s:%d" % (sp["file"], sp["line"])

    def assigned_vars_in_block(self, bb):
        """set of locals fully or partially assigned, or mutably borrowed, in bb."""
        out = set()
        b = self.blocks[bb]
        for s in b["stmts"]:
            if s["k"] == "assign":
                out.add(s["place"]["l"])
                rv = s["rv"]
                if rv["k"] in ("ref", "rawptr") and (rv.get("mut") or rv["k"] == "rawptr"):
                    out.add(rv["place"]["l"])
        t = b["term"]
        if t["k"] == "call":
            out.add(t["dest"]["l"])
        return out


def _projkey(p):
    out = []
    for x in p:
        if x == "deref":
            continue
        if isinstance(x, dict) and "f" in x:
            out.append(("f", x["f"]))
        else:
            out.append(("o", str(x)))
    return tuple(out)


def _mk_field(i, e, meta=None):
    # (a OPWithOverflow b).0  ->  a OP b
    if e[0] == "bin" and e[1].endswith("WithOverflow"):
        if i == 0:
            return ("bin", e[1][:-len("WithOverflow")], e[2], e[3])
        return ("overflow_flag", e)
    if e[0] == "agg" and e[1] == "tuple" and i < len(e[2]):
        return e[2][i]
    if e[0] == "agg" and e[1] != "repeat" and not e[1].startswith("closure:") and e[1] != "array" \
            and i < len(e[2]) and "::" in e[1]:
        # field of a struct literal built in this function
        return e[2][i]
    return ("field", i, e, meta) if meta else ("field", i, e)


def _has_multidef_var(e):
    if not isinstance(e, tuple):
        return False
    if e and e[0] == "var":
        return True
    if e and e[0] in ("const", "param", "tmp", "capture"):
        return False
    return any(_has_multidef_var(x) for x in e[1:] if isinstance(x, tuple))


def strip_sites(e):
    """drop call-site ids and field names so that structurally equal values compare equal."""
    if not isinstance(e, tuple):
        return e
    if not e:
        return e
    if e[0] == "call":
        if len(e) > 3 and not is_pure_callee(e[1]):
            # a call that may yield a different value each time it runs keeps its site identity
            return ("call", e[1], tuple(strip_sites(a) for a in e[2]), e[3])
        return ("call", e[1], tuple(strip_sites(a) for a in e[2]))
    if e[0] == "field":
        return ("field", e[1], strip_sites(e[2]), field_name(e))
    if e[0] in ("const",):
        return e
    return tuple(strip_sites(x) if isinstance(x, tuple) else x for x in e)


def peel(e):
    """peel value-preserving wrappers (clone, as_str, deref, to_string, casts of refs...)."""
    while True:
        if e[0] == "call" and len(e[2]) >= 1 and any(short(e[1]).endswith(s) for s in IDENTITY_CALLS):
            e = e[2][0]
            continue
        return e


def peel_deep(e):
    if not isinstance(e, tuple) or not e:
        return e
    e = peel(e)
    if e[0] in ("const", "param", "var", "tmp", "capture"):
        return e
    return tuple(peel_deep(x) if isinstance(x, tuple) and x and isinstance(x[0], str) else
                 (tuple(peel_deep(y) for y in x) if isinstance(x, tuple) else x) for x in e)


def subexprs(e):
    if isinstance(e, tuple) and e:
        yield e
        for x in e[1:]:
            if isinstance(x, tuple):
                if x and isinstance(x[0], str):
                    yield from subexprs(x)
                else:
                    for y in x:
                        if isinstance(y, tuple):
                            yield from subexprs(y)


def mentions(e, pred):
    return any(pred(s) for s in subexprs(e))


def locals_in(e):
    out = set()
    for s in subexprs(e):
        if s[0] in ("var", "param", "tmp"):
            out.add(s[1])
    return out


def const_str(e):
    e = peel(e)
    if e[0] == "const" and isinstance(e[1], tuple) and e[1][0] == "str":
        return e[1][1]
    return None


def const_bytes(e):
    """byte-string constant (b"..", or the template of a format_args!) as bytes, else None"""
    e = peel(e)
    if e[0] == "const" and isinstance(e[1], tuple) and e[1][0] == "bytes":
        return bytes(e[1][1])
    return None


def const_char(e):
    e = peel(e)
    if e[0] == "const" and isinstance(e[1], tuple) and e[1][0] == "char":
        return e[1][1]
    return None


def const_int(e):
    while e[0] == "cast":
        e = e[2]
    if e[0] == "const" and isinstance(e[1], int) and not isinstance(e[1], bool):
        return e[1]
    return None


def const_bool(e):
    if e[0] == "const" and isinstance(e[1], bool):
        return e[1]
    return None


BINOPS = {"Add": "+", "Sub": "-", "Mul": "*", "Div": "/", "Rem": "%", "Eq": "==", "Ne": "!=",
          "Lt": "<", "Le": "<=", "Gt": ">", "Ge": ">=", "BitAnd": "&", "BitOr": "|", "BitXor": "^",
          "Shl": "<<", "Shr": ">>"}


def render(e):
    """human readable, position-free rendering used in finding keys."""
    if not isinstance(e, tuple) or not e:
        return str(e)
    k = e[0]
    if k in ("param", "var"):
        return str(e[2])
    if k == "tmp":
        return "_t"
    if k == "capture":
        return str(e[1])
    if k == "const":
        v = e[1]
        if isinstance(v, tuple):
            if v[0] == "str":
                return '"%s"' % v[1].replace("\n", "\\n")
            if v[0] == "char":
                return "'%s'" % v[1]
            if v[0] == "fn":
                return short(v[1])
            if v[0] == "zst":
                return "()"
            if v[0] == "static":
                return short(v[1])
            return "<%s>" % (v[0],)
        return str(v).lower() if isinstance(v, bool) else str(v)
    if k == "field":
        nm = field_name(e) or str(e[1])
        return "%s.%s" % (render(e[2]), nm)
    if k == "index":
        return "%s[%s]" % (render(e[1]), render(e[2]))
    if k == "downcast":
        return "%s as %s" % (render(e[2]), e[1])
    if k == "subslice":
        return "%s[%s..]" % (render(e[2]), e[1][0])
    if k == "bin":
        return "(%s %s %s)" % (render(e[2]), BINOPS.get(e[1], e[1]), render(e[3]))
    if k == "un":
        return "%s(%s)" % ("!" if e[1] == "Not" else e[1], render(e[2]))
    if k == "cast":
        return "(%s as %s)" % (render(e[2]), e[1])
    if k == "discr":
        return "discr(%s)" % render(e[1])
    if k == "agg":
        return "%s(%s)" % (short(e[1]), ", ".join(render(x) for x in e[2]))
    if k == "call":
        return "%s(%s)" % (short(e[1]), ", ".join(render(x) for x in e[2]))
    if k == "overflow_flag":
        return "overflow(%s)" % render(e[1])
    if k == "unknown":
        return "?%s" % (e[1],)
    return str(e)


def _dominators(n, entry, succs, preds, reach):
    """returns {node: frozenset(dominators)} (iterative, on reachable nodes)."""
    order = []
    seen = set()

    def dfs(s):
        st = [(s, iter(succs[s]))]
        seen.add(s)
        while st:
            x, it = st[-1]
            adv = False
            for y in it:
                if y not in seen and y in reach:
                    seen.add(y)
                    st.append((y, iter(succs[y])))
                    adv = True
                    break
            if not adv:
                order.append(x)
                st.pop()
    dfs(entry)
    rpo = list(reversed(order))
    idx = {b: i for i, b in enumerate(rpo)}
    idom = {entry: entry}
    changed = True
    while changed:
        changed = False
        for b in rpo[1:]:
            new = None
            for p in preds[b]:
                if p in idom:
                    if new is None:
                        new = p
                    else:
                        f1, f2 = p, new
                        while f1 != f2:
                            while idx[f1] > idx[f2]:
                                f1 = idom[f1]
                            while idx[f2] > idx[f1]:
                                f2 = idom[f2]
                        new = f1
            if new is not None and idom.get(b) != new:
                idom[b] = new
                changed = True
    dom = {}
    for b in rpo:
        s = {b}
        x = b
        while x != entry and x in idom:
            x = idom[x]
            s.add(x)
        dom[b] = frozenset(s)
    return dom


class Crate:
    def __init__(self, facts):
        self.facts = facts
        self.kind = facts["crate_type"]
        self.inlined_helpers = []
        self.renamed = facts.get("_renamed", {})
        if os.environ.get("VERIF_INLINE", "1") != "0" and not facts.get("_inlined"):
            from . import inline
            base = inline.load_baseline()
            if base is not None:
                self.renamed = inline.undo_renames(facts, base.get(self.kind), base.get(self.kind + "_sig"))
                facts["_renamed"] = self.renamed
                self.inlined_helpers = inline.inline_crate(facts, base.get(self.kind), base.get(self.kind + "_comb"))
                facts["_inlined"] = True
                facts["_inlined_helpers"] = self.inlined_helpers
        else:
            self.inlined_helpers = facts.get("_inlined_helpers", [])
        self.bodies = {}
        for b in facts["bodies"]:
            self.bodies[b["path"]] = Body(b, self)
        self.adts = {a["path"]: a for a in facts["adts"]}
        self._callers = None

    def fn(self, path):
        return self.bodies.get(path)

    def fns(self):
        return [b for b in self.bodies.values() if b.kind in ("fn", "closure")]

    def find(self, suffix):
        """bodies whose path equals or ends with ::suffix"""
        out = []
        for p, b in self.bodies.items():
            if p == suffix or p.endswith("::" + suffix):
                out.append(b)
        return out

    def closures_of(self, path):
        """closures defined in `path`, including nested ones"""
        pre = path + "::{closure#"
        return [b for p, b in sorted(self.bodies.items()) if p.startswith(pre) and b.kind == "closure"]

    def callgraph(self):
        """{caller path: set(callee paths)} for local callees (closures attached to creator)."""
        if self._callers is None:
            g = {}
            for b in self.fns():
                out = g.setdefault(b.path, set())
                for bb, t, callee in b.calls():
                    ci = b.callee_info(t)
                    if ci is not None and ci.get("local"):
                        out.add(ci["resolved"])
                    # function items / closures passed as arguments
                    for a in t["args"]:
                        if "const" in a and a["const"].get("k") in ("fn", "closure"):
                            c = a["const"]
                            out.add(c.get("resolved") or c.get("path"))
                for bi, si, s in b.stmts():
                    if s["k"] == "assign":
                        rv = s["rv"]
                        if rv["k"] == "agg" and rv["agg"] == "closure":
                            out.add(rv["path"])
                        if rv["k"] in ("use", "cast"):
                            op = rv["op"]
                            if "const" in op and op["const"].get("k") in ("fn", "closure"):
                                c = op["const"]
                                out.add(c.get("resolved") or c.get("path"))
            self._callers = g
        return self._callers

    def reachable_from(self, roots):
        g = self.callgraph()
        seen = set()
        st = [r for r in roots if r in g or r in self.bodies]
        while st:
            x = st.pop()
            if x in seen:
                continue
            seen.add(x)
            for y in g.get(x, ()):
                if y not in seen and y in self.bodies:
                    st.append(y)
        return seen

    def callers_of(self, path):
        g = self.callgraph()
        return sorted(p for p, cs in g.items() if path in cs)


# ------------------------------------------------------------------ facts exploration
def explore(body, start, init, step, limit=200000):
    """Generic product exploration.  States are (bb, S) with S hashable.
    step(bb, S) -> iterable of (succ_bb, S2).  Returns the set of visited states.
    Raises OverflowError above `limit` states (callers fail closed)."""
    seen = set()
    work = [(start, init)]
    while work:
        st = work.pop()
        if st in seen:
            continue
        seen.add(st)
        if len(seen) > limit:
            raise OverflowError("state limit exceeded in %s" % body.path)
        for nxt in step(st[0], st[1]):
            if nxt not in seen:
                work.append(nxt)
    return seen


class FactWalker:
    """Path exploration carrying a set of (atom -> value) facts restricted to
    `relevant(atom)`; inconsistent paths are pruned; assignments kill facts
    that mention the assigned local."""

    def __init__(self, body, relevant=None, cut_back_edges=True):
        self.b = body
        rel = relevant or (lambda a: True)
        memo = {}

        def relevant_memo(a):
            r = memo.get(a)
            if r is None:
                r = bool(rel(a))
                memo[a] = r
            return r
        self.relevant = relevant_memo
        self.cut = set(body.back_edges()) if cut_back_edges else set()
        self.cut_back = bool(cut_back_edges)
        self._edges = {}
        self._kills = {}
        self._const_assign = {}
        self._loopk = {}

    def edges(self, bb):
        if bb not in self._edges:
            b = self.b
            t = b.term(bb)
            res = []
            if t["k"] == "switch" and len(b.succs[bb]) > 1:
                conds = b.switch_edges(bb)
                by = {}
                for tgt, atom, val in conds:
                    by.setdefault(tgt, []).append((atom, val))
                for s in b.succs[bb]:
                    cs = by.get(s, [])
                    if len(cs) == 1:
                        res.append((s, cs[0][0], cs[0][1]))
                    else:
                        res.append((s, None, None))
            else:
                for s in b.succs[bb]:
                    res.append((s, None, None))
            self._edges[bb] = res
        return self._edges[bb]

    def kills(self, bb):
        if bb not in self._kills:
            self._kills[bb] = self.b.assigned_vars_in_block(bb)
        return self._kills[bb]

    def bool_assigns(self, bb):
        """user variables assigned a known constant in this block:
        {local: bool}  or  {local: ('variant', name)} for Option/Result/enum aggregates"""
        if bb not in self._const_assign:
            out = {}
            for s in self.b.blocks[bb]["stmts"]:
                if s["k"] == "assign" and not s["place"]["p"]:
                    l = s["place"]["l"]
                    rv = s["rv"]
                    if rv["k"] == "use" and "const" in rv["op"]:
                        c = rv["op"]["const"]
                        if c.get("k") == "val" and isinstance(c["v"], bool):
                            out[l] = c["v"]
                            continue
                    if rv["k"] == "agg" and rv.get("agg") == "adt" and self.b.locals[l]["ty"].startswith(
                            ("std::option::Option<", "std::result::Result<")):
                        out[l] = ("variant", rv["variant"])
                        continue
                    if rv["k"] == "use" and ("move" in rv["op"] or "copy" in rv["op"]):
                        src = rv["op"].get("move") or rv["op"].get("copy")
                        if not src["p"] and src["l"] in out:
                            out[l] = out[src["l"]]
                            continue
                    out.pop(l, None)
            self._const_assign[bb] = out
        return self._const_assign[bb]

    def apply_block(self, bb, facts):
        """facts: frozenset of (atom, value). returns facts after the block's statements."""
        k = self.kills(bb)
        is_call = self.b.term(bb)["k"] == "call"
        if not k and not (is_call and facts):
            return facts
        keep = []
        for a, v in facts:
            if k and locals_in(a) & k:
                continue
            if is_call and _mentions_site(a, bb):
                # the call at this block runs again: what was known about its previous result is void
                continue
            keep.append((a, v))
        # a bool local assigned the value of a comparison (`let skip = status != 0;`, a helper's return value):
        # remember the expression, so that a later branch on the local is a branch on the comparison
        for l, e in self.bool_defs(bb, keep):
            keep = [(a, v) for a, v in keep if not (a[0] == "bdef" and a[1][1] == l)]
            if e is not None:
                keep.append((("bdef", ("var", l, None), e), True))
        ba = self.bool_assigns(bb)
        for l, v in ba.items():
            nm = self.b.names.get(l)
            if nm is None and len(self.b.defs.get(l, [])) > 1:
                nm = "_%d" % l                      # a temporary with several definitions (the result of a `match`)
            if nm is not None:
                atom = ("var", l, nm)
                if isinstance(v, tuple):
                    atom = ("discr", atom)
                    v = v[1]
                if self.relevant(atom):
                    keep.append((atom, v))
        return frozenset(keep)

    def bool_defs(self, bb, facts):
        """[(local, expr | None)] for bool locals assigned in this block from a comparison / negation / a copy of a
        local whose defining comparison is known (None: assigned something else)"""
        out = []
        cur = {a[1][1]: a[2] for a, v in facts if a[0] == "bdef"}
        for s in self.b.blocks[bb]["stmts"]:
            if s["k"] != "assign" or s["place"]["p"]:
                continue
            l = s["place"]["l"]
            if self.b.locals[l]["ty"] != "bool":
                continue
            rv = s["rv"]
            e = None
            if rv["k"] in ("bin", "un"):
                try:
                    e = strip_sites(self.b.rvalue_expr(rv))
                except RecursionError:
                    e = None
            elif rv["k"] == "use" and ("move" in rv["op"] or "copy" in rv["op"]):
                src = rv["op"].get("move") or rv["op"].get("copy")
                if not src["p"]:
                    e = cur.get(src["l"])
            cur[l] = e
            if e is None:
                cur.pop(l, None)
            out.append((l, e))
        return out

    def loop_kills(self, h):
        """locals assigned anywhere in the natural loop headed by h"""
        if h not in self._loopk:
            ks = set()
            for x in self.b.loops().get(h, ()):
                ks |= self.kills(x)
            self._loopk[h] = ks
        return self._loopk[h]

    def step(self, bb, facts):
        if self.cut_back and bb in self.b.loops() and facts:
            # entering a loop with its back edges cut: forget what the loop may change
            lk = self.loop_kills(bb)
            if lk:
                facts = frozenset((a, v) for a, v in facts if not (locals_in(a) & lk))
        facts = self.apply_block(bb, facts)
        out = []
        for s, atom, val in self.edges(bb):
            if (bb, s) in self.cut:
                continue
            if atom is not None and atom[0] in ("var", "tmp") and isinstance(val, bool):
                # a branch on a bool local whose defining comparison is known on this path
                extra = [(a[2], val) for a, v in facts if a[0] == "bdef" and a[1][1] == atom[1]]
                extra = [(e, v) for e, v in extra if self.relevant(e)]
                if extra:
                    f2 = facts
                    okx = True
                    for e, v in extra:
                        if any(a == e and not _consistent(v0, v) for a, v0 in facts):
                            okx = False
                    if not okx:
                        continue
                    f2 = facts | set(extra)
                    if self.relevant(atom):
                        f2 = f2 | {(atom, val)}
                    out.append((s, frozenset(f2)))
                    continue
            if atom is None or not self.relevant(atom):
                out.append((s, facts))
                continue
            ok = True
            for a, v in facts:
                if a == atom and not _consistent(v, val):
                    ok = False
                    break
            if not ok:
                continue
            out.append((s, facts | {(atom, val)}))
        return out

    def run(self, start, init=frozenset()):
        return explore(self.b, start, init, self.step)


def _mentions_site(e, bb):
    if not isinstance(e, tuple):
        return False
    if e and e[0] == "call" and len(e) > 3 and e[3] == bb:
        return True
    if e and e[0] == "const":
        return False
    for x in e[1:]:
        if isinstance(x, tuple):
            if x and isinstance(x[0], str):
                if _mentions_site(x, bb):
                    return True
            else:
                for y in x:
                    if isinstance(y, tuple) and _mentions_site(y, bb):
                        return True
    return False


def _consistent(v1, v2):
    if v1 == v2:
        return True
    n1 = isinstance(v1, tuple) and v1 and v1[0] == "not"
    n2 = isinstance(v2, tuple) and v2 and v2[0] == "not"
    if n1 and n2:
        return True
    if n1:
        return v2 not in v1[1]
    if n2:
        return v1 not in v2[1]
    return False


TOKEN_TY = "(std::string::String, std::string::String)"


def field_name(e):
    """declared name of a field node ('' for tuple fields); works on raw and stripped nodes"""
    if e[0] == "field" and len(e) > 3 and e[3]:
        m = e[3]
        return m if isinstance(m, str) else (m[0] or "")
    return ""


def fld(i, e, name=""):
    """build a stripped field node (the shape strip_sites produces)"""
    return ("field", i, e, name)


def field_bty(e):
    if e[0] == "field" and len(e) > 3 and e[3] and not isinstance(e[3], str):
        return e[3][1]
    return ""


def is_token_field(e, i):
    """e is field i of a value of type Token = (String, String)"""
    return e[0] == "field" and e[1] == i and field_bty(e) == TOKEN_TY


def root_local_expr(e):
    """local index at the root of a place-like expression (through fields, indexes, identity calls)"""
    while True:
        if e[0] in ("var", "param", "tmp"):
            return e[1]
        if e[0] in ("field", "downcast"):
            e = e[2]
        elif e[0] == "index":
            e = e[1]
        elif e[0] == "call" and e[2] and any(short(e[1]).endswith(x) for x in IDENTITY_CALLS):
            e = e[2][0]
        elif e[0] == "cast":
            e = e[2]
        else:
            return None


def anon(e, table=None):
    """replace variable / parameter / capture names by $1, $2.. in order of first appearance, so that a
    rendering used in a finding key does not change when a local is renamed"""
    table = table if table is not None else {}
    if not isinstance(e, tuple) or not e:
        return e
    k = e[0]
    if k in ("var", "param"):
        key = (k, e[1])
        if key not in table:
            table[key] = "$%d" % (len(table) + 1)
        return (k, e[1], table[key])
    if k == "capture":
        key = (k, e[1])
        if key not in table:
            table[key] = "$%d" % (len(table) + 1)
        return (k, table[key])
    if k == "const":
        return e
    return tuple(anon(x, table) if isinstance(x, tuple) and x and isinstance(x[0], str)
                 else (tuple(anon(y, table) for y in x) if isinstance(x, tuple) else x) for x in e)


def render_key(e, table=None):
    return render(anon(e, table))


def bool_sources(b, l, depth=4):
    """definitions of a bool local, through plain copies of other locals (stripped expressions)"""
    out = []
    for bi, si in b.defs.get(l, []):
        e = strip_sites(b.def_expr(bi, si))
        if e[0] == "var" and depth > 0 and e[1] != l:
            out += bool_sources(b, e[1], depth - 1)
        else:
            out.append(e)
    return out


def raw_root_local(b, op, want=lambda ty: True, depth=6):
    """the local an operand was taken from, following single-definition temporaries through plain uses, references and
    pointer casts only (calls are not looked through): `&args` handed to a callee -> the local `args`"""
    for _ in range(depth):
        pl = op.get("move") or op.get("copy") if isinstance(op, dict) else None
        if pl is None:
            return None
        l = pl["l"]
        if want(b.locals[l]["ty"]) and not b.locals[l]["ty"].startswith("&"):
            return l
        defs = b.defs.get(l, [])
        if len(defs) != 1 or defs[0][1] == "T":
            return None
        st = b.blocks[defs[0][0]]["stmts"][defs[0][1]]
        rv = st["rv"]
        if rv["k"] in ("ref", "rawptr"):
            op = {"copy": {"l": rv["place"]["l"], "p": []}}
        elif rv["k"] == "use":
            op = rv["op"]
        elif rv["k"] == "cast":
            op = rv["op"]
        else:
            return None
    return None
