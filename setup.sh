#!/bin/sh
# Offline setup: build the compiler wrapper and warm the dependency metadata cache.
set -e
cd "$(dirname "$0")"
export CARGO_NET_OFFLINE=true
(cd driver && cargo build --release --offline 2>&1 | tail -2)
for t in tools/refacts tools/pestfacts; do
  if [ -f "$t/Cargo.toml" ]; then (cd "$t" && cargo build --release --offline 2>&1 | tail -2); fi
done
python3 -c "
import sys; sys.path.insert(0, '.')
from sa import facts
f = facts.extract()
print('facts:', f['hash'], 'cached' if f['cached'] else 'extracted', '%.1fs' % f['secs'], len(f['lib']['bodies']), len(f['bin']['bodies']))
"
