"""Self-validation corpus: edits (file, old, new) against /repo.  Mutants must be reported by the
property's rules (expect = substring of a violation key); refactors must leave the listed
properties silent."""

T = "src/types.rs"
S = "src/shell.rs"
C = "src/core.rs"
E = "src/execute.rs"
P = "src/parsers/parser_line.rs"
J = "src/jobc.rs"
M = "src/main.rs"
TL = "src/tools.rs"

MUTANTS = []
REFACTORS = []


def mut(prop, name, expect, what, *edits):
    MUTANTS.append({"prop": prop, "name": name, "expect": expect, "what": what, "edits": list(edits)})


def ref(name, props, what, *edits):
    REFACTORS.append({"name": name, "props": props, "what": what, "edits": list(edits)})


# ------------------------------------------------------------------ C01
mut("C01", "pipe-ignores-tag", "split_tokens_by_pipes", "quoted | splits the pipeline",
    (T, 'if sep.is_empty() && value == "|" {', 'if value == "|" {'))
mut("C01", "redirect-ignores-tag", "tokens_to_redirections", "quoted > acts as a redirection",
    (P, '''        if !sep.is_empty() && !to_be_continued {
            tokens_new.push(token.clone());
            continue;
        }
''', ''))
mut("C01", "glob-flipped-guard", "expand_glob", "glob expands quoted tokens only",
    (S, "if !sep.is_empty() || !needs_globbing(text) {", "if sep.is_empty() || !needs_globbing(text) {"))
mut("C01", "argv-skip", "execve-argv", "argv chain drops an argument",
    (C, '''                .tokens
                .iter()
                .map(|x| CString::new(x.1.as_str()).expect("CString error"))''',
     '''                .tokens
                .iter()
                .skip(1)
                .map(|x| CString::new(x.1.as_str()).expect("CString error"))'''))
mut("C01", "background-ignores-tag", "from_line", "quoted & backgrounds the line",
    (T, 'if len > 1 && tokens[len - 1].0.is_empty() && tokens[len - 1].1 == "&" {',
     'if len > 1 && tokens[len - 1].1 == "&" {'))
mut("C01", "here-string-ignores-tag", "from_tokens", "quoted <<< acts as here-string",
    (T, 'if let Some(idx) = tokens_new.iter().position(|x| x.0.is_empty() && x.1 == "<<<") {',
     'if let Some(idx) = tokens_new.iter().position(|x| x.1 == "<<<") {'))
mut("C01", "bangbang-single-quote", "extend_bangbang", "!! expands inside single quotes",
    (TL, '''if re_contains(&token, r"!!") && sep != "'" {''', '''if re_contains(&token, r"!!") {'''))

# ------------------------------------------------------------------ C02
mut("C02", "parent-keeps-write-end", "P1 close", "parent never closes the write end: reader never sees EOF",
    (C, '''            if idx_cmd < pipes_count {
                let fds = pipes[idx_cmd];
                libs::close(fds.1);
            }
            if idx_cmd > 0 {
                // close pipe end only after dupped in the child''',
     '''            if idx_cmd > 0 {
                // close pipe end only after dupped in the child'''))
mut("C02", "status-of-first", "status-write", "pipeline status taken from the first pid",
    (J, "    let pid_last = pids.last().unwrap();", "    let pid_last = pids.first().unwrap();"))
mut("C02", "count-gt", "exit|", "wait loop exits one event late",
    (J, "        if count_waited >= count_child {", "        if count_waited > count_child {"))
mut("C02", "too-many-pipes", "creation-bound", "one pipe too many is created",
    (C, "    for _ in 0..length - 1 {", "    for _ in 0..length {"))
mut("C02", "push-without-bg-test", "push-guard", "background children are waited for",
    (C, "        if child_id > 0 && !cl.background {", "        if child_id > 0 {"))
mut("C02", "child-no-dup2-stdin", "K2a", "later stages do not read from the pipe",
    (C, '''                libs::dup2(fds_prev.0, 0);
                libs::close(fds_prev.0);''', '''                libs::close(fds_prev.0);'''))
mut("C02", "signal-status-256", "constants", "killed status is 256+signal",
    (T, "        self.2 + 128", "        self.2 + 256"))

# ------------------------------------------------------------------ C03
mut("C03", "break-on-skip", "R03-1", "skipped && segment ends the line",
    (E, '''        if sep == "&&" && status != 0 {
            continue;
        }''', '''        if sep == "&&" && status != 0 {
            break;
        }'''))
mut("C03", "and-polarity", "R03-2", "&& runs its right side on failure",
    (E, 'if sep == "&&" && status != 0 {', 'if sep == "&&" && status == 0 {'))
mut("C03", "no-previous-status", "R03-3", "$? is not updated",
    (E, "        sh.previous_status = status;\n", ""))
mut("C03", "dash-c-exit-zero", "R03-5|main|is_command_string", "-c always exits 0",
    (M, "        std::process::exit(sh.previous_status);", "        std::process::exit(0);"))
mut("C03", "swap-dollar-arms", "R03-4", "$? and $$ swapped",
    (S, '        if key == "?" {', '        if key == "$" {'),
    (S, '        } else if key == "$" {', '        } else if key == "?" {'))

# ------------------------------------------------------------------ C04
mut("C04", "append-truncates", "append-true", ">> truncates",
    (TL, "        oos.append(true);", "        oos.write(true);\n        oos.truncate(true);"))
mut("C04", "append-selector", "callsite", ">> selected by the wrong literal",
    (C, '                    let append = op_ == ">>";', '                    let append = op_ == ">";'))
mut("C04", "stderr-to-stdout", "dup2|file", "2> file lands on descriptor 1",
    (C, '''                            if from_ == "1" {
                                libs::dup2(fd, 1);''', '''                            if from_ == "2" {
                                libs::dup2(fd, 1);'''))
mut("C04", "open-error-exit-zero", "R04-4", "open failure exits 0",
    (C, '''                        Err(e) => {
                            println_stderr!("cicada: fork: {}", e);
                            process::exit(1);''', '''                        Err(e) => {
                            println_stderr!("cicada: fork: {}", e);
                            process::exit(0);'''))
mut("C04", "reverse-order", "R04-3", "redirections applied right to left",
    (C, "            for item in &cmd.redirects_to {", "            for item in cmd.redirects_to.iter().rev() {"))
mut("C04", "dup2-in-shell", "R04-5", "the shell rewires its own stdout for a builtin",
    (C, '''    let capture = options.capture_output;
    if cl.is_single_and_builtin() {''', '''    let capture = options.capture_output;
    if cl.is_single_and_builtin() {
        if cl.background {
            libs::dup2(2, 1);
        }'''))

# ------------------------------------------------------------------ C05
mut("C05", "nth-without-bound", "nth", "tokenizer looks one char ahead without a bound",
    (P, '''                if i + 1 < count_chars && line.chars().nth(i + 1).unwrap() == '|' {''',
     '''                if line.chars().nth(i + 1).unwrap() == '|' {'''))
mut("C05", "second-remove-unguarded", "remove", "redirect operand removed without a length test",
    (T, '''                redirects_from_type = "<".to_string();
                tokens_new.remove(idx);
                len -= 1;
                if len > idx {
                    redirects_from_value = tokens_new.remove(idx).1;
                    len -= 1;
                }''', '''                redirects_from_type = "<".to_string();
                tokens_new.remove(idx);
                len -= 1;
                redirects_from_value = tokens_new.remove(idx).1;
                len -= 1;'''))
mut("C05", "dollar-loop-continue", "stutter", "unparsable $(...) spins",
    (S, '''                    println_stderr!("cicada: {}", e);
                    types::CommandResult::from_status(0, 1)
                }
            };

            let output_txt''', '''                    println_stderr!("cicada: {}", e);
                    continue;
                }
            };

            let output_txt'''))
mut("C05", "job-loop-no-increment", "get_job_by_gid", "job lookup loop never advances",
    (S, '''                if x.gid == gid {
                    return Some(x);
                }
            }

            i += 1;''', '''                if x.gid == gid {
                    return Some(x);
                }
            }
'''))
mut("C05", "pow-again", "pow", "integer power overflows",
    (  "src/calculator/mod.rs", "Rule::power => lhs.wrapping_pow(rhs as u32),", "Rule::power => lhs.pow(rhs as u32),"))
mut("C05", "empty-command", "tokens, 0)", "first-word lookup on an empty word list",
    (T, '''        if tokens_final.is_empty() {
            return Err(String::from("syntax error: missing command"));
        }
''', ""))
mut("C05", "new-unwrap", "unwrap", "a new unwrap on user-controlled text",
    (S, '''        let end = match caps[2].to_string().parse::<i32>() {
            Ok(x) => x,
            Err(e) => {
                println_stderr!("cicada: {}", e);
                return;
            }
        };''', '''        let end = caps[2].to_string().parse::<i32>().unwrap();'''))

# ------------------------------------------------------------------ C07
mut("C07", "no-give-back", "R07-1|execute::run_proc", "terminal stays with the finished job",
    (E, '''            let (term_given, cr) = core::run_pipeline(sh, &cl, tty, capture, log_cmd);
            if term_given {
                unsafe {
                    let gid = libc::getpgid(0);
                    shell::give_terminal_to(gid);
                }
            }
''', '''            let (_term_given, cr) = core::run_pipeline(sh, &cl, tty, capture, log_cmd);
'''))
mut("C07", "background-owns-terminal", "R07-2", "a background job is given the terminal",
    (C, '''                    if sh.has_terminal
                        && options.isatty
                        && !cl.background
                    {''', '''                    if sh.has_terminal
                        && options.isatty
                    {'''))
mut("C07", "no-setpgid-later-stages", "K1p", "later stages stay in the shell's group",
    (C, '''                unsafe {
                    libc::setpgid(0, *pgid);
                }''', '''                unsafe {
                    libc::getpgid(0);
                }'''))
mut("C07", "mask-not-restored", "R07-4", "signals stay blocked after tcsetpgrp",
    (S, '''    let rcode = libc::pthread_sigmask(libc::SIG_SETMASK, &old_mask, &mut mask);
    if rcode != 0 {
        log!("failed to call pthread_sigmask");
    }
    given''', '''    given'''))
mut("C07", "no-poll-after-line", "R07-5", "background jobs are not polled after a command",
    (M, '''                jobc::try_wait_bg_jobs(&mut sh, true, sig_handler_enabled);
                continue;
            }
            Ok(ReadResult::Eof) => {''', '''                continue;
            }
            Ok(ReadResult::Eof) => {'''))

# ------------------------------------------------------------------ C08
mut("C08", "child-keeps-read-end", "K3c", "child keeps the read end of its own output pipe",
    (C, '''                libs::dup2(fds.1, 1);
                libs::close(fds.1);
                libs::close(fds.0);''', '''                libs::dup2(fds.1, 1);
                libs::close(fds.1);'''))
mut("C08", "dup-not-closed", "K7", "temporary dup for 2>&1 stays open",
    (C, '''                        libs::dup2(fd, 2);
                        libs::close(fd);''', '''                        libs::dup2(fd, 2);'''))
mut("C08", "capture-pipes-for-builtin", "single-builtin", "capture pipes created for a single builtin again",
    (C, "    if capture && !cl.is_single_and_builtin() {", "    if capture {"))
mut("C08", "early-return-after-pipes", "R08-3", "return between pipe creation and the stage loop",
    (C, '''    let mut pgid: i32 = 0;
    let mut fg_pids: Vec<i32> = Vec::new();
''', '''    let mut pgid: i32 = 0;
    let mut fg_pids: Vec<i32> = Vec::new();
    if cl.line.len() > 4096 {
        return (false, CommandResult::error());
    }
'''))
mut("C08", "parent-keeps-capture-write", "P3a", "parent keeps the capture pipe's write end",
    (C, '''                    if let Some(fds) = fds_capture_stdout {
                        libs::close(fds.1);

                        let mut f = File::from_raw_fd(fds.0);''', '''                    if let Some(fds) = fds_capture_stdout {
                        let mut f = File::from_raw_fd(fds.0);'''))
mut("C08", "builtin-fd-not-wrapped", "R08-1", "print_stdout forgets the dup'ed descriptor on an early return",
    ("src/builtins/utils.rs", '''    let fd = _get_dupped_stdout_fd(cmd, cl);
    if fd == -1 {
        return;
    }
''', '''    let fd = _get_dupped_stdout_fd(cmd, cl);
    if fd == -1 || info.is_empty() {
        return;
    }
'''))

# ------------------------------------------------------------------ refactors (must stay silent)
ref("rename-locals", ["C01", "C13", "C05"], "rename sep/value in split_tokens_by_pipes",
    (T, '''        let sep = &token.0;
        let value = &token.1;
        if sep.is_empty() && value == "|" {''', '''        let tag = &token.0;
        let txt = &token.1;
        if tag.is_empty() && txt == "|" {'''))
ref("tag-eq-empty", ["C01", "C12", "C13"], "sep.is_empty() spelled sep == \"\"",
    (S, "if !sep.is_empty() || !needs_globbing(text) {", 'if sep != "" || !needs_globbing(text) {'))
ref("reorder-closes", ["C02", "C08"], "reorder the two independent parent closes",
    (C, '''            if idx_cmd < pipes_count {
                let fds = pipes[idx_cmd];
                libs::close(fds.1);
            }
            if idx_cmd > 0 {
                // close pipe end only after dupped in the child
                let fds = pipes[idx_cmd - 1];
                libs::close(fds.0);
            }
''', '''            if idx_cmd > 0 {
                // close pipe end only after dupped in the child
                let fds = pipes[idx_cmd - 1];
                libs::close(fds.0);
            }
            if idx_cmd < pipes_count {
                let fds = pipes[idx_cmd];
                libs::close(fds.1);
            }
'''))
ref("index-without-let", ["C02", "C08"], "close(pipes[idx].1) without the intermediate binding",
    (C, '''            if idx_cmd < pipes_count {
                let fds = pipes[idx_cmd];
                libs::close(fds.1);
            }
            if idx_cmd > 0 {
                // close pipe end only after dupped in the child''', '''            if pipes_count > idx_cmd {
                libs::close(pipes[idx_cmd].1);
            }
            if idx_cmd > 0 {
                // close pipe end only after dupped in the child'''))
ref("invert-if-else", ["C03", "C05"], "invert the operator-token test in run_command_line",
    (E, '''        if token == ";" || token == "&&" || token == "||" {
            sep = token.clone();
            continue;
        }
''', '''        if !(token == ";" || token == "&&" || token == "||") {
        } else {
            sep = token.clone();
            continue;
        }
'''))
ref("status-gt-zero", ["C03"], "status != 0 spelled status > 0",
    (E, 'if sep == "&&" && status != 0 {', 'if sep == "&&" && status > 0 {'))
ref("if-let-to-match", ["C08", "C04"], "if let Some(fds) -> match in the child's here-string block",
    (C, '''                if let Some(fds) = fds_stdin {
                    libs::close(fds.1);
                    libs::dup2(fds.0, 0);
                    libs::close(fds.0);
                }''', '''                match fds_stdin {
                    Some(fds) => {
                        libs::close(fds.1);
                        libs::dup2(fds.0, 0);
                        libs::close(fds.0);
                    }
                    None => {}
                }'''))
ref("extra-log-lines", ["C01", "C02", "C03", "C04", "C05", "C07", "C08"], "insert log lines (moves every line number)",
    (E, '''    let mut cr_list = Vec::new();
    let mut status = 0;''', '''    log!("run_command_line: {}", line);
    let mut cr_list = Vec::new();
    let mut status = 0;'''),
    (C, '''    let pipes_count = pipes.len();
    let mut fds_stdin = None;''', '''    log!("stage {}", idx_cmd);
    let pipes_count = pipes.len();
    let mut fds_stdin = None;'''))

ref("rename-loop-counter", ["C05", "C06"], "rename the counter of a job-table loop",
    (S, """    pub fn get_job_by_gid(&self, gid: i32) -> Option<&types::Job> {
        if self.jobs.is_empty() {
            return None;
        }

        let mut i = 1;
        loop {
            if let Some(x) = self.jobs.get(&i) {
                if x.gid == gid {
                    return Some(x);
                }
            }

            i += 1;
            if i >= 65535 {
                break;
            }
        }
        None
    }""", """    pub fn get_job_by_gid(&self, gid: i32) -> Option<&types::Job> {
        if self.jobs.is_empty() {
            return None;
        }

        let mut job_id = 1;
        loop {
            if let Some(job) = self.jobs.get(&job_id) {
                if job.gid == gid {
                    return Some(job);
                }
            }

            job_id += 1;
            if job_id >= 65535 {
                break;
            }
        }
        None
    }"""))
